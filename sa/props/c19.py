"""C19 — state stores implement the same state semantics, with isolated snapshots.

Decided (necessary conditions, visible in the shape of the code):

* R1  sibling agreement of the two anchored stores (InMemoryStateStore, SqliteStateStore):
      (a) each implements every method of the ``StateStore`` protocol with the same positional
          parameters and the same sync/async kind;
      (b) ``get`` / ``set`` / ``set_state`` / ``clear`` route through the *same* shared helpers
          (``get_by_path``, ``set_by_path``, ``merge_state``, ``create_cleared_state`` of
          workflows.context.state_store, resolved through the import table) and forward their own
          parameters into the helper's path / default / value / incoming slots (``merge_state(current,
          incoming)``: the method's parameter is the *incoming* argument, never the current one);
      (c) every value ``set_state`` writes (assignment to the stored field, or the state argument of a
          private method that executes an INSERT/UPDATE) is the result of ``merge_state`` — no path
          persists the caller's object unmerged (replace-or-parent-merge is the only transition).
* R2  snapshot isolation of ``get_state``: the returned value is not the stored object, and when it is
      a shallow copy of the stored object (``model_copy()`` / ``copy.copy``) the default state class
      (DictState and its repo ancestors) has a copy hook (``model_copy`` / ``__copy__``) that re-creates
      every mutable private container that carries its top-level keys (``DictLikeModel._data``) on EVERY
      path on which a shallow copy is made (CFG: each path entry -> return passes the re-creation unless it
      took a branch on which ``deep`` is truthy; a re-creation guarded by the container's contents is a miss).
      Values that come from a fresh deserialization / constructor / deep copy are snapshots.
* R3  no mutator has a normal path that skips its write (sibling agreement on "a write always writes"):
      (a) in ``set`` of each store every CFG path from entry to a NORMAL return executes the shared ``set_by_path``
          (directly, or in a method of the store that executes it on all of its normal paths) — whatever the
          value; an early exit / nested guard around the path write (e.g. "skip when the stored value == value")
          is reported: Python ``==`` is not JSON identity (None default stands for `missing`, True == 1, 2 == 2.0),
          and a ``set`` that returns normally without writing makes a later ``get`` differ from the model;
      (b) the object ``set_by_path`` writes into is the stored object itself (provenance: a field of the store,
          not a copy), or the object yielded by the store's own ``edit_state()`` context manager, or a loaded copy
          that is saved (field assignment / private INSERT-UPDATE method given that same object) on every normal
          path after the path write;
      (c) ``edit_state`` (generator context manager): after the yield every normal path writes the yielded object
          back, unless the yielded object is the stored object itself;
      (d) ``set_state`` and ``clear``: every normal path performs a write of the state or delegates to a mutator /
          ``edit_state()`` block that does.  Paths that end in an exception are not normal returns.
* R4  the parent-type merge of ``merge_state(current, incoming)`` is ``{**current, **full_parent}``: for every return that
      builds its value from both arguments, the pydantic dump calls (``model_dump`` / ``dict`` / ``model_dump_json`` /
      ``json``) whose result flows into the returned constructor call (dependence slice through locals, extended by in-place
      fills ``x.update(…)`` / ``x[k] = …``) are classified by the argument they are taken from; none of them may carry a
      field filter (``exclude_unset`` / ``exclude_defaults`` / ``exclude_none`` / ``include`` / ``exclude`` / ``skip_defaults``
      with a value other than a literal False / None / empty collection): a filter on the incoming side leaves old stored
      values in place for the fields it drops, a filter on the current side re-creates stored fields from their defaults.
      Reading ``model_fields_set`` into the merged value is the same fault; ``by_alias`` must agree on both sides; when the
      merged mapping is a literal overlay (``{**a, **b}`` / ``a | b``) its last operand is the incoming side.
      A filter whose value is not a literal, or a merge in which no read of the incoming fields is found, is an analysis error.

* R5  the state installed by ``clear()`` is an instance created by that very call.  ``clear`` hands the result of the shared
      ``create_cleared_state`` to ``set_state``; ``merge_state`` returns a same-type incoming object by identity, so in
      InMemoryStateStore that object BECOMES the live state which ``set`` / ``edit_state`` then mutate in place (R3 classifies both as
      `in place on self._state`).  Decided, by an
      origin analysis of every returned / written value (flow-insensitive over locals, through repo functions and the store's own
      methods with the arguments bound): (a) ``create_cleared_state`` runs its body on every call — no memoising decorator
      (``functools.lru_cache`` / ``cache`` / anything resolving to a cache/memo wrapper) and no memoising re-binding of its name;
      (b) every value it returns is created during the call (a call of the state-class argument, a constructor, a deep copy), not
      read from something that outlives the call: module-level name or container, ``global``, attribute of the class / of another
      long-lived object, mutable default argument, result of a memoised function, nor a SHALLOW copy of any of these (nested mutable
      defaults stay shared); (c) for each store whose ``clear`` ends in an assignment to a field (the object is kept: InMemoryStateStore),
      every value that can reach that assignment from ``clear`` through ``set_state`` / ``merge_state`` is such a fresh object (not
      another field of the store either).  A store that serialises the cleared state (SqliteStateStore: INSERT/UPDATE) keeps no
      reference; it is only counted.  If the condition is broken, values written after one clear() survive the next clear() and all
      stores cleared with the same state type share one state object.  A decorator / re-binding the rule cannot read is an analysis error.

Not decided: equality of values with a nested-dict model over operation sequences (reduced to "both
stores call the same helpers with the same argument roles"), JSON round-trip fidelity of values, nested
(below top level) aliasing of snapshots, anything about stores other than the two anchored ones.
Trusted: pydantic's ``model_copy()`` copies ``__dict__`` one level deep and shares the *values* of
private attributes; serializer ``deserialize`` / class constructors return new objects.
"""

from __future__ import annotations

import ast

from ..astx import atoms, call_name, calls, dep_slice, dotted, enclosing_stmt, expand, last
from ..cfg import CFG
from ..index import AnchorError, FuncNode, Module, Repo, parent, walk_shallow
from ..selftest import Twin, multi

EXPLANATION = (
    "Static sibling-agreement and aliasing rules over workflows/context/state_store.py (InMemoryStateStore, helpers, DictState), "
    "workflows/events.py (DictLikeModel) and server/_store/sqlite/sqlite_state_store.py (SqliteStateStore). "
    "R1: both stores implement every StateStore protocol method with the protocol's parameters; get/set/set_state/clear of both reach the same "
    "shared helper (get_by_path/set_by_path/merge_state/create_cleared_state, resolved through imports) and forward their own parameters into "
    "the helper's path/default/value/incoming slots; every value set_state writes is the result of merge_state (no unmerged write on any path). "
    "R2: get_state never returns the stored object; a shallow copy of the stored object is accepted only if the default state class "
    "(DictState -> DictLikeModel) has a copy hook that re-creates the private dict holding its top-level keys on every CFG path with `deep` falsy "
    "(a guard on the dict's contents/truthiness leaves a path that shares it); fresh deserializations, "
    "constructor results and deep copies are snapshots. "
    "R3: no mutator skips its write: in `set` of both stores every CFG path to a normal return executes set_by_path (no value-dependent early exit "
    "or guard: Python == is not JSON identity), the object it writes into is the stored object, the object yielded by edit_state(), or a loaded copy "
    "saved on every normal path afterwards; edit_state writes the yielded object back on every normal path after the yield; set_state and clear "
    "write (or delegate to a mutator) on every normal path. Exception exits are not normal paths. "
    "R4: in merge_state(current, incoming) every return built from both arguments is the parent-type merge, whose nested-dict model is {**current, **full_parent}; the pydantic dump calls "
    "(model_dump/dict/model_dump_json/json) whose result flows into the returned constructor call (dependence slice through locals plus in-place fills) are classified as incoming-side or current-side "
    "by the parameter they depend on, and none may carry a field filter (exclude_unset/exclude_defaults/exclude_none/include/exclude/skip_defaults other than a literal False/None/empty collection): "
    "dropped incoming fields keep their old stored value, dropped current fields are reset to defaults. model_fields_set flowing into the merged value is reported alike; by_alias must agree on both sides; "
    "a literal overlay ({**a, **b} / a | b) must end with the incoming side. Planted filtered/swapped merges in fixtures/c19/planted_merge.py must be reported on every run. "
    "R5: the state clear() installs is created by that call: create_cleared_state has no memoising decorator / re-binding (functools.lru_cache, cache, any cache/memo wrapper resolved through imports) and every value it returns "
    "originates in the call (constructor call of the state-class argument, deep copy), never in a module-level name/container, a global, an attribute of the class, a mutable default argument, a memoised function, or a shallow copy of one; "
    "in InMemoryStateStore (which keeps the object: clear -> set_state -> merge_state returns the incoming object by identity -> self._state, then set/edit_state mutate it in place) every value reaching the field from clear() is such a fresh object. "
    "Otherwise writes made after one clear() survive the next and stores of one state type alias each other. SqliteStateStore serialises the cleared state and is only counted. "
    "Planted memoised/singleton/default-argument helpers in fixtures/c19/planted_clear.py must be reported on every run. "
    "NOT decided: value equality with a nested-dict model over arbitrary sequences, "
    "JSON round-trip fidelity, aliasing below the top level, other store implementations."
)
TRUSTED = [
    "CPython ast",
    "pydantic BaseModel.model_copy(): shallow copy of __dict__, private attribute values shared; deep=True copies recursively",
    "serializer.deserialize / class constructors return new objects",
    "pydantic model_dump()/dict() without include/exclude/exclude_* arguments emit every field of the model",
    "functools.lru_cache / functools.cache return the stored result object for equal arguments; calling a class / an external factory returns a new object; deepcopy / model_copy(deep=True) share nothing",
]
LEVEL_TEXT = "static necessary-condition rules (sibling agreement T5, aliasing T11); no repo code executed"
LEVEL_NOTE = "A pass means the decided clauses hold, not that both stores equal a nested-dict model for every operation sequence."
TECHNIQUE = ("AST sibling comparison, import-resolved helper binding, return-value origin analysis through self-calls and repo functions, "
             "CFG must-pass (every normal path executes the write) for the mutators, per-call freshness (escape) analysis of the value clear() installs")

MEM = "workflows.context.state_store"
SQL = "llama_agents.server._store.sqlite.sqlite_state_store"
PROTOCOL = "StateStore"
DEFAULT_STATE = "DictState"
STORES = [(MEM, "InMemoryStateStore"), (SQL, "SqliteStateStore")]
# operation -> (shared helper, {helper slot index: index of the method's own parameter (after self)})
ROUTES = {
    "get": ("get_by_path", {1: 0, 2: 1}),
    "set": ("set_by_path", {1: 0, 2: 1}),
    "set_state": ("merge_state", {1: 0}),
    "clear": ("create_cleared_state", {}),
}
SQL_WRITE_WORDS = ("INSERT", "UPDATE", "REPLACE")
SHALLOW_FUNCS = {"copy"}  # copy.copy(x) / copy(x)
DEEP_FUNCS = {"deepcopy"}
COPY_HOOKS = ("model_copy", "__copy__")


# ----------------------------------------------------------------------------------------------- helpers


def _params(fn: ast.AST) -> list[str]:
    a = fn.args
    names = [x.arg for x in a.posonlyargs + a.args]
    return names[1:] if names and names[0] in ("self", "cls") else names


def _defaults_from(fn: ast.AST) -> int:
    """Index (in _params) of the first parameter that has a default."""
    n = len(_params(fn))
    return n - len(fn.args.defaults)


def _self_method_call(c: ast.Call) -> str | None:
    f = c.func
    if isinstance(f, ast.Attribute) and isinstance(f.value, ast.Name) and f.value.id == "self":
        return f.attr
    return None


def _is_self_attr(e: ast.AST, attr: str | None = None) -> bool:
    return isinstance(e, ast.Attribute) and isinstance(e.value, ast.Name) and e.value.id == "self" and (attr is None or e.attr == attr)


def _decorators(fn: ast.AST) -> set[str]:
    return {last(dotted(d.func if isinstance(d, ast.Call) else d)) or "" for d in fn.decorator_list}


class _Cls:
    def __init__(self, repo: Repo, modname: str, clsname: str):
        self.repo = repo
        self.m, self.node = repo.cls(f"{modname}:{clsname}")
        self.ref = f"{modname}:{clsname}"
        self.name = clsname

    def method(self, name: str) -> ast.AST | None:
        r = self.repo.find_method(self.ref, name)
        return r[2] if r else None

    def need(self, name: str) -> ast.AST:
        f = self.method(name)
        if f is None:
            raise AnchorError(f"{self.name}.{name} not found in {self.m.rel}")
        return f


def _bind_args(call: ast.Call, callee_params: list[str]) -> dict[int, ast.AST] | None:
    """slot index -> argument expression; None when * / ** make the binding unreadable."""
    if any(isinstance(a, ast.Starred) for a in call.args) or any(k.arg is None for k in call.keywords):
        return None
    out: dict[int, ast.AST] = dict(enumerate(call.args))
    for k in call.keywords:
        if k.arg in callee_params:
            out[callee_params.index(k.arg)] = k.value
    return out


def _helper_calls(cls: _Cls, fn: ast.AST, helper_ref: str, depth: int = 2, _seen: set | None = None) -> list[tuple[ast.AST, ast.Call, dict[str, ast.AST]]]:
    """Calls of the shared helper reachable from ``fn`` through self-calls: (function holding the call, call,
    substitution of that function's parameter names by expressions of the *outer* method)."""
    seen = _seen if _seen is not None else set()
    out: list[tuple[ast.AST, ast.Call, dict[str, ast.AST]]] = []
    if id(fn) in seen:
        return out
    seen.add(id(fn))
    for c in calls(fn):
        n = call_name(c)
        if n and "." not in n and cls.repo.resolve_dotted(cls.m, n) == helper_ref:
            out.append((fn, c, {}))
        elif n and cls.repo.resolve_dotted(cls.m, n) == helper_ref:
            out.append((fn, c, {}))
        sm = _self_method_call(c)
        if sm and depth > 0:
            callee = cls.method(sm)
            if callee is not None:
                b = _bind_args(c, _params(callee)) or {}
                sub = {p: b[i] for i, p in enumerate(_params(callee)) if i in b}
                for hf, hc, inner in _helper_calls(cls, callee, helper_ref, depth - 1, seen):
                    out.append((hf, hc, {**sub, **inner} if hf is callee else inner))
    return out


def _as_outer(e: ast.AST, holder: ast.AST, outer: ast.AST, sub: dict[str, ast.AST]) -> ast.AST:
    """Expression ``e`` (inside ``holder``) in terms of the outer method: straight-line locals expanded,
    callee parameters replaced by the caller's argument expressions."""
    x = expand(e, e)
    if holder is not outer and isinstance(x, ast.Name) and x.id in sub:
        return expand(sub[x.id], sub[x.id])
    return x


# ----------------------------------------------------------------------------------------------- origins (R2)


def _returns(fn: ast.AST) -> list[ast.Return]:
    return [n for n in walk_shallow(fn) if isinstance(n, ast.Return) and n.value is not None]


def _assigned_values(fn: ast.AST, name: str) -> list[ast.AST] | None:
    """Every value assigned to local ``name`` in fn (flow-insensitive); None if bound by something else."""
    vals: list[ast.AST] = []
    for n in walk_shallow(fn):
        if isinstance(n, ast.Assign):
            for t in n.targets:
                if isinstance(t, ast.Name) and t.id == name:
                    vals.append(n.value)
                elif any(isinstance(x, ast.Name) and x.id == name for x in ast.walk(t)):
                    return None
        elif isinstance(n, ast.AnnAssign) and isinstance(n.target, ast.Name) and n.target.id == name and n.value is not None:
            vals.append(n.value)
        elif isinstance(n, (ast.For, ast.AsyncFor, ast.With, ast.AsyncWith, ast.NamedExpr, ast.AugAssign)):
            tg = []
            if isinstance(n, (ast.For, ast.AsyncFor)):
                tg = [n.target]
            elif isinstance(n, (ast.With, ast.AsyncWith)):
                tg = [i.optional_vars for i in n.items if i.optional_vars is not None]
            elif isinstance(n, (ast.NamedExpr, ast.AugAssign)):
                tg = [n.target]
            if any(isinstance(x, ast.Name) and x.id == name for t in tg for x in ast.walk(t)):
                return None
    return vals


def origins(cls: _Cls, m: Module, fn: ast.AST, e: ast.AST, env: dict[str, set] | None = None, depth: int = 0) -> set[tuple]:
    """Where can the value of ``e`` come from?  Tags: ('fresh',), ('field', attr), ('shallow', tag), ('unknown', text)."""
    env = env or {}
    if depth > 5:
        return {("unknown", "depth")}
    if isinstance(e, ast.Await):
        return origins(cls, m, fn, e.value, env, depth)
    if isinstance(e, ast.Constant) or isinstance(e, (ast.Dict, ast.List, ast.Set, ast.Tuple, ast.DictComp, ast.ListComp, ast.SetComp, ast.JoinedStr)):
        return {("fresh",)}
    if isinstance(e, ast.IfExp):
        return origins(cls, m, fn, e.body, env, depth) | origins(cls, m, fn, e.orelse, env, depth)
    if isinstance(e, ast.BoolOp):
        out: set[tuple] = set()
        for v in e.values:
            out |= origins(cls, m, fn, v, env, depth)
        return out
    if isinstance(e, ast.Name):
        if e.id in env:
            return set(env[e.id])
        vals = _assigned_values(fn, e.id)
        if vals:
            out = set()
            for v in vals:
                out |= origins(cls, m, fn, v, env, depth + 1)
            return out
        return {("unknown", f"name {e.id}")}
    if isinstance(e, ast.Attribute):
        if _is_self_attr(e):
            return {("field", e.attr)}
        return {("unknown", ast.unparse(e))}
    if isinstance(e, ast.Call):
        f = e.func
        nm = call_name(e)
        if isinstance(f, ast.Attribute) and f.attr == "model_copy":
            deep = next((k.value for k in e.keywords if k.arg == "deep"), None)
            if isinstance(deep, ast.Constant) and deep.value is True:
                return {("fresh",)}
            if deep is not None and not (isinstance(deep, ast.Constant) and deep.value is False):
                return {("unknown", "model_copy(deep=<expr>)")}
            return {("shallow", t) for t in origins(cls, m, fn, f.value, env, depth)}
        if last(nm) in DEEP_FUNCS and e.args:
            return {("fresh",)}
        if last(nm) in SHALLOW_FUNCS and len(e.args) == 1 and (nm == "copy" or nm == "copy.copy"):
            return {("shallow", t) for t in origins(cls, m, fn, e.args[0], env, depth)}
        if isinstance(f, ast.Attribute) and f.attr == "copy" and not e.args and nm != "copy.copy":
            return {("shallow", t) for t in origins(cls, m, fn, f.value, env, depth)}
        if nm in ("cast", "typing.cast") and len(e.args) == 2:
            return origins(cls, m, fn, e.args[1], env, depth)
        sm = _self_method_call(e)
        if sm:
            callee = cls.method(sm)
            if callee is not None:
                return _call_origins(cls, cls.m, callee, e, m, fn, env, depth)
            return {("fresh",)}  # self.<attribute>(...) : a stored callable / class, e.g. self.state_type()
        if nm and (isinstance(f, ast.Name) or (isinstance(f, ast.Attribute) and dotted(f))):
            ref = cls.repo.resolve_dotted(m, nm)
            if ":" in ref:
                modname, _, qual = ref.partition(":")
                mod = cls.repo.modules.get(modname)
                if mod is not None and qual in mod.functions and "." not in qual:
                    return _call_origins(cls, mod, mod.functions[qual], e, m, fn, env, depth, method=False)
        return {("fresh",)}  # external call / constructor / deserializer (trusted to return a new object)
    return {("unknown", type(e).__name__)}


def _call_origins(cls: _Cls, cm: Module, callee: ast.AST, call: ast.Call, m: Module, fn: ast.AST, env: dict, depth: int, method: bool = True) -> set[tuple]:
    ps = _params(callee) if method else [x.arg for x in callee.args.posonlyargs + callee.args.args]
    b = _bind_args(call, ps) or {}
    inner_env = {p: origins(cls, m, fn, b[i], env, depth + 1) for i, p in enumerate(ps) if i in b}
    for p in ps:
        inner_env.setdefault(p, {("fresh",)})  # defaulted parameter
    rets = _returns(callee)
    if any(isinstance(n, (ast.Yield, ast.YieldFrom)) for n in walk_shallow(callee)):
        return {("unknown", f"generator {callee.name}")}
    if not rets:
        return {("fresh",)}
    out: set[tuple] = set()
    for r in rets:
        out |= origins(cls, cm, callee, r.value, inner_env, depth + 1)
    return out


def _flatten(tag: tuple) -> tuple[bool, tuple]:
    """(went through a shallow copy, innermost tag)."""
    sh = False
    while tag[0] == "shallow":
        sh = True
        tag = tag[1]
    return sh, tag


# ----------------------------------------------------------------------------------------------- copy hook (R2)


def _private_containers(repo: Repo, ref: str) -> list[tuple[str, Module, ast.ClassDef]]:
    """Mutable private containers of the class and its repo ancestors that receive the top-level keys:
    class-level ``_x: dict/list/set ... = PrivateAttr(default_factory=...)`` written by __setitem__/__setattr__."""
    out = []
    for r in [ref] + repo.mro_names(ref):
        if ":" not in r or not repo._has_cls(r):
            continue
        m, c = repo.cls(r)
        for st in c.body:
            if isinstance(st, ast.AnnAssign) and isinstance(st.target, ast.Name) and st.target.id.startswith("_"):
                ann = ast.unparse(st.annotation).replace("typing.", "")
                mutable = ann.split("[")[0].strip("'\" ").lower() in ("dict", "list", "set", "defaultdict", "ordereddict", "mutablemapping")
                if not mutable:
                    continue
                attr = st.target.id
                writers = [f.name for f in c.body if isinstance(f, FuncNode) and f.name in ("__setitem__", "__setattr__", "update", "__delitem__")
                           and any(isinstance(n, ast.Attribute) and n.attr == attr for n in ast.walk(f))]
                if writers:
                    out.append((attr, m, c))
    return out


def _is_copy_of(e: ast.AST, attr: str) -> bool:
    """dict(self.a) / list(self.a) / self.a.copy() / copy(self.a) / deepcopy(self.a) / {**self.a} / [*self.a]"""
    def src(x: ast.AST) -> bool:
        return _is_self_attr(x, attr)

    if isinstance(e, ast.Call):
        nm = call_name(e)
        if last(nm) in ("dict", "list", "set", "copy", "deepcopy") and len(e.args) >= 1 and src(e.args[0]):
            return True
        if isinstance(e.func, ast.Attribute) and e.func.attr == "copy" and src(e.func.value):
            return True
    if isinstance(e, ast.Dict) and any(k is None and src(v) for k, v in zip(e.keys, e.values)):
        return True
    if isinstance(e, (ast.List, ast.Set)) and any(isinstance(x, ast.Starred) and src(x.value) for x in e.elts):
        return True
    if isinstance(e, (ast.DictComp, ast.ListComp)) and any(src(g.iter) or (isinstance(g.iter, ast.Call) and isinstance(g.iter.func, ast.Attribute) and src(g.iter.func.value)) for g in e.generators):
        return True
    return False


def _recreation_stmts(fn: ast.AST, attr: str) -> list[ast.AST]:
    """Statements of the hook that store a copy of self.<attr> into <something>.<attr> (assignment, setattr, or an
    ``update={'<attr>': copy}`` / ``__pydantic_private__`` dict entry)."""
    out = []
    for n in ast.walk(fn):
        hit = False
        if isinstance(n, ast.Assign) and _is_copy_of(n.value, attr):
            for t in n.targets:
                if isinstance(t, ast.Attribute) and t.attr == attr and not _is_self_attr(t):
                    hit = True
                if isinstance(t, ast.Subscript) and isinstance(t.slice, ast.Constant) and t.slice.value == attr:
                    hit = True
        if isinstance(n, ast.Call) and last(call_name(n)) in ("setattr", "__setattr__", "_object_setattr"):
            a = n.args
            if len(a) >= 3 and isinstance(a[-2], ast.Constant) and a[-2].value == attr and _is_copy_of(a[-1], attr):
                hit = True
        if isinstance(n, ast.Dict):
            for k, v in zip(n.keys, n.values):
                if isinstance(k, ast.Constant) and k.value == attr and _is_copy_of(v, attr):
                    hit = True
        if hit:
            st = enclosing_stmt(n)
            if st is not None and all(st is not x for x in out):
                out.append(st)
    return out


def _hook_copies(fn: ast.AST, attr: str) -> tuple[bool, str]:
    """The hook gives the copy its own container on EVERY path on which a shallow copy is made: on the CFG, every path
    from entry to a normal return passes a re-creation statement, except paths that took a branch on which the hook's
    ``deep`` parameter is known to be truthy (a deep copy already re-creates everything).  A re-creation that is
    conditional on anything else — the container's truthiness, its length, an `update` argument — leaves a path on
    which the copy keeps the stored object's container."""
    rec = _recreation_stmts(fn, attr)
    if not rec:
        return False, f"{fn.name} never stores a copy of self.{attr} into the new object"
    cfg = CFG(fn)
    rec_nodes = [n for st in rec for n in cfg.nodes_of(st)]
    if not rec_nodes:
        # the copy sits in the header of a compound statement (e.g. inside a with-item): treat the header node as the site
        rec_nodes = [n for st in rec for x in ast.walk(st) for n in cfg.node_of_containing(x)]
    deep_params = {a.arg for a in fn.args.args + fn.args.kwonlyargs + fn.args.posonlyargs if a.arg == "deep"}
    deep_edges = []
    for t, label in cfg.branch_edges():
        if t.kind != "test" or not deep_params:
            continue
        facts = atoms(t.ast.test, label == "T")
        if any(txt in deep_params and pol for txt, pol in facts):
            deep_edges.append((t, label))
    reach = cfg.reach([cfg.entry], blocked=rec_nodes, blocked_edges=deep_edges)
    if cfg.exit in reach:
        tests = sorted({f"`{ast.unparse(t.ast.test)}` (line {t.line})" for t in reach if t.kind == "test"})
        return False, (f"{fn.name} re-creates self.{attr} only on some shallow-copy paths: a path with `deep` falsy reaches the return without it"
                       + (f"; it depends on {', '.join(tests)}" if tests else ""))
    return True, ""


def _copy_hook_status(repo: Repo) -> tuple[bool, str, list[str]]:
    """(all key-carrying private containers of the default state class are re-created by a copy hook, reason, path)."""
    ref = f"{MEM}:{DEFAULT_STATE}"
    conts = _private_containers(repo, ref)
    if not conts:
        # no private container carries top-level keys: a shallow model copy isolates top-level fields (trusted pydantic)
        return True, "", []
    chain = [r for r in [ref] + repo.mro_names(ref) if ":" in r and repo._has_cls(r)]
    hooks: list[tuple[str, ast.AST]] = []
    for r in chain:
        _m, c = repo.cls(r)
        hooks += [(r, f) for f in c.body if isinstance(f, FuncNode) and f.name in COPY_HOOKS]
    missing = []
    why: list[str] = []
    for attr, m, c in conts:
        verdicts = [_hook_copies(f, attr) for _r, f in hooks]
        if not any(ok for ok, _w in verdicts):
            missing.append(f"{c.name}.{attr} ({m.rel}:{c.lineno})")
            why += [w for _ok, w in verdicts if w]
    path = [f"default state class {DEFAULT_STATE} -> " + " -> ".join(r.split(":")[1] for r in chain[1:])] + [f"key-carrying private container {x}" for x in missing]
    path.append("copy hooks found: " + (", ".join(f"{r.split(':')[1]}.{f.name}" for r, f in hooks) or "none"))
    path += why
    if missing:
        return False, ("shallow copy shares " + ", ".join(missing) + " with the stored state: writing a top-level key of the snapshot writes the store"
                       + ("; " + "; ".join(why) if why else "")), path
    return True, "", path


# ----------------------------------------------------------------------------------------------- writes in set_state (R1c)


def _scope_constant(scope: ast.AST, name: str) -> ast.AST | None:
    """The value of `name` when the module / class body binds it exactly once, by a plain assignment, and nothing rebinds it
    (no `global name` in a function, no `<obj>.name = ...` for a class-level constant)."""
    vals: list[ast.AST | None] = []
    for n in walk_shallow(scope, into_nested=False):
        if isinstance(n, ast.Name) and n.id == name and isinstance(n.ctx, (ast.Store, ast.Del)):
            p_ = parent(n)
            plain = (isinstance(p_, ast.Assign) and len(p_.targets) == 1 and p_.targets[0] is n) or (isinstance(p_, ast.AnnAssign) and p_.target is n and p_.value is not None)
            vals.append(p_.value if plain and p_ in scope.body else None)
    for n in ast.walk(scope):
        if isinstance(n, (ast.Global, ast.Nonlocal)) and name in n.names:
            vals.append(None)
        elif isinstance(scope, ast.ClassDef) and isinstance(n, ast.Attribute) and n.attr == name and isinstance(n.ctx, (ast.Store, ast.Del)):
            vals.append(None)
    return vals[0] if len(vals) == 1 else None


def _sql_text(e: ast.AST, at: ast.AST, fn: ast.AST, depth: int = 3) -> str | None:
    """The statement text an execute(...) is given: a literal, an f-string (its literal parts), a concatenation / conditional of
    those, a straight-line local, or a constant bound once at module / class level of the method's own module. None = unreadable."""
    e = expand(e, at)
    if isinstance(e, ast.Constant):
        return e.value if isinstance(e.value, str) else None
    if isinstance(e, ast.JoinedStr):
        return ast.unparse(e)
    if isinstance(e, ast.BinOp) and isinstance(e.op, (ast.Add, ast.Mod)):
        l = _sql_text(e.left, at, fn, depth)
        r = _sql_text(e.right, at, fn, depth) if isinstance(e.op, ast.Add) else ""
        return None if l is None or r is None else l + r
    if isinstance(e, ast.IfExp):
        a, b = _sql_text(e.body, at, fn, depth), _sql_text(e.orelse, at, fn, depth)
        return None if a is None or b is None else a + " " + b
    if isinstance(e, ast.Call) and isinstance(e.func, ast.Attribute) and e.func.attr in ("format", "strip"):
        return _sql_text(e.func.value, at, fn, depth)
    if isinstance(e, ast.Call) and last(call_name(e)) in ("dedent", "text") and len(e.args) == 1 and not e.keywords:
        return _sql_text(e.args[0], at, fn, depth)
    if depth <= 0:
        return None
    scopes: list[ast.AST] = []
    name = None
    if isinstance(e, ast.Name):
        name = e.id
        a = fn
        while parent(a) is not None:
            a = parent(a)
        scopes = [a]
    elif isinstance(e, ast.Attribute) and isinstance(e.value, ast.Name) and isinstance(parent(fn), ast.ClassDef) and e.value.id in ("self", "cls", parent(fn).name):
        name = e.attr
        scopes = [parent(fn)]
    for sc in scopes:
        v = _scope_constant(sc, name)
        if v is not None:
            return _sql_text(v, v, fn, depth - 1)
    return None


def _is_sql_writer(cls: _Cls, fn: ast.AST, depth: int = 2) -> bool:
    for c in calls(fn):
        if isinstance(c.func, ast.Attribute) and c.func.attr in ("execute", "executemany", "fetch", "fetchrow", "fetchval") and c.args:
            txt = _sql_text(c.args[0], enclosing_stmt(c), fn)
            if txt is None:
                raise AnchorError(f"C19.R1: cannot read the SQL text `{ast.unparse(c.args[0])[:60]}` executed in {cls.name}.{getattr(fn, 'name', '?')}")
            if any(w in txt.upper() for w in SQL_WRITE_WORDS):
                return True
        sm = _self_method_call(c)
        if sm and depth > 0:
            callee = cls.method(sm)
            if callee is not None and callee is not fn and _is_sql_writer(cls, callee, depth - 1):
                return True
    return False


def _state_writes(cls: _Cls, fn: ast.AST) -> list[tuple[ast.AST, ast.AST, str]]:
    """(site node, written value expression, kind) for every write of the whole state in ``fn``."""
    out = []
    for n in walk_shallow(fn):
        if isinstance(n, ast.Assign):
            for t in n.targets:
                if _is_self_attr(t):
                    out.append((n, n.value, f"assign self.{t.attr}"))
        elif isinstance(n, ast.Call):
            sm = _self_method_call(n)
            if sm and sm not in ROUTES and sm not in ("get_state", "edit_state"):
                callee = cls.method(sm)
                if callee is not None and _is_sql_writer(cls, callee) and n.args:
                    out.append((n, n.args[0], f"self.{sm}(…)"))
    return sorted(out, key=lambda t: (t[0].lineno, t[0].col_offset))


# ----------------------------------------------------------------------------------------------- every path writes (R3)


def _always_evaluated(c: ast.Call) -> bool:
    """The call is evaluated whenever its statement (or compound-statement header) is: it does not sit in the untaken arm of
    a conditional expression, behind a short-circuit, or inside a comprehension body."""
    cur: ast.AST = c
    p = parent(cur)
    while p is not None and not isinstance(p, ast.stmt):
        if isinstance(p, ast.IfExp) and cur is not p.test:
            return False
        if isinstance(p, ast.BoolOp) and cur is not p.values[0]:
            return False
        if isinstance(p, (ast.ListComp, ast.SetComp, ast.DictComp, ast.GeneratorExp, ast.Lambda)):
            return False
        cur, p = p, parent(p)
    return True


def _call_nodes(cfg: CFG, c: ast.Call) -> list:
    return cfg.node_of_containing(c) if _always_evaluated(c) else []


def _skip_path(cfg: CFG, starts: list, through: list, include_starts: bool = True) -> list | None:
    """A path from ``starts`` to the function's NORMAL exit that avoids every ``through`` node; None when there is none
    (paths that end in an exception are not normal exits)."""
    through = list(through)
    first = list(starts) if include_starts else [t for s in starts for _l, t in cfg.succ[s]]
    for s in first:
        if any(s is b for b in through):
            continue
        p = cfg.path(s, cfg.exit, blocked=through)
        if p:
            return p
    return None


def _describe_skip(fn: ast.AST, cfg: CFG, path: list) -> tuple[str, list[str]]:
    """(why the path is taken — branch tests with their polarity and the parameters they depend on, printable path)."""
    own = set(_params(fn))
    parts = []
    for a, b in zip(path, path[1:]):
        if a.kind != "test":
            continue
        label = next((l for l, t in cfg.succ[a] if t is b), "?")
        test = a.ast.test
        deps = sorted(dep_slice(fn, test).leaves & own)
        cmp_ = any(isinstance(x, ast.Compare) and any(isinstance(o, (ast.Eq, ast.NotEq, ast.In, ast.NotIn)) for o in x.ops) for x in ast.walk(test))
        txt = f"`{ast.unparse(test)}` is {'true' if label == 'T' else 'false'}"
        if deps:
            txt += f" (depends on the method's own parameter{'s' if len(deps) > 1 else ''} {', '.join(deps)})"
        if cmp_:
            txt += " — a Python equality test is not JSON identity (a None default stands for `missing`, True == 1, 2 == 2.0)"
        parts.append(txt)
    return ("; taken when " + " and ".join(parts)) if parts else "", cfg.describe_path(path)


def _strip(e: ast.AST | None) -> ast.AST | None:
    while e is not None:
        if isinstance(e, ast.Await):
            e = e.value
        elif isinstance(e, ast.Call) and call_name(e) in ("cast", "typing.cast") and len(e.args) == 2:
            e = e.args[1]
        else:
            return e
    return e


def _same_object(a: ast.AST | None, b: ast.AST | None) -> bool:
    a, b = _strip(a), _strip(b)
    if isinstance(a, ast.Name) and isinstance(b, ast.Name):
        return a.id == b.id
    return _is_self_attr(a) and _is_self_attr(b) and a.attr == b.attr  # type: ignore[union-attr]


def _is_stored_object(st: _Cls, fn: ast.AST, e: ast.AST) -> str | None:
    """Name of the field when ``e`` can only be the object held in a field of the store itself (a write into it is a write
    of the store); None when it is (or may be) a loaded / copied object.  Unknown provenance -> AnchorError."""
    tags = origins(st, st.m, fn, e)
    fields = set()
    for t in tags:
        sh, inner = _flatten(t)
        if inner[0] == "unknown":
            raise AnchorError(f"C19.R3: cannot determine where `{ast.unparse(e)}` in {st.name}.{fn.name} comes from ({inner[1]})")
        if inner[0] != "field" or sh:
            return None
        fields.add(inner[1])
    return "/".join(sorted(fields)) if fields else None


def _ctx_manager_of(st: _Cls, c: ast.Call, name_expr: ast.AST | None) -> tuple[str, ast.AST] | None:
    """(method name, method) when ``name_expr`` is the `as` variable of a with-statement enclosing ``c`` whose context
    expression is a call of one of the store's own generator context managers (``self.edit_state()``)."""
    name_expr = _strip(name_expr)
    if not isinstance(name_expr, ast.Name):
        return None
    p = parent(c)
    while p is not None and not isinstance(p, FuncNode):
        if isinstance(p, (ast.With, ast.AsyncWith)):
            for it in p.items:
                ce = _strip(it.context_expr)
                if isinstance(it.optional_vars, ast.Name) and it.optional_vars.id == name_expr.id and isinstance(ce, ast.Call):
                    sm = _self_method_call(ce)
                    callee = st.method(sm) if sm else None
                    if callee is not None and _decorators(callee) & {"asynccontextmanager", "contextmanager"}:
                        return sm, callee
        p = parent(p)
    return None


def _commit_nodes(st: _Cls, fn: ast.AST, cfg: CFG, obj: ast.AST | None = None) -> list:
    """CFG nodes of ``fn`` that write the whole state: assignment to a field of the store, or a call of a private method
    that executes an INSERT/UPDATE; with ``obj`` given only those that write that very object."""
    out = []
    for site, val, _kind in _state_writes(st, fn):
        if obj is not None and not _same_object(val, obj):
            continue
        if isinstance(site, ast.Call):
            out += _call_nodes(cfg, site)
        else:
            out += cfg.nodes_of(site)
    return out


def _ctx_commit_status(st: _Cls, fn: ast.AST) -> tuple[bool, str, list[str], str]:
    """Generator context manager (edit_state): after EVERY yield, every normal path to the end writes the yielded object
    back (or the yielded object is the stored object itself).  (ok, reason, path, how)"""
    ys = [n for n in walk_shallow(fn) if isinstance(n, ast.Yield)]
    if not ys or not (_decorators(fn) & {"asynccontextmanager", "contextmanager"}):
        raise AnchorError(f"C19.R3: {st.name}.{fn.name} is not a generator context manager")
    cfg = CFG(fn)
    how = []
    for y in ys:
        if y.value is None:
            return False, f"{fn.name} yields nothing: the caller has no state object to edit", [], "none"
        field = _is_stored_object(st, fn, y.value)
        if field:
            how.append(f"in place on self.{field}")
            continue
        commits = _commit_nodes(st, fn, cfg, y.value)
        ynodes = cfg.node_of_containing(y)
        if not ynodes:
            raise AnchorError(f"C19.R3: cannot place the yield of {st.name}.{fn.name} on its control-flow graph")
        skip = _skip_path(cfg, ynodes, commits, include_starts=False)
        if skip is not None:
            why, p = _describe_skip(fn, cfg, skip)
            return False, (f"after `yield {ast.unparse(y.value)}` a normal path reaches the end of {fn.name} without writing the edited object back"
                           f"{why}: the edit made inside `edit_state()` (and by every mutator built on it) is lost on that path"), p, "skip"
        how.append("written back after the yield")
    return True, "", [], ", ".join(how)


def _path_writes(st: _Cls, fn: ast.AST, cfg: CFG, href: str, depth: int = 2) -> tuple[list, list[tuple[ast.AST, ast.Call]]]:
    """(CFG nodes of fn at which the shared path-write helper is certainly executed, direct call sites (holder, call)).
    A call of another method of the store counts when that method executes the helper on every one of its normal paths."""
    nodes, sites = [], []
    for c in calls(fn):
        n = call_name(c)
        if n and st.repo.resolve_dotted(st.m, n) == href:
            nodes += _call_nodes(cfg, c)
            sites.append((fn, c))
            continue
        sm = _self_method_call(c)
        callee = st.method(sm) if sm and depth > 0 else None
        if callee is not None and callee is not fn and not any(isinstance(x, (ast.Yield, ast.YieldFrom)) for x in walk_shallow(callee)):
            ccfg = CFG(callee)
            inner, isites = _path_writes(st, callee, ccfg, href, depth - 1)
            if inner and _skip_path(ccfg, [ccfg.entry], inner) is None:
                nodes += _call_nodes(cfg, c)
                sites += isites
    return nodes, sites


def _r3(chk, stores: list[_Cls], mem: Module) -> None:
    """R3: no mutator has a normal path that skips its write."""
    href = f"{MEM}:set_by_path"
    hparams = [a.arg for a in mem.functions["set_by_path"].args.args]
    n_sites = n_persist = n_ctx = n_commit = 0
    ctx_verdict: dict[tuple[str, str], tuple[bool, str, list[str], str]] = {}

    def ctx_status(st: _Cls, name: str, callee: ast.AST):
        k = (st.name, name)
        if k not in ctx_verdict:
            ctx_verdict[k] = _ctx_commit_status(st, callee)
        return ctx_verdict[k]

    for st in stores:
        # -- edit_state writes the yielded object back on every normal path
        es = st.method("edit_state")
        if es is None:
            n_ctx += 1  # missing protocol method: reported by R1a
        else:
            ok, reason, p, how = ctx_status(st, "edit_state", es)
            n_ctx += 1
            chk.ob("C19.R3", f"{st.name}.edit_state: every normal path after the yield writes the edited object back ({how})", ok, m=st.m, node=es, fn=es,
                   instance=f"{st.name}.edit_state:write-back-on-every-path", reason=reason, path=p)

        # -- set: every normal path executes set_by_path, and what it wrote into is persisted on every normal path
        fn = st.method("set")
        if fn is None:
            n_sites, n_persist = n_sites + 1, n_persist + 1  # missing protocol method: reported by R1a, nothing to place here
        else:
            cfg = CFG(fn)
            nodes, sites = _path_writes(st, fn, cfg, href)
            n_sites += 1
            if not nodes:
                n_persist += 1
                chk.ob("C19.R3", f"{st.name}.set executes set_by_path on every path that returns normally (whatever the value)", False, m=st.m, node=fn, fn=fn,
                       instance=f"{st.name}.set:path-write-on-every-path",
                       reason=f"no execution of {href} found in {st.name}.set or in the methods it calls on self: no path performs the shared path write")
            else:
                skip = _skip_path(cfg, [cfg.entry], nodes)
                why, p = _describe_skip(fn, cfg, skip) if skip else ("", [])
                chk.ob("C19.R3", f"{st.name}.set executes set_by_path on every path that returns normally (whatever the value)", skip is None, m=st.m,
                       node=(skip[-2].ast if skip and len(skip) > 1 and skip[-2].ast is not None else fn), fn=fn, instance=f"{st.name}.set:path-write-on-every-path",
                       reason=f"a path through {st.name}.set returns normally without calling set_by_path{why}: `set(path, value)` is silently dropped there, "
                              f"so a later get(path) differs from the nested-dict model and from the sibling store, which writes unconditionally", path=p)
                for holder, c in sites:
                    b = _bind_args(c, hparams)
                    if b is None or 0 not in b:
                        raise AnchorError(f"C19.R3: cannot read the state argument of `{ast.unparse(c)[:70]}` in {st.name}.{holder.name}")
                    target = b[0]
                    hcfg = cfg if holder is fn else CFG(holder)
                    ok, reason, p, how = True, "", [], ""
                    cm = _ctx_manager_of(st, c, target)
                    if cm is not None:
                        how = f"inside `with self.{cm[0]}()`"
                        cok, creason, cp, _h = ctx_status(st, cm[0], cm[1])
                        if not cok:
                            ok, reason, p = False, f"the object is the one yielded by {cm[0]}, and " + creason, cp
                    else:
                        field = _is_stored_object(st, holder, target)
                        if field:
                            how = f"in place on self.{field}"
                        else:
                            how = "saved after the path write"
                            commits = _commit_nodes(st, holder, hcfg, target)
                            skip2 = _skip_path(hcfg, _call_nodes(hcfg, c), commits, include_starts=False)
                            if skip2 is not None:
                                why2, p = _describe_skip(holder, hcfg, skip2)
                                ok = False
                                reason = (f"`{ast.unparse(target)}` is a loaded copy of the state; after set_by_path a normal path returns without saving it"
                                          f"{why2}: the value never reaches the store")
                    n_persist += 1
                    chk.ob("C19.R3", f"{st.name}.set: the object set_by_path writes into is the stored state or is saved on every normal path ({how})", ok,
                           m=st.m, node=c, fn=holder, instance=f"{st.name}.set:path-write-persisted", reason=reason, path=p)

        # -- set_state / clear: every normal path performs a write of the state (or delegates to a mutator that does)
        for op in ("set_state", "clear"):
            fn = st.method(op)
            if fn is None:
                n_commit += 1  # missing protocol method: reported by R1a
                continue
            cfg = CFG(fn)
            nodes = _commit_nodes(st, fn, cfg)
            for c in calls(fn):
                sm = _self_method_call(c)
                if sm in ("set", "set_state", "clear") and sm != op:
                    nodes += _call_nodes(cfg, c)
                elif sm and st.method(sm) is not None and _decorators(st.method(sm)) & {"asynccontextmanager", "contextmanager"} and isinstance(parent(c), ast.withitem):
                    if ctx_status(st, sm, st.method(sm))[0]:
                        nodes += _call_nodes(cfg, c)
            if not nodes:
                raise AnchorError(f"C19.R3: no write of the state recognised in {st.name}.{op}")
            n_commit += 1
            skip = _skip_path(cfg, [cfg.entry], nodes)
            why, p = _describe_skip(fn, cfg, skip) if skip else ("", [])
            chk.ob("C19.R3", f"{st.name}.{op} writes the state on every path that returns normally", skip is None, m=st.m,
                   node=(skip[-2].ast if skip and len(skip) > 1 and skip[-2].ast is not None else fn), fn=fn, instance=f"{st.name}.{op}:write-on-every-path",
                   reason=f"a path through {st.name}.{op} returns normally without writing the state{why}: the operation is silently dropped there, "
                          f"unlike the nested-dict model and the sibling store", path=p)
    chk.floor("C19.R3", "`set` methods whose set_by_path execution was placed on the CFG (one per store)", n_sites, 2)
    chk.floor("C19.R3", "set_by_path sites whose target object was classified (stored object / edit_state / saved copy)", n_persist, 2)
    chk.floor("C19.R3", "edit_state generator context managers checked for write-back after the yield", n_ctx, 2)
    chk.floor("C19.R3", "set_state / clear methods checked for a write on every normal path", n_commit, 4)


# ----------------------------------------------------------------------------------------------- run


# ----------------------------------------------------------------------------------------------- R4: the parent-type merge uses full dumps

DUMP_METHODS = {"model_dump", "dict", "model_dump_json", "json"}
FIELD_FILTERS = {"exclude_unset", "exclude_defaults", "exclude_none", "include", "exclude", "skip_defaults"}
SET_FIELDS_ATTRS = {"model_fields_set", "__fields_set__", "__pydantic_fields_set__"}
FILLERS = ("update", "setdefault", "__setitem__", "append", "extend")


def _merge_feed(fn: ast.AST, start: ast.AST) -> list[ast.AST]:
    """Every expression whose value may flow into `start`: the dependence slice through the locals of fn, extended by what
    is stored in place into those locals (x.update(…), x[k] = …), to a fixed point."""
    exprs: list[ast.AST] = []
    seen: set[int] = set()
    done: set[str] = set()
    todo: list[ast.AST] = [start]
    while todo:
        sl = dep_slice(fn, todo.pop())
        for x in sl.exprs:
            if id(x) not in seen:
                seen.add(id(x))
                exprs.append(x)
        for nm in sl.locals - done:
            done.add(nm)
            for st in ast.walk(fn):
                if isinstance(st, ast.Expr) and isinstance(st.value, ast.Call) and isinstance(st.value.func, ast.Attribute) and st.value.func.attr in FILLERS \
                        and isinstance(st.value.func.value, ast.Name) and st.value.func.value.id == nm:
                    todo += list(st.value.args) + [k.value for k in st.value.keywords]
                elif isinstance(st, ast.Assign) and any(isinstance(t, ast.Subscript) and isinstance(t.value, ast.Name) and t.value.id == nm for t in st.targets):
                    todo.append(st.value)
    return exprs


def _side(fn: ast.AST, e: ast.AST, cur: str, inc: str) -> str | None:
    """Which argument of the merge an expression is taken from (dependence on the parameters)."""
    lv = dep_slice(fn, e).leaves & {cur, inc}
    return "both" if len(lv) == 2 else "incoming" if lv == {inc} else "current" if lv == {cur} else None


def _active_filters(call: ast.Call) -> list[str]:
    """Field-filter arguments of a pydantic dump call that can drop fields (a literal False / None / empty collection cannot)."""
    if any(k.arg is None for k in call.keywords) or call.args:
        raise AnchorError(f"C19.R4: arguments of `{ast.unparse(call)[:60]}` are not plain keywords; its field set cannot be decided")
    out = []
    for k in call.keywords:
        if k.arg not in FIELD_FILTERS:
            continue
        v = expand(k.value, call)
        if isinstance(v, ast.Constant):
            if v.value:
                out.append(f"{k.arg}={ast.unparse(k.value)}")
        elif isinstance(v, (ast.Set, ast.List, ast.Tuple)):
            if v.elts:
                out.append(f"{k.arg}={ast.unparse(k.value)[:40]}")
        elif isinstance(v, ast.Dict):
            if v.keys:
                out.append(f"{k.arg}={ast.unparse(k.value)[:40]}")
        elif isinstance(v, ast.Call) and call_name(v) in ("set", "frozenset", "dict", "list", "tuple") and not v.args and not v.keywords:
            pass
        else:
            raise AnchorError(f"C19.R4: field filter `{k.arg}={ast.unparse(k.value)[:40]}` of a dump that feeds the merge is not a literal")
    return out


def _merge_analysis(fn: ast.AST) -> list[dict]:
    """Per return of `fn` that builds its result from both arguments (the parent-type merge): the places where the fields of
    either argument are read into the merged value."""
    pr = _params(fn)
    if len(pr) < 2:
        raise AnchorError("C19.R4: merge_state does not take (current, incoming)")
    cur, inc = pr[0], pr[1]
    out = []
    for r in _returns(fn):
        v = _strip(expand(r.value, r))
        if isinstance(v, ast.Name) and v.id in (cur, inc):
            continue  # replace (or keep): nothing is merged
        feed = _merge_feed(fn, r.value)
        names = {n.id for x in feed for n in ast.walk(x) if isinstance(n, ast.Name)}
        if not {cur, inc} <= names:
            continue
        dumps, full, setreads, seen = [], [], [], set()
        for x in feed:
            for n in ast.walk(x):
                if id(n) in seen:
                    continue
                seen.add(id(n))
                if isinstance(n, ast.Call) and isinstance(n.func, ast.Attribute) and n.func.attr in DUMP_METHODS:
                    sd = _side(fn, n.func.value, cur, inc)
                    if sd == "both":
                        raise AnchorError(f"C19.R4: `{ast.unparse(n)[:60]}` dumps an object that depends on both arguments of the merge")
                    if sd is not None:
                        dumps.append((sd, n))
                elif isinstance(n, ast.Call) and call_name(n) in ("dict", "vars") and len(n.args) == 1 and not n.keywords and _side(fn, n.args[0], cur, inc) in ("incoming", "current"):
                    full.append((_side(fn, n.args[0], cur, inc), n))
                elif isinstance(n, ast.Attribute) and n.attr == "__dict__" and _side(fn, n.value, cur, inc) in ("incoming", "current"):
                    full.append((_side(fn, n.value, cur, inc), n))
                elif isinstance(n, ast.Attribute) and n.attr in SET_FIELDS_ATTRS and _side(fn, n.value, cur, inc) in ("incoming", "current"):
                    setreads.append((_side(fn, n.value, cur, inc), n))
        # precedence: the mapping handed to the constructor, when it is a literal overlay
        order = None
        if isinstance(v, ast.Call):
            for cand in list(v.args) + [k.value for k in v.keywords if k.arg is None]:
                parts = _overlay_parts(cand)
                if parts is not None:
                    sides = [_side(fn, p_, cur, inc) for p_ in parts]
                    if "incoming" in sides and "current" in sides:
                        order = (sides, cand)
        out.append({"ret": r, "cur": cur, "inc": inc, "dumps": dumps, "full": full, "setreads": setreads, "order": order})
    return out


def _overlay_parts(e: ast.AST) -> list[ast.AST] | None:
    """The operands, first to last (later ones win), of `{**a, **b}` / `a | b`."""
    if isinstance(e, ast.Dict) and e.keys and all(k is None for k in e.keys):
        return list(e.values)
    if isinstance(e, ast.BinOp) and isinstance(e.op, ast.BitOr):
        l, r = _overlay_parts(e.left), _overlay_parts(e.right)
        return (l if l is not None else [e.left]) + (r if r is not None else [e.right])
    return None


_WHY_SIDE = {
    "incoming": "fields of the incoming parent-type state that the filter drops are not written and keep the old stored value, while the nested-dict model of a parent-type merge "
                "is {**current, **full_parent}: a later get/get_state returns the stale value (e.g. a field the caller left at its default)",
    "current": "stored fields that the filter drops are re-created from their defaults (or default factories) by the constructor: the merge loses stored values the parent never mentioned",
}


def _r4_report(chk, m: Module | None, fn: ast.AST, res: list[dict], label: str) -> tuple[int, int, int]:
    """Record the obligations of R4 for one merge function; returns (#merge returns, #field sources classified, #violations)."""
    nsrc = nbad = 0
    for d in res:
        r = d["ret"]
        if not any(sd == "incoming" for sd, _n in d["dumps"] + d["full"]):
            raise AnchorError(f"C19.R4: cannot see how the fields of `{d['inc']}` reach the merged value returned by `{ast.unparse(r)[:60]}`")
        for sd, n in d["dumps"]:
            nsrc += 1
            act = _active_filters(n)
            nbad += bool(act)
            chk.ob("C19.R4", f"{label}: the dump of the {sd} state that feeds the parent-type merge carries every field (`{ast.unparse(n)[:70]}` has no pydantic field filter)", not act,
                   m=m, node=n, fn=fn, instance=f"{label}:{sd}-dump", reason=f"`{', '.join(act)}`: " + _WHY_SIDE[sd])
        nsrc += len(d["full"])
        for sd, n in d["setreads"]:
            nbad += 1
            chk.ob("C19.R4", f"{label}: the parent-type merge does not select fields by what was explicitly set", False, m=m, node=n, fn=fn, instance=f"{label}:{sd}-fields-set",
                   reason=f"`{ast.unparse(n)[:60]}` flows into the merged value: only explicitly set fields of the {sd} state take part; " + _WHY_SIDE[sd])
        al = {sd: {ast.dump(k.value) for _s, n in d["dumps"] if _s == sd for k in n.keywords if k.arg == "by_alias" and not (isinstance(k.value, ast.Constant) and not k.value.value)} for sd in ("incoming", "current")}
        if any(_s == "incoming" for _s, _n in d["dumps"]) and any(_s == "current" for _s, _n in d["dumps"]):
            same = al["incoming"] == al["current"]
            nbad += not same
            chk.ob("C19.R4", f"{label}: both dumps of the parent-type merge name the fields alike (`by_alias` agrees)", same, m=m, node=r, fn=fn, instance=f"{label}:key-naming",
                   reason="one side is dumped by alias and the other by field name: for an aliased field the incoming value does not overwrite the stored one")
        if d["order"] is not None:
            sides, cand = d["order"]
            ok = sides[-1] == "incoming"
            nbad += not ok
            chk.ob("C19.R4", f"{label}: in the merged mapping the incoming fields are laid over the current ones (`{ast.unparse(cand)[:70]}`)", ok, m=m, node=r, fn=fn, instance=f"{label}:incoming-over-current",
                   reason=f"the last operand of the overlay comes from the {sides[-1]} state: stored values win over the ones being set")
        else:
            chk.observe(f"C19.R4: the merged value of {label} is not a literal overlay (`{{**a, **b}}` / `a | b`); which side wins is not decided")
    return len(res), nsrc, nbad


R4_FIXTURE = __import__("pathlib").Path(__file__).resolve().parent.parent.parent / "fixtures" / "c19" / "planted_merge.py"


def _r4(chk, repo: Repo) -> None:
    m, fn = repo.func(f"{MEM}:merge_state")
    res = _merge_analysis(fn)
    if not res:
        raise AnchorError("C19.R4: merge_state has no return that builds its result from both arguments (the parent-type merge)")
    nret, nsrc, _ = _r4_report(chk, m, fn, res, "merge_state")
    chk.floor("C19.R4", "returns of merge_state that build the merged state from both arguments", nret, 1)
    chk.floor("C19.R4", "field sources of the parent-type merge classified (incoming.model_dump(), current_state.model_dump())", nsrc, 2)
    # planted positives: the zero-expected detectors must report them (fixture parsed with ast, never imported)
    if not R4_FIXTURE.is_file():
        raise AnchorError(f"C19.R4: fixture {R4_FIXTURE} missing")
    from ..index import _set_parents

    tree = ast.parse(R4_FIXTURE.read_text(encoding="utf-8"))
    _set_parents(tree)

    class _Quiet:
        def ob(self, *a, **k):
            pass

        def observe(self, *a, **k):
            pass

    planted = clean = 0
    for f in tree.body:
        if isinstance(f, FuncNode):
            bad = _r4_report(_Quiet(), None, f, _merge_analysis(f), f.name)[2]
            if f.name.startswith("planted_"):
                planted += bad >= 1
            elif f.name.startswith("clean_"):
                clean += bad == 0
    chk.floor("C19.R4", "planted filtered / set-fields-only / swapped merges reported on fixtures/c19/planted_merge.py", planted, 5)
    chk.floor("C19.R4", "clean merges of fixtures/c19/planted_merge.py accepted", clean, 2)


# ----------------------------------------------------------------------------------------------- R5: clear() installs a fresh instance

MEMOISERS = {"functools.lru_cache", "functools.cache", "functools.cached_property", "cachetools.cached", "cachetools.cachedmethod", "async_lru.alru_cache"}
TRANSPARENT_DECORATORS = {"staticmethod", "classmethod", "typing.no_type_check", "typing_extensions.override", "typing.override"}
CONTAINER_READS = {"get", "setdefault", "pop", "__getitem__"}
R5_FIXTURE = R4_FIXTURE.parent / "planted_clear.py"


def _memoiser(repo: Repo, m: Module, e: ast.AST) -> str | None:
    """The memoising wrapper a decorator expression / wrapping callee denotes (`lru_cache`, `lru_cache(maxsize=None)`,
    `functools.cache`), resolved through the import table; None when it is not one."""
    x = e
    while isinstance(x, ast.Call):
        x = x.func
    nm = dotted(x)
    if not nm:
        return None
    full = repo.resolve_dotted(m, nm)
    tail = full.replace(":", ".").rsplit(".", 1)[-1].lower()
    if full in MEMOISERS or "cache" in tail or "memo" in tail:
        return full
    return None


def _param_defaults(fn: ast.AST) -> dict[str, ast.AST]:
    a = fn.args
    pos = a.posonlyargs + a.args
    out = {p.arg: d for p, d in zip(pos[len(pos) - len(a.defaults):], a.defaults)} if a.defaults else {}
    out.update({p.arg: d for p, d in zip(a.kwonlyargs, a.kw_defaults) if d is not None})
    return out


def _all_params(fn: ast.AST) -> list[str]:
    a = fn.args
    return [x.arg for x in a.posonlyargs + a.args + a.kwonlyargs]


def _module_bindings(m: Module, name: str) -> list[ast.AST]:
    """Values bound to `name` by assignments at module level (outside every def / class) of m."""
    out: list[ast.AST] = []
    for n in walk_shallow(m.tree):
        if isinstance(n, ast.Assign) and any(isinstance(t, ast.Name) and t.id == name for t in n.targets):
            out.append(n.value)
        elif isinstance(n, ast.AnnAssign) and isinstance(n.target, ast.Name) and n.target.id == name and n.value is not None:
            out.append(n.value)
    return out


def _local_values(fn: ast.AST, name: str) -> list[ast.AST] | None:
    """Every value the local `name` is bound to in fn (flow-insensitive); [] when fn never binds it; None when it is bound by
    something the rule cannot read (unpacking, loop, with, augmented assignment).  `name[k] = v` / `name.a = v` fill the object
    in place and do not re-bind the name."""
    vals: list[ast.AST] = []
    for n in walk_shallow(fn):
        tg: list[ast.AST] = []
        if isinstance(n, ast.Assign):
            for t in n.targets:
                if isinstance(t, ast.Name) and t.id == name:
                    vals.append(n.value)
                elif isinstance(t, (ast.Tuple, ast.List, ast.Starred)):
                    tg.append(t)
        elif isinstance(n, ast.AnnAssign) and isinstance(n.target, ast.Name) and n.target.id == name and n.value is not None:
            vals.append(n.value)
        elif isinstance(n, ast.NamedExpr) and n.target.id == name:
            vals.append(n.value)
        elif isinstance(n, (ast.For, ast.AsyncFor, ast.AugAssign)):
            tg = [n.target]
        elif isinstance(n, (ast.With, ast.AsyncWith)):
            tg = [i.optional_vars for i in n.items if i.optional_vars is not None]
        elif isinstance(n, ast.comprehension):
            continue
        elif isinstance(n, ast.ExceptHandler) and n.name == name:
            return None
        if any(isinstance(x, ast.Name) and x.id == name and isinstance(x.ctx, ast.Store) for t in tg for x in ast.walk(t)):
            return None
    return vals


class _Fresh:
    """Where does the object an expression evaluates to come from, with respect to ONE call of the enclosing function?
    Tags: ('fresh',) created during this call; ('shared', why) an object that outlives the call (module-level name, container
    read, attribute of a longer-lived object, default argument, result of a memoised function); ('field', attr) held in a
    field of the store; ('shallow', tag) shallow copy; ('arg', name) the caller's argument; ('unknown', text)."""

    def __init__(self, repo: Repo, st: _Cls | None = None):
        self.repo = repo
        self.st = st

    # -- memoisation of a function: decorators, and re-binding of its name at module level
    def wrapped(self, m: Module, fn: ast.AST) -> tuple[list[tuple[str, ast.AST]], list[str]]:
        """([(memoiser, node)], [decorators / rebindings the rule cannot read])"""
        memo, opaque = [], []
        for d in fn.decorator_list:
            mm = _memoiser(self.repo, m, d)
            nm = dotted(d.func if isinstance(d, ast.Call) else d)
            if mm:
                memo.append((f"`@{ast.unparse(d)}`", d))
            elif nm and (self.repo.resolve_dotted(m, nm) in TRANSPARENT_DECORATORS or nm in TRANSPARENT_DECORATORS):
                continue
            else:
                opaque.append(f"decorator `@{ast.unparse(d)[:50]}` of {fn.name}")
        if isinstance(parent(fn), ast.Module):
            for v in _module_bindings(m, fn.name):
                if isinstance(v, ast.Call) and _memoiser(self.repo, m, v.func):
                    memo.append((f"`{fn.name} = {ast.unparse(v)[:60]}`", v))
                else:
                    opaque.append(f"module-level re-binding `{fn.name} = {ast.unparse(v)[:50]}`")
        return memo, opaque

    def _outlives(self, tags: set[tuple], text: str) -> set[tuple]:
        """An object read out of another one (attribute / item / container read): part of a fresh object is fresh, anything
        read out of an object that outlives the call outlives it too."""
        if all(t == ("fresh",) for t in tags):
            return {("fresh",)}
        unk = {t for t in tags if t[0] == "unknown"}
        return unk or {("shared", text)}

    def value(self, m: Module, fn: ast.AST, e: ast.AST, env: dict[str, set], depth: int = 0) -> set[tuple]:
        if depth > 7:
            return {("unknown", "depth")}
        if isinstance(e, ast.Await):
            return self.value(m, fn, e.value, env, depth)
        if isinstance(e, (ast.Constant, ast.Dict, ast.List, ast.Set, ast.Tuple, ast.DictComp, ast.ListComp, ast.SetComp, ast.JoinedStr)):
            return {("fresh",)}
        if isinstance(e, ast.IfExp):
            return self.value(m, fn, e.body, env, depth) | self.value(m, fn, e.orelse, env, depth)
        if isinstance(e, ast.BoolOp):
            out: set[tuple] = set()
            for v in e.values:
                out |= self.value(m, fn, v, env, depth)
            return out
        if isinstance(e, ast.NamedExpr):
            return self.value(m, fn, e.value, env, depth)
        if isinstance(e, ast.Name):
            return self._name(m, fn, e, env, depth)
        if isinstance(e, ast.Attribute):
            if _is_self_attr(e) and self.st is not None:
                return {("field", e.attr)}
            return self._outlives(self.value(m, fn, e.value, env, depth + 1), f"`{ast.unparse(e)[:50]}` is an attribute of an object that outlives the call ({m.rel}:{e.lineno})")
        if isinstance(e, ast.Subscript):
            return self._outlives(self.value(m, fn, e.value, env, depth + 1), f"`{ast.unparse(e)[:50]}` is read out of a container that outlives the call ({m.rel}:{e.lineno})")
        if isinstance(e, ast.Call):
            return self._call(m, fn, e, env, depth)
        return {("unknown", type(e).__name__)}

    def _name(self, m: Module, fn: ast.AST, e: ast.Name, env: dict[str, set], depth: int) -> set[tuple]:
        if any(isinstance(n, (ast.Global, ast.Nonlocal)) and e.id in n.names for n in walk_shallow(fn)):
            return {("shared", f"`{e.id}` is a global of {m.rel}, bound across calls")}
        vals = _local_values(fn, e.id)
        if vals is None:
            return {("unknown", f"name {e.id} is bound by a loop / with / augmented assignment")}
        out: set[tuple] = set()
        for v in vals:
            out |= self.value(m, fn, v, env, depth + 1)
        if e.id in _all_params(fn):
            if e.id in env:
                out |= env[e.id]
            elif e.id in _param_defaults(fn):
                d = _param_defaults(fn)[e.id]
                out |= {("fresh",)} if isinstance(d, ast.Constant) else \
                    {("shared", f"parameter `{e.id}` of {fn.name} defaults to `{ast.unparse(d)[:40]}`, evaluated once when the function is defined and shared by every call ({m.rel}:{d.lineno})")}
            else:
                out |= {("arg", e.id)}
            return out
        if vals:
            return out
        if _module_bindings(m, e.id) or e.id in m.functions or e.id in m.classes or e.id in m.imports:
            ln = next((getattr(v, "lineno", 0) for v in _module_bindings(m, e.id)), 0)
            return {("shared", f"`{e.id}` is a module-level object of {m.rel}{':' + str(ln) if ln else ''}, created once at import and shared by every call")}
        return {("unknown", f"name {e.id}")}

    def _shallow(self, tags: set[tuple]) -> set[tuple]:
        return {t if t == ("fresh",) or t[0] == "unknown" else ("shallow", t) for t in tags}

    def _call(self, m: Module, fn: ast.AST, c: ast.Call, env: dict[str, set], depth: int) -> set[tuple]:
        f = c.func
        nm = call_name(c)
        if nm in ("cast", "typing.cast") and len(c.args) == 2:
            return self.value(m, fn, c.args[1], env, depth)
        if nm == "getattr" and len(c.args) >= 2:
            out = self._outlives(self.value(m, fn, c.args[0], env, depth + 1), f"`{ast.unparse(c)[:50]}` reads an attribute of an object that outlives the call ({m.rel}:{c.lineno})")
            for d in c.args[2:]:
                out |= self.value(m, fn, d, env, depth + 1)
            return out
        if isinstance(f, ast.Attribute) and f.attr == "model_copy":
            deep = next((k.value for k in c.keywords if k.arg == "deep"), None)
            if isinstance(deep, ast.Constant) and deep.value is True:
                return {("fresh",)}
            if deep is not None and not (isinstance(deep, ast.Constant) and deep.value is False):
                return {("unknown", "model_copy(deep=<expr>)")}
            return self._shallow(self.value(m, fn, f.value, env, depth + 1))
        if last(nm) in DEEP_FUNCS and c.args:
            return {("fresh",)}
        if nm in ("copy", "copy.copy") and len(c.args) == 1:
            return self._shallow(self.value(m, fn, c.args[0], env, depth + 1))
        if isinstance(f, ast.Attribute) and f.attr == "copy" and not c.args:
            return self._shallow(self.value(m, fn, f.value, env, depth + 1))
        sm = _self_method_call(c)
        if sm and self.st is not None:
            callee = self.st.method(sm)
            if callee is None:
                return {("fresh",)}  # self.<attribute>(...): a stored class / factory, e.g. self.state_type()
            return self.result(self.st.m, callee, c, m, fn, env, depth, method=True)
        if isinstance(f, ast.Attribute) and f.attr in CONTAINER_READS:
            return self._outlives(self.value(m, fn, f.value, env, depth + 1), f"`{ast.unparse(c)[:60]}` reads a container that outlives the call ({m.rel}:{c.lineno})")
        return self._callee(m, fn, f, c, env, depth)

    def _callee(self, m: Module, fn: ast.AST, f: ast.AST, c: ast.Call, env: dict[str, set], depth: int) -> set[tuple]:
        """Result of calling the callable `f` denotes."""
        if depth > 7:
            return {("unknown", "depth")}
        if isinstance(f, ast.Call):
            if _memoiser(self.repo, m, f.func):
                return {("shared", f"`{ast.unparse(f)[:60]}` is a memoised callable ({m.rel}:{f.lineno}): equal arguments give the same object")}
            return {("fresh",)}
        if isinstance(f, ast.Name) and fn is not None:
            if f.id in _all_params(fn):
                return {("fresh",)}  # calling the caller's argument: the state class / a factory (trusted: constructors return new objects)
            vals = _local_values(fn, f.id)
            if vals is None:
                return {("unknown", f"callable {f.id} is bound by a loop / with")}
            if vals:
                out: set[tuple] = set()
                for v in vals:
                    out |= self._callee(m, fn, v, c, env, depth + 1)
                return out
        nm = dotted(f)
        if nm:
            ref = self.repo.resolve_dotted(m, nm)
            if ":" in ref:
                modname, _, qual = ref.partition(":")
                mod = m if modname == m.name else self.repo.modules.get(modname)
                if mod is not None and qual in mod.functions and "." not in qual:
                    return self.result(mod, mod.functions[qual], c, m, fn, env, depth, method=False)
                if mod is not None and qual in mod.classes:
                    return {("fresh",)}
            if isinstance(f, ast.Name):
                binds = _module_bindings(m, f.id)
                if binds:
                    out = set()
                    for v in binds:
                        if isinstance(v, ast.Call) and _memoiser(self.repo, m, v.func):
                            out |= {("shared", f"`{f.id} = {ast.unparse(v)[:60]}` is a memoised callable ({m.rel}:{v.lineno}): equal arguments give the same object")}
                        elif isinstance(v, (ast.Name, ast.Attribute)):
                            out |= self._callee(m, None, v, c, env, depth + 1)
                        else:
                            out |= {("unknown", f"callable `{f.id} = {ast.unparse(v)[:40]}`")}
                    return out
            elif isinstance(f.value if isinstance(f, ast.Attribute) else None, ast.Name) and _module_bindings(m, f.value.id):  # type: ignore[union-attr]
                return {("unknown", f"method `{nm}` of a module-level object")}
        return {("fresh",)}  # external call / constructor / classmethod of the state class (trusted to return a new object)

    def result(self, cm: Module, callee: ast.AST, call: ast.Call | None, m: Module, fn: ast.AST | None, env: dict[str, set], depth: int, method: bool) -> set[tuple]:
        """Tags of what a call of the repo function `callee` returns (arguments bound from `call`; None = analysed on its own)."""
        memo, opaque = self.wrapped(cm, callee)
        if memo:
            return {("shared", f"{callee.name} is memoised by {memo[0][0]} ({cm.rel}:{memo[0][1].lineno}): every call with equal arguments returns the same object")}
        if opaque:
            return {("unknown", opaque[0])}
        if any(isinstance(n, (ast.Yield, ast.YieldFrom)) for n in walk_shallow(callee)):
            return {("unknown", f"generator {callee.name}")}
        ps = [x.arg for x in callee.args.posonlyargs + callee.args.args]
        if method and ps and ps[0] in ("self", "cls"):
            ps = ps[1:]
        inner: dict[str, set] = {}
        if call is not None:
            names = ps + [x.arg for x in callee.args.kwonlyargs]
            b = _bind_args(call, names)
            if b is None:
                return {("unknown", f"arguments of `{ast.unparse(call)[:50]}`")}
            inner = {names[i]: self.value(m, fn, a, env, depth + 1) for i, a in b.items() if i < len(names)}
        rets = _returns(callee)
        if not rets:
            return {("fresh",)}
        out: set[tuple] = set()
        for r in rets:
            out |= self.value(cm, callee, r.value, inner, depth + 1)
        return out


def _r5_verdict(tags: set[tuple], where: str, allow_arg: bool = False) -> tuple[bool, str]:
    """(every possible origin is an object created by this call, reason).  Unknown provenance -> AnchorError."""
    bad = []
    for t in sorted(tags, key=str):
        sh = False
        while t[0] == "shallow":
            sh, t = True, t[1]
        if t[0] == "unknown" or (t[0] == "arg" and not allow_arg):
            raise AnchorError(f"C19.R5: cannot determine where the value {where} comes from ({t[1]})")
        if t[0] == "shared":
            bad.append(t[1] + ("; the shallow copy made of it still shares its nested mutable values" if sh else ""))
        elif t[0] == "field":
            bad.append(f"it is {'a shallow copy of ' if sh else ''}the object held in self.{t[1]}" + ("; nested mutable values stay shared" if sh else ""))
    return not bad, "; ".join(bad)


_R5_WHY = ("`set` / `edit_state` of InMemoryStateStore mutate the installed object in place, so values written after one clear() are still there after the next "
           "clear() (which must reset to the type defaults), and every store cleared with the same state type shares one state object")


def _clear_installs(fr: _Fresh, st: _Cls, fn: ast.AST, env: dict[str, set], depth: int = 0) -> list[tuple[ast.AST, ast.AST, str, set]]:
    """(site, holder, kind, tags of the written value) for every write of the whole state reached from `fn` through
    calls of the store's own methods, the method parameters bound to what the caller passes."""
    out = []
    counted = set()
    for site, val, kind in _state_writes(st, fn):
        counted.add(id(site))
        out.append((site, fn, kind, fr.value(st.m, fn, val, env)))
    if depth >= 2:
        return out
    for c in calls(fn):
        sm = _self_method_call(c)
        callee = st.method(sm) if sm else None
        if callee is None or callee is fn or id(c) in counted or not (c.args or c.keywords) or any(isinstance(n, (ast.Yield, ast.YieldFrom)) for n in walk_shallow(callee)):
            continue
        ps = _params(callee)
        b = _bind_args(c, ps)
        if b is None:
            raise AnchorError(f"C19.R5: cannot read the arguments of `{ast.unparse(c)[:60]}` in {st.name}.{fn.name}")
        inner = {ps[i]: fr.value(st.m, fn, a, env) for i, a in b.items() if i < len(ps)}
        out += _clear_installs(fr, st, callee, inner, depth + 1)
    return out


def _r5(chk, repo: Repo, stores: list[_Cls], mem: Module) -> None:
    """R5: the state installed by clear() is an instance created by that very call."""
    if "create_cleared_state" not in mem.functions:
        raise AnchorError(f"shared helper `create_cleared_state` not found in {mem.rel}")
    helper = mem.functions["create_cleared_state"]
    fr = _Fresh(repo)
    memo, opaque = fr.wrapped(mem, helper)
    if opaque and not memo:
        raise AnchorError(f"C19.R5: {opaque[0]}: cannot decide whether each call runs the body")
    chk.ob("C19.R5", "create_cleared_state runs its body on every call (no memoising decorator, no memoising re-binding of its name)", not memo, m=mem,
           node=memo[0][1] if memo else helper, fn=helper, instance="create_cleared_state:runs-per-call",
           reason=(f"create_cleared_state is memoised by {memo[0][0] if memo else ''}: every clear() of a state type gets the SAME default instance; " + _R5_WHY))
    nret = 0
    for r in _returns(helper):
        nret += 1
        ok, why = _r5_verdict(fr.value(mem, helper, r.value, {}), f"returned by create_cleared_state (`{ast.unparse(r.value)[:50]}`)")
        chk.ob("C19.R5", f"create_cleared_state returns an object created by this call (`{ast.unparse(r.value)[:60]}`)", ok, m=mem, node=r, fn=helper,
               instance="create_cleared_state:return-fresh", reason=f"the returned default instance outlives the call: {why}; " + _R5_WHY)
    chk.floor("C19.R5", "return statements of create_cleared_state classified (fresh / shared)", nret, 1)

    nsites = nkept = 0
    for st in stores:
        fn = st.method("clear")
        if fn is None:
            nsites += 1  # missing protocol method: reported by R1a
            continue
        ins = _clear_installs(_Fresh(repo, st), st, fn, {})
        if not ins:
            raise AnchorError(f"C19.R5: cannot see what {st.name}.clear installs as the state")
        for site, holder, kind, tags in ins:
            nsites += 1
            if not kind.startswith("assign "):
                chk.observe(f"C19.R5: {st.name}.clear hands the cleared state to {kind} in {holder.name}, which serialises it; the object itself is not kept by the store")
                continue
            nkept += 1
            ok, why = _r5_verdict(tags, f"{st.name}.clear installs ({kind} in {holder.name})")
            chk.ob("C19.R5", f"{st.name}.clear installs ({kind} in {holder.name}) an object created by this clear(): nothing else holds the store's live state", ok,
                   m=st.m, node=site, fn=holder, instance=f"{st.name}.clear:installs-fresh:{kind.split()[-1]}",
                   reason=f"the object that becomes the live state after clear() is not created by this call: {why}; " + _R5_WHY)
    chk.floor("C19.R5", "state writes reached from clear() of both stores (through set_state)", nsites, 2)
    chk.floor("C19.R5", "objects clear() installs as the live in-memory state (InMemoryStateStore._state <- merge_state <- create_cleared_state) classified", nkept, 1)

    # planted positives / negatives (fixture parsed with ast, never imported)
    if not R5_FIXTURE.is_file():
        raise AnchorError(f"C19.R5: fixture {R5_FIXTURE} missing")
    from ..index import _set_parents

    src = R5_FIXTURE.read_text(encoding="utf-8")
    tree = ast.parse(src)
    _set_parents(tree)
    fm = Module("fixtures.c19.planted_clear", R5_FIXTURE, "fixtures/c19/planted_clear.py", src, tree)
    repo._collect(fm)
    planted = clean = 0
    for f in tree.body:
        if isinstance(f, FuncNode) and (f.name.startswith("planted_") or f.name.startswith("clean_")):
            tags = fr.result(fm, f, None, fm, None, {}, 0, method=False)
            ok, _why = _r5_verdict(tags, f"returned by {f.name} (fixture)")
            planted += f.name.startswith("planted_") and not ok
            clean += f.name.startswith("clean_") and ok
    chk.floor("C19.R5", "planted memoised / singleton / default-argument cleared-state helpers reported on fixtures/c19/planted_clear.py", planted, 10)
    chk.floor("C19.R5", "clean cleared-state helpers of fixtures/c19/planted_clear.py accepted", clean, 5)


def run(chk) -> None:
    repo: Repo = chk.repo
    mem = repo.module(MEM)
    repo.module(SQL)
    pm, proto = repo.cls(f"{MEM}:{PROTOCOL}")
    proto_methods = [n for n in proto.body if isinstance(n, FuncNode)]
    chk.floor("C19.R1", "methods of the StateStore protocol", len(proto_methods), 7)
    stores = [_Cls(repo, mod, name) for mod, name in STORES]

    # ---------------------------------------------------------------- R1a: protocol conformance
    for st in stores:
        for p in proto_methods:
            impl = st.method(p.name)
            if impl is None:
                chk.ob("C19.R1", f"{st.name} implements StateStore.{p.name}", False, m=st.m, node=st.node, instance=f"{st.name}.{p.name}:signature",
                       reason="protocol method missing")
                continue
            reason = ""
            if _params(impl) != _params(p):
                reason = f"parameters {_params(impl)} differ from the protocol's {_params(p)}"
            elif (_defaults_from(impl) < len(_params(impl))) != (_defaults_from(p) < len(_params(p))) or _defaults_from(impl) != _defaults_from(p):
                reason = "defaulted parameters differ from the protocol"
            elif isinstance(p, ast.AsyncFunctionDef) and not isinstance(impl, ast.AsyncFunctionDef):
                reason = "protocol method is a coroutine, implementation is not"
            elif isinstance(p, ast.FunctionDef) and isinstance(impl, ast.AsyncFunctionDef) and "asynccontextmanager" not in _decorators(impl):
                reason = "protocol method is synchronous, implementation is a coroutine"
            chk.ob("C19.R1", f"{st.name}.{p.name} has the protocol's parameters and call kind", not reason, m=st.m, node=impl, fn=impl,
                   instance=f"{st.name}.{p.name}:signature", reason=reason)

    # ---------------------------------------------------------------- R1b: shared helpers, argument roles
    bound = 0
    for st in stores:
        for op, (helper, slots) in ROUTES.items():
            fn = st.method(op)
            if fn is None:
                continue  # already reported by R1a as a missing protocol method
            href = f"{MEM}:{helper}"
            if helper not in mem.functions:
                raise AnchorError(f"shared helper `{helper}` not found in {mem.rel}")
            hparams = [a.arg for a in mem.functions[helper].args.args]
            found = _helper_calls(st, fn, href)
            inst = f"{st.name}.{op}->{helper}"
            if not found:
                chk.ob("C19.R1", f"{st.name}.{op} routes through the shared helper {helper}", False, m=st.m, node=fn, fn=fn, instance=inst,
                       reason=f"no call of {href} in {op} or in the methods it calls on self: the two stores no longer share this operation's semantics")
                continue
            bound += 1
            mine = _params(fn)
            ok, reason, site = True, "", found[0][1]
            for holder, c, sub in found:
                b = _bind_args(c, hparams)
                if b is None:
                    raise AnchorError(f"C19.R1: cannot read the arguments of `{ast.unparse(c)[:70]}` in {st.name}.{holder.name}")
                for slot, pidx in slots.items():
                    want = mine[pidx] if pidx < len(mine) else None
                    got = b.get(slot)
                    g = _as_outer(got, holder, fn, sub) if got is not None else None
                    if want is None or g is None or not (isinstance(g, ast.Name) and g.id == want):
                        ok, site = False, c
                        reason = (f"{helper}'s `{hparams[slot]}` slot receives `{ast.unparse(got) if got is not None else '<nothing>'}`, "
                                  f"expected the method's own parameter `{want}`")
                if helper == "merge_state" and ok:
                    cur = b.get(0)
                    g = _as_outer(cur, holder, fn, sub) if cur is not None else None
                    if g is None or (isinstance(g, ast.Name) and g.id in mine):
                        ok, site, reason = False, c, f"merge_state's current-state slot receives `{ast.unparse(cur) if cur is not None else '<nothing>'}` (the caller's argument, not the stored state)"
                if helper == "create_cleared_state" and ok:
                    p = parent(c)
                    while isinstance(p, (ast.Await, ast.keyword)):
                        p = parent(p)
                    used = isinstance(p, ast.Call) and _self_method_call(p) is not None or isinstance(p, (ast.Assign, ast.AnnAssign, ast.Return))
                    if not used:
                        ok, site, reason = False, c, "the cleared state is built but not handed to a write"
            chk.ob("C19.R1", f"{st.name}.{op} routes through {helper} and forwards its own parameters into the helper's slots", ok,
                   m=st.m, node=site, fn=fn, instance=inst, reason=reason)
    chk.floor("C19.R1", "operation->shared-helper bindings (4 per store)", bound, 6)

    # ---------------------------------------------------------------- R1c: set_state writes only merged values
    nwrites = 0
    for st in stores:
        fn = st.need("set_state")
        ws = _state_writes(st, fn)
        if not ws:
            # delegation to another public mutator is fine; anything else is an idiom the rule cannot read
            if not any(_self_method_call(c) in ("edit_state", "set") for c in calls(fn)):
                raise AnchorError(f"C19.R1: no write of the state recognised in {st.name}.set_state")
        mine = _params(fn)
        for site, val, kind in ws:
            nwrites += 1
            v = expand(val, site)
            if isinstance(v, ast.Await):
                v = v.value
            nm = call_name(v) if isinstance(v, ast.Call) else None
            merged = bool(nm) and repo.resolve_dotted(st.m, nm) == f"{MEM}:merge_state"
            if merged:
                origin = "merge_state"
            elif isinstance(v, ast.Name) and v.id in mine:
                origin = f"param:{v.id}"
            else:
                origin = "other"
            chk.ob("C19.R1", f"{st.name}.set_state writes ({kind}) only the result of merge_state(current, incoming)", merged, m=st.m, node=site, fn=fn,
                   instance=f"{st.name}.set_state:write-of:{origin}",
                   reason=f"`{ast.unparse(val)}` is written without passing through merge_state: on this path a parent-type state is not merged into "
                          f"the store's state type and an unrelated type is not rejected, unlike the sibling store")
    chk.floor("C19.R1", "state writes in set_state of both stores", nwrites, 2)

    # ---------------------------------------------------------------- R2: get_state returns a snapshot
    hook_ok, hook_reason, hook_path = _copy_hook_status(repo)
    repo.module("workflows.events")
    nret = 0
    for st in stores:
        fn = st.need("get_state")
        rets = _returns(fn)
        if not rets:
            raise AnchorError(f"C19.R2: {st.name}.get_state has no return value")
        for r in rets:
            nret += 1
            tags = origins(st, st.m, fn, r.value)
            kinds: dict[str, tuple[bool, str, list[str]]] = {}
            for t in sorted(tags, key=str):
                sh, inner = _flatten(t)
                if inner[0] == "unknown":
                    raise AnchorError(f"C19.R2: cannot determine where `{ast.unparse(r.value)}` in {st.name}.get_state comes from ({inner[1]})")
                if inner[0] == "fresh":
                    continue
                if inner[0] == "field" and not sh:
                    kinds["alias"] = (False, f"returns the object held in self.{inner[1]} itself: any change to the snapshot is a change to the store", [])
                elif inner[0] == "field" and sh and not hook_ok:
                    kinds["shallow-shares-private-container"] = (False, f"shallow copy of self.{inner[1]}; " + hook_reason, hook_path)
            if not kinds:
                chk.ob("C19.R2", f"{st.name}.get_state returns a value that shares no top-level container with the stored state "
                                 f"(origins: {sorted(str(_flatten(t)[1][0]) + ('/shallow' if _flatten(t)[0] else '') for t in tags)})", True,
                       m=st.m, node=r, fn=fn, instance=f"{st.name}.get_state:snapshot")
            for k, (_ok, reason, path) in kinds.items():
                chk.ob("C19.R2", f"{st.name}.get_state returns a snapshot: top-level fields/keys of the result are not shared with the store", False,
                       m=st.m, node=r, fn=fn, instance=f"{st.name}.get_state:{k}", reason=reason, path=path)
    chk.floor("C19.R2", "return statements of get_state in both stores", nret, 2)

    # ---------------------------------------------------------------- R3: no mutator has a normal path that skips its write
    _r3(chk, stores, mem)

    # ---------------------------------------------------------------- R4: the parent-type merge reads full dumps of both states
    _r4(chk, repo)

    # ---------------------------------------------------------------- R5: clear() installs an instance created by that call
    _r5(chk, repo, stores, mem)
    chk.observe("C19: value-level equality with a nested-dict model over operation sequences is not decided; R1 reduces it to both stores calling the "
                "same four helpers with the same argument roles and to set_state never writing an unmerged value.")


# ----------------------------------------------------------------------------------------------- twins

_PM = "packages/llama-index-workflows/src/workflows/context/state_store.py"
_PS = "packages/llama-agents-server/src/llama_agents/server/_store/sqlite/sqlite_state_store.py"
_PE = "packages/llama-index-workflows/src/workflows/events.py"

# Text of SqliteStateStore.set_state on the repaired tree, and its shape before the repair (unlocked, unmerged write on the
# empty-row path).  Reverting the repair must be detected: C19.R1 here, C20.R1 in c20.py.
_UPSERT_LITERAL = ("""
                INSERT INTO workflow_state (run_id, state_json, state_type, state_module, created_at, updated_at)
                VALUES (?, ?, ?, ?, ?, ?)
                ON CONFLICT(run_id) DO UPDATE SET
                    state_json = excluded.state_json,
                    state_type = excluded.state_type,
                    state_module = excluded.state_module,
                    updated_at = excluded.updated_at
                """)
_UPSERT_PARAMS = ("                    self._run_id,\n                    state_json,\n                    type(state).__name__,\n                    type(state).__module__,\n"
                  "                    now,\n                    now,\n")
_SAVE_HEAD = "    def _save_state(\n        self, state: MODEL_T, conn: sqlite3.Connection | None = None\n    ) -> None:\n"
_SAVE_PRE = ("        \"\"\"Save state to database.\"\"\"\n        should_close = conn is None\n        if conn is None:\n            conn = self._connect()\n        try:\n"
             "            now = _utc_now().isoformat()\n            state_json = self._serialize_state(state)\n")
_SAVE_EXEC_NOW = "            conn.execute(\n                \"\"\"" + _UPSERT_LITERAL + "\"\"\",\n                (\n" + _UPSERT_PARAMS + "                ),\n            )\n"
_SAVE_EXEC_NAMED = "            upsert_sql = \"\"\"" + _UPSERT_LITERAL + "\"\"\"\n            row = (\n" + _UPSERT_PARAMS + "            )\n            conn.execute(upsert_sql, row)\n"
_SAVE_TO_SET_STATE = ("            if should_close:\n                conn.commit()\n        finally:\n            if should_close:\n                self._release(conn)\n\n"
                      "    async def get_state(self) -> MODEL_T:\n        \"\"\"Return a copy of the current state model.\"\"\"\n        state = self._load_state()\n        return state.model_copy()\n\n"
                      "    async def set_state(self, state: MODEL_T) -> None:\n        \"\"\"Replace or merge into the current state model.\"\"\"\n        async with self._lock:\n"
                      "            current_state = self._load_state()\n            merged = merge_state(current_state, state)\n")
_SET_STATE_NOW = '        async with self._lock:\n            current_state = self._load_state()\n            merged = merge_state(current_state, state)\n            self._save_state(merged)  # type: ignore[arg-type]\n'
_SET_STATE_PRE_FIX = '        conn = self._connect()\n        try:\n            cursor = conn.cursor()\n            cursor.execute(\n                "SELECT state_json FROM workflow_state WHERE run_id = ?",\n                (self._run_id,),\n            )\n            row = cursor.fetchone()\n\n            if row is None:\n                self._save_state(state, conn)\n                conn.commit()\n                return\n\n            current_state = self._deserialize_state(row[0])\n            merged = merge_state(current_state, state)\n            self._save_state(merged, conn)  # type: ignore[arg-type]\n            conn.commit()\n        finally:\n            self._release(conn)\n'
_SQL_SET_NOW = "        async with self.edit_state() as state:\n            set_by_path(state, path, value)\n"
_HOOK_COPY = "        if not deep:\n            # pydantic's shallow copy shares private attribute values; the dynamic\n            # fields live in `_data`, so give the copy its own top-level dict.\n            copied._data = dict(self._data)\n"

_MERGE_NOW = "        parent_data = incoming.model_dump()\n        return current_type.model_validate(\n            {**current_state.model_dump(), **parent_data}\n        )\n"

_CLR_DEF = "def create_cleared_state(state_type: type[MODEL_T]) -> MODEL_T:"
_CLR_EXC = "    except ValidationError:\n        raise ValueError(\"State must have defaults for all fields\")\n"
_CLR_TAIL = "        return state_type()\n" + _CLR_EXC
_MEM_CLEAR = "        await self.set_state(create_cleared_state(self._state.__class__))"

TWINS = [
    # ---- R1 breaking
    Twin("sqlite get drops the default", _PS, "return get_by_path(state, path, default)", "return get_by_path(state, path)", "C19.R1"),
    Twin("sqlite merge arguments swapped", _PS, "merged = merge_state(current_state, state)", "merged = merge_state(state, current_state)", "C19.R1"),
    Twin("sqlite set bypasses path traversal", _PS, "            set_by_path(state, path, value)", "            setattr(state, path, value)", "C19.R1"),
    Twin("memory set_state replaces without merging", _PM, "            self._state = merge_state(self._state, state)", "            self._state = state", "C19.R1"),
    Twin("memory get swaps default and path", _PM, "return get_by_path(self._state, path, default)", "return get_by_path(self._state, default, path)", "C19.R1"),
    Twin("sqlite clear renamed away from the protocol", _PS, "    async def clear(self) -> None:", "    async def reset(self) -> None:", "C19.R1"),
    Twin("pre-fix: sqlite set_state saves the incoming object unmerged when the row is missing", _PS, _SET_STATE_NOW, _SET_STATE_PRE_FIX, "C19.R1"),
    Twin("sqlite set_state saves the incoming object, merge result unused", _PS, "            self._save_state(merged)  # type: ignore[arg-type]", "            self._save_state(state)", "C19.R1"),
    # ---- R1 benign
    Twin("benign: sqlite get inlined, keyword default", _PS, "        state = self._load_state()\n        return get_by_path(state, path, default)",
         "        return get_by_path(self._load_state(), path, default=default)", None),
    Twin("benign: memory set_state through a local", _PM, "            self._state = merge_state(self._state, state)",
         "            merged = merge_state(self._state, state)\n            self._state = merged", None),
    Twin("benign: memory clear through a local class", _PM, "        await self.set_state(create_cleared_state(self._state.__class__))",
         "        cleared = create_cleared_state(type(self._state))\n        await self.set_state(cleared)", None),
    Twin("benign: sqlite set_state merge inlined", _PS, "            current_state = self._load_state()\n            merged = merge_state(current_state, state)\n            self._save_state(merged)",
         "            self._save_state(merge_state(self._load_state(), state))", None),
    Twin("benign: sqlite upsert statement and its parameters named in locals", _PS, _SAVE_EXEC_NOW, _SAVE_EXEC_NAMED, None),
    Twin("benign: sqlite upsert statement as a class-level constant", _PS, _SAVE_HEAD + _SAVE_PRE + "            conn.execute(\n                \"\"\"" + _UPSERT_LITERAL + "\"\"\",\n",
         "    _UPSERT_STATE_SQL = \"\"\"" + _UPSERT_LITERAL + "\"\"\"\n\n" + _SAVE_HEAD + _SAVE_PRE + "            conn.execute(\n                self._UPSERT_STATE_SQL,\n", None),
    Twin("class-level upsert statement, set_state saves the incoming object unmerged", _PS, _SAVE_HEAD + _SAVE_PRE + _SAVE_EXEC_NOW + _SAVE_TO_SET_STATE + "            self._save_state(merged)",
         "    _UPSERT_STATE_SQL = \"\"\"" + _UPSERT_LITERAL + "\"\"\"\n\n" + _SAVE_HEAD + _SAVE_PRE + "            conn.execute(self._UPSERT_STATE_SQL, (\n" + _UPSERT_PARAMS + "            ))\n"
         + _SAVE_TO_SET_STATE + "            self._save_state(state)", "C19.R1"),
    Twin("named upsert statement, set_state saves the incoming object unmerged", _PS, _SAVE_EXEC_NOW + _SAVE_TO_SET_STATE + "            self._save_state(merged)",
         _SAVE_EXEC_NAMED + _SAVE_TO_SET_STATE + "            self._save_state(state)", "C19.R1"),
    # ---- R2 breaking
    Twin("memory get_state returns the stored object", _PM, "        return self._state.model_copy()", "        return self._state", "C19.R2"),
    Twin("sqlite get_state memoises the loaded object", _PS, "        state = self._load_state()\n        return state.model_copy()",
         "        if getattr(self, \"_snapshot\", None) is None:\n            self._snapshot = self._load_state()\n        return self._snapshot", "C19.R2"),
    Twin("pre-fix: DictLikeModel copy hook does not re-create _data", _PE, _HOOK_COPY, "", "C19.R2"),
    Twin("seed: copy hook skips the re-creation when _data is empty", _PE, "        if not deep:\n", "        if not deep and self._data:\n", "C19.R2"),
    Twin("copy hook re-creates only when an update is given", _PE, "        if not deep:\n", "        if not deep and update:\n", "C19.R2"),
    Twin("copy hook re-creates only non-empty containers (length test)", _PE, "        if not deep:\n", "        if not deep and len(self._data) > 0:\n", "C19.R2"),
    Twin("copy hook guard inverted", _PE, "        if not deep:\n", "        if deep:\n", "C19.R2"),
    Twin("copy hook assigns the same dict", _PE, "            copied._data = dict(self._data)", "            copied._data = self._data", "C19.R2"),
    Twin("copy hook copies into a local only", _PE, "            copied._data = dict(self._data)", "            data = dict(self._data)", "C19.R2"),
    Twin("copy hook renamed, no longer called by model_copy()", _PE, "    def model_copy(\n        self, *, update: Mapping[str, Any] | None = None, deep: bool = False\n    ) -> Self:",
         "    def clone(\n        self, *, update: Mapping[str, Any] | None = None, deep: bool = False\n    ) -> Self:", "C19.R2"),
    # ---- R2 benign
    Twin("benign: memory get_state through a local", _PM, "        return self._state.model_copy()", "        current = self._state\n        return current.model_copy()", None),
    Twin("benign: sqlite get_state inlined", _PS, "        state = self._load_state()\n        return state.model_copy()", "        return self._load_state().model_copy()", None),
    Twin("benign: memory get_state deep copy", _PM, "        return self._state.model_copy()", "        return self._state.model_copy(deep=True)", None),
    Twin("benign: copy hook returns early for deep copies", _PE, _HOOK_COPY, "        if deep:\n            return copied\n        copied._data = dict(self._data)\n", None),
    Twin("benign: copy hook guard written as `not bool(deep)`", _PE, "        if not deep:\n", "        if not bool(deep):\n", None),
    Twin("benign: copy hook re-creates unconditionally", _PE, _HOOK_COPY, "        copied._data = dict(self._data)\n", None),
    Twin("benign: copy hook uses .copy()", _PE, "            copied._data = dict(self._data)", "            copied._data = self._data.copy()", None),
    Twin("benign: copy hook uses a dict display", _PE, "            copied._data = dict(self._data)", "            copied._data = {**self._data}", None),
    Twin("benign: copy hook sets the private attribute through object.__setattr__", _PE, "            copied._data = dict(self._data)",
         "            object.__setattr__(copied, \"_data\", dict(self._data))", None),
    # ---- R3 breaking
    Twin("seed: sqlite set returns early when the stored value == value", _PS, _SQL_SET_NOW,
         "        async with self._lock:\n            state = self._load_state()\n            if get_by_path(state, path, None) == value:\n                return\n"
         "            set_by_path(state, path, value)\n            self._save_state(state)\n", "C19.R3"),
    Twin("sqlite set guards the path write with a != comparison (nested if, no return)", _PS, _SQL_SET_NOW,
         "        async with self.edit_state() as state:\n            if get_by_path(state, path, None) != value:\n                set_by_path(state, path, value)\n", "C19.R3"),
    Twin("memory set skips values already stored", _PM, "        async with self._lock:\n            set_by_path(self._state, path, value)",
         "        async with self._lock:\n            unchanged = get_by_path(self._state, path, None) == value\n            if unchanged:\n                return\n"
         "            set_by_path(self._state, path, value)", "C19.R3"),
    Twin("sqlite set saves the loaded copy only for non-None values", _PS, _SQL_SET_NOW,
         "        async with self._lock:\n            state = self._load_state()\n            set_by_path(state, path, value)\n            if value is not None:\n"
         "                self._save_state(state)\n", "C19.R3"),
    Twin("sqlite set writes into a loaded copy and never saves it", _PS, _SQL_SET_NOW,
         "        async with self._lock:\n            state = self._load_state()\n            set_by_path(state, path, value)\n", "C19.R3"),
    Twin("sqlite edit_state saves only when the edited state compares unequal", _PS, "            state = self._load_state()\n            yield state\n            self._save_state(state)",
         "            state = self._load_state()\n            before = state.model_copy(deep=True)\n            yield state\n            if state != before:\n                self._save_state(state)", "C19.R3"),
    Twin("sqlite set_state skips the save when the merge compares equal to the current state", _PS, "            self._save_state(merged)  # type: ignore[arg-type]",
         "            if merged == current_state:\n                return\n            self._save_state(merged)  # type: ignore[arg-type]", "C19.R3"),
    Twin("memory set_state keeps the old object when the merge compares equal", _PM, "            self._state = merge_state(self._state, state)",
         "            merged = merge_state(self._state, state)\n            if merged != self._state:\n                self._state = merged", "C19.R3"),
    Twin("memory set works on a copy that is never stored", _PM, "            set_by_path(self._state, path, value)",
         "            state = self._state.model_copy()\n            set_by_path(state, path, value)", "C19.R3"),
    # ---- R3 benign
    Twin("benign: sqlite set written out (lock, load, path write, save) without a skip", _PS, _SQL_SET_NOW,
         "        async with self._lock:\n            state = self._load_state()\n            set_by_path(state, path, value)\n            self._save_state(state)\n", None),
    Twin("benign: memory set through a local alias of the stored object", _PM, "            set_by_path(self._state, path, value)",
         "            state = self._state\n            set_by_path(state, path, value)", None),
    Twin("benign: sqlite set rejects a non-string path by raising", _PS, _SQL_SET_NOW,
         "        if not isinstance(path, str):\n            raise TypeError(\"path must be a string\")\n" + _SQL_SET_NOW, None),
    Twin("benign: memory edit_state yields the stored object, no write-back needed", _PM, "            state = self._state\n\n            yield state\n\n            self._state = state",
         "            yield self._state", None),
    Twin("benign: sqlite edit_state saves in an else-less try/finally-free block through a renamed local", _PS, "            state = self._load_state()\n            yield state\n            self._save_state(state)",
         "            loaded = self._load_state()\n            yield loaded\n            self._save_state(loaded)", None),
    Twin("benign: sqlite set_state returns explicitly after the save", _PS, "            self._save_state(merged)  # type: ignore[arg-type]",
         "            self._save_state(merged)  # type: ignore[arg-type]\n            return None", None),
    # ---- R4 the parent-type merge reads full dumps
    Twin("merge applies only the explicitly set parent fields (exclude_unset on the incoming dump)", _PM, "parent_data = incoming.model_dump()", "parent_data = incoming.model_dump(exclude_unset=True)", "C19.R4"),
    Twin("merge skips parent fields that are None (filter on an inlined dump)", _PM, _MERGE_NOW,
         "        return current_type.model_validate(\n            {**current_state.model_dump(), **incoming.model_dump(exclude_none=True)}\n        )\n", "C19.R4"),
    Twin("merge fills the stored dump in place from a dump without defaults", _PM, _MERGE_NOW,
         "        merged_data = current_state.model_dump()\n        merged_data.update(incoming.model_dump(exclude_defaults=True))\n        return current_type.model_validate(merged_data)\n", "C19.R4"),
    Twin("merge keeps only the set fields through model_fields_set", _PM, "parent_data = incoming.model_dump()",
         "parent_data = {k: v for k, v in incoming.model_dump().items() if k in incoming.model_fields_set}", "C19.R4"),
    Twin("stored side dumped without its None fields", _PM, "{**current_state.model_dump(), **parent_data}", "{**current_state.model_dump(exclude_none=True), **parent_data}", "C19.R4"),
    Twin("incoming side dumped with a literal exclude set", _PM, "parent_data = incoming.model_dump()", 'parent_data = incoming.model_dump(exclude={"updated_at"})', "C19.R4"),
    Twin("stored values win over the incoming ones (overlay order swapped)", _PM, "{**current_state.model_dump(), **parent_data}", "{**parent_data, **current_state.model_dump()}", "C19.R4"),
    Twin("benign: filters spelled out as off, python mode", _PM, "parent_data = incoming.model_dump()", 'parent_data = incoming.model_dump(mode="python", exclude_unset=False, exclude=None)', None),
    Twin("benign: merged mapping through a local and the | operator, guard-style branches", _PM, _MERGE_NOW,
         "        stored_data = current_state.model_dump()\n        merged_data = stored_data | incoming.model_dump()\n        return current_type.model_validate(merged_data)\n", None),
    # ---- R5 the state installed by clear() is created by that call
    Twin("seed: create_cleared_state wrapped in functools.lru_cache", _PM, _CLR_DEF, "@functools.lru_cache(maxsize=None)\n" + _CLR_DEF, "C19.R5"),
    Twin("create_cleared_state wrapped in functools.cache", _PM, _CLR_DEF, "@functools.cache\n" + _CLR_DEF, "C19.R5"),
    Twin("create_cleared_state re-bound to a memoised wrapper after its definition", _PM, _CLR_TAIL,
         _CLR_TAIL + "\n\ncreate_cleared_state = functools.lru_cache(maxsize=None)(create_cleared_state)\n", "C19.R5"),
    Twin("create_cleared_state memoises the default instance in a module-level dict", _PM, _CLR_TAIL,
         "        if state_type not in _CLEARED_DEFAULTS:\n            _CLEARED_DEFAULTS[state_type] = state_type()\n        return _CLEARED_DEFAULTS[state_type]\n"
         + _CLR_EXC + "\n\n_CLEARED_DEFAULTS: dict[type, Any] = {}\n", "C19.R5"),
    Twin("create_cleared_state memoises in a mutable default argument", _PM, *multi(_PM, [
        (_CLR_DEF, "def create_cleared_state(\n    state_type: type[MODEL_T], _defaults: dict[type, Any] = {}\n) -> MODEL_T:"),
        (_CLR_TAIL, "        return _defaults.setdefault(state_type, state_type())\n" + _CLR_EXC)]), "C19.R5"),
    Twin("create_cleared_state hands out a shallow copy of a memoised prototype (nested defaults shared)", _PM, _CLR_TAIL,
         "        return _default_instance(state_type).model_copy()\n" + _CLR_EXC
         + "\n\n@functools.lru_cache(maxsize=None)\ndef _default_instance(state_type: type[MODEL_T]) -> MODEL_T:\n    return state_type()\n", "C19.R5"),
    Twin("memory clear memoises the cleared instance in a field of the store and re-installs it", _PM, _MEM_CLEAR,
         "        if getattr(self, \"_cleared\", None) is None:\n            self._cleared = create_cleared_state(self._state.__class__)\n        await self.set_state(self._cleared)", "C19.R5"),
    Twin("benign: create_cleared_state returns through a local", _PM, _CLR_TAIL, "        cleared = state_type()\n        return cleared\n" + _CLR_EXC, None),
    Twin("benign: create_cleared_state deep-copies a memoised prototype", _PM, _CLR_TAIL,
         "        return _default_instance(state_type).model_copy(deep=True)\n" + _CLR_EXC
         + "\n\n@functools.lru_cache(maxsize=None)\ndef _default_instance(state_type: type[MODEL_T]) -> MODEL_T:\n    return state_type()\n", None),
    Twin("benign: create_cleared_state instantiates through an extracted private helper", _PM, _CLR_TAIL,
         "        return _instantiate_defaults(state_type)\n" + _CLR_EXC
         + "\n\ndef _instantiate_defaults(state_type: type[MODEL_T]) -> MODEL_T:\n    return state_type()\n", None),
    Twin("benign: memory clear assigns the cleared instance under the lock", _PM, _MEM_CLEAR,
         "        cleared = create_cleared_state(type(self._state))\n        async with self._lock:\n            self._state = cleared", None),
    Twin("benign: sqlite clear through a local", _PS, "        await self.set_state(create_cleared_state(self.state_type))",
         "        cleared_state = create_cleared_state(self.state_type)\n        await self.set_state(cleared_state)", None),
]
