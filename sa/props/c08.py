"""C08 — exhausted failures route to the owning error handler within budget.

Decided: (R1) the routing tables (`_catch_error_handlers`, `_handler_for_step`) that
BrokerState.from_workflow copies are assigned from the handler collection on *every* path by
which Workflow._validate returns to run() — including the disable_validation path (the only
exemption is the cached-result return, which a full pass precedes); (R2) the routing branch of the
reducer: handler looked up through handler_for_step/catch_error_handlers, routed iff
count+1 <= max_recoveries (evaluated from the AST for counts 0..4 × budgets 1..3), routed
StepFailedEvent addressed to the handler step with the incremented count, otherwise
WorkflowFailedEvent + CommandFailWorkflow with the *original* exception; recovery counts are copied
along the lineage at every construction site; (R3) _collect_catch_error_handlers evaluated from its
AST on all layouts (none / wildcard / scoped / both) over 3 steps: scoped claims override the
wildcard, handler steps are never covered.
Not decided: handler bodies.
"""

from __future__ import annotations

import ast

from ..absint import Interp, Raised, Record, Unsupported
from ..astx import dep_slice, call_name, enclosing_stmt, expand, facts_at, has_fact, kwarg, last
from ..cfg import CFG, exprs_in_node
from ..index import AnchorError, enclosing_function, parent, qualname_of
from ..selftest import Twin
from ._engine import CL, CL_REL, RUNNER, wf_modules

EXPLANATION = __doc__.split("\n\n", 1)[1]
TECHNIQUE = 'static analysis: def-use across paths (routing tables assigned before every return / rebuilt by the caller), finite AST evaluation of the budget decision and of the handler collection'
TRUSTED = ["CPython ast"]
WFM = "workflows.workflow"
WF_REL = "packages/llama-index-workflows/src/workflows/workflow.py"
VAL = "workflows.representation.validate"
VAL_REL = "packages/llama-index-workflows/src/workflows/representation/validate.py"
TABLES = ("_catch_error_handlers", "_handler_for_step")


def run(chk) -> None:
    repo = chk.repo
    from ._engine import engine_view
    chk.extra["helpers_inlined"] = engine_view(repo)
    # ---------------------------------------------------------------- R1 tables on every path
    mw, val = repo.func(f"{WFM}:Workflow._validate")
    cfg = CFG(val)
    rets = [n for n in cfg.nodes if isinstance(n.ast, ast.Return) and n.tag == ""]
    chk.floor("C08.R1", "return sites of Workflow._validate", len(rets), 2)
    assigns = {t: [n for n in cfg.nodes if isinstance(n.ast, (ast.Assign, ast.AnnAssign)) and any(
        isinstance(x, ast.Attribute) and x.attr == t and isinstance(x.ctx, ast.Store) and ast.unparse(x.value) == "self" for x in ast.walk(n.ast))] for t in TABLES}
    for t in TABLES:
        if not assigns[t]:
            raise AnchorError(f"C08.R1: Workflow._validate never assigns self.{t}")
    # statements of Workflow.run (the caller) that (re)build both tables, directly or through a method of the class
    _, runf0 = repo.func(f"{WFM}:Workflow.run")
    crun = CFG(runf0)
    wmethods = repo.methods(f"{WFM}:Workflow")

    def assigns_both(fn: ast.AST) -> bool:
        got = {x.attr for x in ast.walk(fn) if isinstance(x, ast.Attribute) and isinstance(x.ctx, ast.Store) and ast.unparse(x.value) == "self" and x.attr in TABLES}
        return got == set(TABLES) and any(isinstance(c, ast.Call) and last(call_name(c)) == "_collect_catch_error_handlers" for c in ast.walk(fn))

    refreshers = []
    for n in crun.nodes:
        if n.ast is None or n.kind != "stmt":
            continue
        for x in exprs_in_node(n):
            if isinstance(x, ast.Call) and isinstance(x.func, ast.Attribute) and ast.unparse(x.func.value) == "self" and x.func.attr in wmethods and x.func.attr != "_validate" and assigns_both(wmethods[x.func.attr]):
                refreshers.append(n)
        if isinstance(n.ast, ast.Assign) and {t.attr for t in ast.walk(n.ast) if isinstance(t, ast.Attribute) and isinstance(t.ctx, ast.Store) and ast.unparse(t.value) == "self"} >= set(TABLES) and "_collect_catch_error_handlers" in ast.unparse(n.ast.value):
            refreshers.append(n)
    launches0 = [n for n in crun.nodes if n.ast is not None and any(isinstance(x, ast.Call) and last(call_name(x)) == "_workflow_run" for x in exprs_in_node(n))]

    def caller_covers(r_facts: set) -> bool:
        """In run(): on every path on which these facts (about self.*) hold, a refresher executes before the launch."""
        if not refreshers or not launches0:
            return False
        from ..astx import atoms as _atoms
        contradicting = []
        for t in crun.nodes:
            if t.kind != "test":
                continue
            for lab in ("T", "F"):
                for a, pol in _atoms(t.ast.test, lab == "T"):
                    if (a, not pol) in r_facts:
                        contradicting.append((t, lab))
        r = crun.reach([crun.entry], blocked=refreshers, blocked_edges=contradicting, labels_excluded=("exc", "cancel"))
        return not any(l in r for l in launches0)

    for r in rets:
        facts = facts_at(cfg, r, expand_locals=True)
        cached = has_fact(facts, "self._validation_result is not None")
        self_facts = {(a, p) for a, p in facts if a.startswith("self.")}
        covered = (not cached) and bool(self_facts) and caller_covers(self_facts)
        for t in TABLES:
            dominated = r not in cfg.reach([cfg.entry], blocked=assigns[t])
            txt = " ".join(ast.unparse(r.ast).split())
            role = "cached" if cached else ("disabled" if any("_disable_validation" in a for a, p in facts if p) else "full")
            chk.ob("C08.R1", f"_validate reaches `{txt}` only after assigning self.{t} (or on the cached-result path, or run() rebuilds the tables for that case before launching)", dominated or cached or covered, m=mw, node=r.ast, fn=val,
                   instance=f"tables-before-return:{role}:{t}",
                   reason=f"this return leaves self.{t} at its empty default and run() does not rebuild it before launching: BrokerState.from_workflow copies an empty routing table, so with disable_validation=True no @catch_error handler is ever entered")
    # the values come from the handler collection
    mv, vw = repo.func(f"{VAL}:_validate_workflow")
    coll_calls = [c for c in ast.walk(vw) if isinstance(c, ast.Call) and last(call_name(c)) == "_collect_catch_error_handlers"]
    direct = [c for c in ast.walk(val) if isinstance(c, ast.Call) and last(call_name(c)) == "_collect_catch_error_handlers"]
    chk.ob("C08.R1", "the tables come from _collect_catch_error_handlers", bool(coll_calls or direct), m=mv, node=vw, fn=vw, instance="tables-source", reason="_validate_workflow no longer calls _collect_catch_error_handlers")
    for t in TABLES:
        for n in assigns[t]:
            v = n.ast.value
            src = ast.unparse(expand(v, n.ast, depth=2))
            ok = "_collect_catch_error_handlers" in src or "_validate_workflow" in src
            chk.ob("C08.R1", f"self.{t} is assigned from the validation/collection result", ok, m=mw, node=n.ast, fn=val, instance=f"tables-assigned-from:{t}", reason=f"assigned `{src[:80]}`")
    # run() validates before the broker state is built; from_workflow copies both tables
    _, runf = repo.func(f"{WFM}:Workflow.run")
    cr = CFG(runf)
    vcalls = [n for n in cr.nodes if n.ast is not None and any(isinstance(x, ast.Call) and ast.unparse(x.func) == "self._validate" for x in exprs_in_node(n))]
    launch = [n for n in cr.nodes if n.ast is not None and any(isinstance(x, ast.Call) and last(call_name(x)) == "_workflow_run" for x in exprs_in_node(n))]
    chk.floor("C08.R1", "launch sites in Workflow.run", len(launch), 1)
    for n in launch:
        ok = bool(vcalls) and n not in cr.reach([cr.entry], blocked=vcalls)
        chk.ob("C08.R1", "Workflow.run calls _validate before launching the run", ok, m=mw, node=n.ast, fn=runf, instance="validate-before-launch", reason="a launch path skips _validate")
    ms, fw = repo.func("workflows.runtime.types.internal_state:BrokerState.from_workflow")
    for t, kw in (("_catch_error_handlers", "catch_error_handlers"), ("_handler_for_step", "handler_for_step")):
        hits = [k for k in ast.walk(fw) if isinstance(k, ast.keyword) and k.arg == kw and f"workflow.{t}" in ast.unparse(k.value)]
        chk.ob("C08.R1", f"BrokerState.from_workflow copies workflow.{t} into the broker config", bool(hits), m=ms, node=fw, fn=fw, instance=f"from_workflow:{kw}", reason=f"config.{kw} is not built from workflow.{t}")

    # ---------------------------------------------------------------- R2 routing branch
    mc, sr = repo.func(f"{CL}:_process_step_result_tick")
    routed = [c for c in ast.walk(sr) if isinstance(c, ast.Call) and last(call_name(c)) == "CommandQueueEvent" and kwarg(c, "step_name") is not None and ast.unparse(kwarg(c, "step_name")).endswith("handler.step_name")]
    chk.floor("C08.R2", "handler-routing CommandQueueEvent constructions", len(routed), 1)
    cfgs = CFG(sr)
    for c in routed:
        st = enclosing_stmt(c)
        ev = expand(kwarg(c, "event"), c, depth=1)
        ok = isinstance(ev, ast.Call) and last(call_name(ev)) == "StepFailedEvent" and ast.unparse(kwarg(ev, "step_name")) == "tick.step_name" and ast.unparse(kwarg(ev, "input_event")) == "tick.event"
        chk.ob("C08.R2", "the routed event is a StepFailedEvent naming the failed step and its input event", ok, m=mc, node=c, fn=sr, instance="route:event", reason=f"event={ast.unparse(ev)[:80]}")
        exc = kwarg(ev, "exception") if isinstance(ev, ast.Call) else None
        ex = expand(exc, c, depth=2) if exc is not None else None
        chk.ob("C08.R2", "the StepFailedEvent carries the original exception", ex is not None and ast.unparse(ex).endswith("result.exception"), m=mc, node=c, fn=sr, instance="route:exception", reason=f"exception={ast.unparse(ex) if ex is not None else None}")
        # lookup chain
        for name, want in (("handler_name", "handler_for_step.get(tick.step_name)"), ("handler", "catch_error_handlers.get(handler_name)")):
            d = expand(ast.Name(id=name, ctx=ast.Load()), st, depth=1)
            chk.ob("C08.R2", f"`{name}` is looked up through {want.split('.')[0]}", want in ast.unparse(d).replace("state.config.", ""), m=mc, node=c, fn=sr, instance=f"route:lookup:{name}", reason=f"{name} = {ast.unparse(d)[:80]}")
        # budget decision, evaluated for counts 0..4 and budgets 1..3
        guards = [t for t, lab in cfgs.guards(cfgs.nodes_of(st)[0]) if t.kind == "test" and lab == "T"]
        decide = [g for g in guards if "handler" in ast.unparse(expand(g.ast.test, g.ast, depth=1))]
        if not decide:
            chk.ob("C08.R2", "routing is decided by a test on the handler and its budget", False, m=mc, node=c, fn=sr, instance="route:budget", reason="no guarding test mentions the handler")
            continue
        g = decide[-1]
        test = expand(g.ast.test, g.ast, depth=6, stop=("handler", "this_execution", "handler_name"))
        counts_expr = expand(kwarg(c, "recovery_counts"), c, depth=6, stop=("handler", "this_execution", "handler_name"))
        bad = ""
        rows = []
        try:
            for M in (1, 2, 3):
                for cnt in range(0, 5):
                    h = Record("CatchErrorHandler", step_name="H", max_recoveries=M)
                    te = Record("InProgressState", recovery_counts=({"H": cnt, "other": 7} if cnt else {"other": 7}))
                    env = {"handler": h, "this_execution": te, "handler_name": "H"}
                    got = bool(Interp().eval(test, env))
                    rows.append({"count_so_far": cnt, "max_recoveries": M, "routes": got})
                    if got != (cnt + 1 <= M):
                        bad = bad or f"with {cnt} earlier recoveries and max_recoveries={M} the reducer {'routes' if got else 'fails the run'} (handler must be entered at most {M} times per lineage)"
                    if got:
                        newc = Interp().eval(counts_expr, env)
                        if newc.get("H") != cnt + 1 or newc.get("other") != 7:
                            bad = bad or f"routed event carries recovery_counts={newc}, expected H={cnt + 1} and the other lineage counts kept"
            got_none = bool(Interp().eval(test, {"handler": None, "this_execution": Record("InProgressState", recovery_counts={}), "handler_name": None}))
            if got_none:
                bad = bad or "routes although no handler owns the step"
        except (Unsupported, Raised) as e:
            raise AnchorError(f"C08.R2: cannot evaluate the routing decision `{ast.unparse(test)[:100]}`: {e}")
        chk.ob("C08.R2", "a failure is routed iff the handler exists and count+1 <= max_recoveries; the routed event carries count+1 (15 (count,budget) pairs + no-handler case)", not bad, m=mc, node=g.ast, fn=sr, instance="route:budget", reason=bad)
        chk.extra["routing_table"] = rows[:15]
        # the other side of the same test fails the run with the original exception
        fails = [x for x in ast.walk(sr) if isinstance(x, ast.Call) and last(call_name(x)) == "CommandFailWorkflow"]
        for f in fails:
            fn_nodes = cfgs.nodes_of(enclosing_stmt(f))
            on_else = any((g, "F") in cfgs.guards(n) for n in fn_nodes)
            chk.ob("C08.R2", "when not routed, the run fails (same decision, other branch)", on_else, m=mc, node=f, fn=sr, instance="fail:else-of-route", reason="CommandFailWorkflow is not on the false branch of the routing decision")
            e = kwarg(f, "exception")
            ee = expand(e, f, depth=2) if e is not None else None
            chk.ob("C08.R2", "the run fails with the original exception", ee is not None and ast.unparse(ee).endswith("result.exception"), m=mc, node=f, fn=sr, instance="fail:original-exception", reason=f"exception={ast.unparse(ee) if ee is not None else None}")

    # lineage propagation: a construction that continues an execution's lineage copies recovery_counts. A construction
    # continues a lineage when it carries any retry-lineage field (attempts / first_attempt_at / last_exception /
    # last_failed_at), when it re-queues a step's output or failed input in the result reducer, or when it forwards a
    # queued command / a step's send_event.  Fresh attempts (only `event=`, e.g. the start event or a waiter replay) do not.
    LINEAGE_FIELDS = ("attempts", "first_attempt_at", "last_exception", "last_failed_at")
    sites = 0
    for mod in wf_modules(repo):
        if mod.name not in (CL, "workflows.context.internal_context"):
            continue
        for c in ast.walk(mod.tree):
            if not isinstance(c, ast.Call) or last(call_name(c)) not in ("CommandQueueEvent", "TickAddEvent", "EventAttempt", "InProgressState", "RetryAttempt"):
                continue
            fn = enclosing_function(c)
            if fn is None:
                continue
            kws = {k.arg for k in c.keywords if k.arg}
            carries = bool(kws & set(LINEAGE_FIELDS)) or (last(call_name(c)) == "RetryAttempt" and "retry_number" in kws)
            in_result_reducer = fn.name == "_process_step_result_tick" and last(call_name(c)) == "CommandQueueEvent"
            in_send = fn.name == "send_event" and mod.name.endswith("internal_context") and last(call_name(c)) == "TickAddEvent"
            if not (carries or in_result_reducer or in_send):
                continue
            sites += 1
            ev = kwarg(c, "event")
            evt = ast.unparse(ev).split(".")[-1] if ev is not None else "n/a"
            rc = kwarg(c, "recovery_counts")
            chk.ob("C08.R2", f"{last(call_name(c))} built in {qualname_of(fn)} carries the lineage's recovery_counts", rc is not None and any(a_.endswith(".recovery_counts") or ".recovery_counts." in a_ or a_ == "recovery_counts" for a_ in dep_slice(fn, rc).attrs() | {ast.unparse(x) for x in dep_slice(fn, rc).exprs if isinstance(x, ast.Name)}), m=mod, node=c, fn=fn,
                   instance=f"lineage:{last(call_name(c))}:{qualname_of(fn).split('.')[-1]}:{evt}", reason="recovery_counts is not copied: the handler budget restarts for this lineage")
    chk.floor("C08.R2", "lineage construction sites", sites, 8)
    chk.observe("waiter replays (`EventAttempt(event=waiter.event)`) start with empty recovery_counts: a lineage that passes through wait_for_event restarts its handler budget (not gated; outside the anchored mechanism)")

    # ---------------------------------------------------------------- R3 handler collection on all layouts
    mv2, coll = repo.func(f"{VAL}:_collect_catch_error_handlers")
    _, vceh = repo.func(f"{VAL}:validate_catch_error_handlers")
    layouts = 0
    bad = ""
    try:
        for wildcard in (False, True):
            for scoped in (None, ["a"], ["a", "b"]):
                steps = {n: Record("StepConfig", role="step", catch_error_for_steps=None, catch_error_max_recoveries=None) for n in ("a", "b", "c")}
                if wildcard:
                    steps["W"] = Record("StepConfig", role="catch_error", catch_error_for_steps=None, catch_error_max_recoveries=2)
                if scoped is not None:
                    steps["S"] = Record("StepConfig", role="catch_error", catch_error_for_steps=list(scoped), catch_error_max_recoveries=1)
                hooks = {
                    "CatchErrorHandler": lambda **kw: Record("CatchErrorHandler", **kw),
                    "validate_catch_error_handlers": lambda hs, names: Interp(hooks={}).call_function(vceh, {"handlers": hs, "step_names": names}),
                }
                handlers, hfs = Interp(hooks=hooks).call_function(coll, {"steps": steps})
                layouts += 1
                for s in ("a", "b", "c"):
                    want = "S" if (scoped and s in scoped) else ("W" if wildcard else None)
                    if hfs.get(s) != want:
                        bad = bad or f"layout wildcard={wildcard}, scoped={scoped}: step {s} is owned by {hfs.get(s)!r}, expected {want!r}"
                for hname in ("W", "S"):
                    if hname in hfs:
                        bad = bad or f"layout wildcard={wildcard}, scoped={scoped}: handler step {hname} is itself covered by {hfs[hname]}"
                if set(handlers) != ({"W"} if wildcard else set()) | ({"S"} if scoped is not None else set()):
                    bad = bad or f"layout wildcard={wildcard}, scoped={scoped}: handlers found {sorted(handlers)}"
    except (Unsupported, Raised) as e:
        raise AnchorError(f"C08.R3: cannot evaluate _collect_catch_error_handlers: {e}")
    chk.ob("C08.R3", f"scoped claims override the wildcard and handler steps are never covered, on all {layouts} layouts", not bad, m=mv2, node=coll, fn=coll, instance="collect:layouts", reason=bad)
    chk.exhaustive = True


TWINS = [
    Twin("budget strict", CL_REL, "handler is not None and new_count <= handler.max_recoveries", "handler is not None and new_count < handler.max_recoveries", "C08.R2"),
    Twin("count not incremented", CL_REL, "                                handler.step_name: new_count,", "                                handler.step_name: current_count,", "C08.R2"),
    Twin("lineage counts dropped on route", CL_REL, "                            recovery_counts={\n                                **this_execution.recovery_counts,\n                                handler.step_name: new_count,\n                            },", "                            recovery_counts={\n                                handler.step_name: new_count,\n                            },", "C08.R2"),
    Twin("output loses lineage", CL_REL, "                    CommandQueueEvent(\n                        event=result.result,\n                        recovery_counts=dict(this_execution.recovery_counts),\n                    )", "                    CommandQueueEvent(\n                        event=result.result,\n                    )", "C08.R2"),
    Twin("fail with wrapped exception", CL_REL, "                        CommandFailWorkflow(\n                            step_name=tick.step_name, exception=exception\n                        )", "                        CommandFailWorkflow(\n                            step_name=tick.step_name, exception=WorkflowRuntimeError(str(exception))\n                        )", "C08.R2"),
    Twin("wildcard overrides scoped", VAL_REL, "            if step_name in handler_for_step:\n                continue\n            handler_for_step[step_name] = wildcard.step_name", "            handler_for_step[step_name] = wildcard.step_name", "C08.R3"),
    Twin("wildcard covers handlers", VAL_REL, "            if step_name in handler_step_names:\n                continue\n            if step_name in handler_for_step:", "            if step_name in handler_for_step:", "C08.R3"),
    Twin("tables only when hitl", WF_REL, "        self._catch_error_handlers = result.catch_error_handlers\n", "        if result.uses_hitl:\n            self._catch_error_handlers = result.catch_error_handlers\n", "C08.R1"),
    Twin("from_workflow forgets routing", "packages/llama-index-workflows/src/workflows/runtime/types/internal_state.py", "                handler_for_step=dict(workflow._handler_for_step),", "                handler_for_step={},", "C08.R1"),
    Twin("refresh only when handlers were seen before", WF_REL, "        if self._disable_validation:\n            # Graph validation is skipped", "        if self._disable_validation and self._catch_error_handlers:\n            # Graph validation is skipped", "C08.R1"),
    Twin("refresh dropped", WF_REL, "            self._refresh_catch_error_routing()\n", "            pass\n", "C08.R1"),
    Twin("refresh forgets the step map", WF_REL, "        (\n            self._catch_error_handlers,\n            self._handler_for_step,\n        ) = _collect_catch_error_handlers(self._step_configs())", "        self._catch_error_handlers, _ = _collect_catch_error_handlers(self._step_configs())", "C08.R1"),
    Twin("benign: refresh inline", WF_REL, "            self._refresh_catch_error_routing()\n", "            from .representation.validate import _collect_catch_error_handlers\n            (self._catch_error_handlers, self._handler_for_step) = _collect_catch_error_handlers(self._step_configs())\n", None),
    Twin("benign: budget via local", CL_REL, "                should_route = (\n                    handler is not None and new_count <= handler.max_recoveries\n                )", "                within_budget = handler is not None and handler.max_recoveries >= new_count\n                should_route = within_budget", None),
    Twin("benign: cached check reordered", WF_REL, "if not force and not stale and self._validation_result is not None:", "if self._validation_result is not None and not force and not stale:", None),
]
