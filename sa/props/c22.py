"""C22 — resource injection honours caching and cycle detection under concurrency.

Decided (necessary conditions visible in the shape of ResourceManager):
  R1  (await-atomicity, T7a) the manager is one object per workflow instance and every concurrently running step
      task awaits its coroutines.  State that one resolution keeps *across a suspension point* (the cycle chain, the
      per-resolution cache, the scope depth) must therefore not live in a plain attribute of the shared instance (or a
      class attribute / module global): it must be task-local (ContextVar with an immutable default, a value
      threaded through parameters / locals, a table keyed by the current task) or every access must sit under one
      shared asyncio lock.
  R2  (create-once) the persistent store of cached resources is written after a suspension only under a membership
      test that is atomic with the write: no suspension between test and write, or both under one `async with`
      lock, or an in-flight entry is registered before the first suspension and later callers await it.
      While such a window is open (the recorded finding of the pinned tree), the resources it can duplicate are those whose
      creation suspends inside it.  That set is decided as an obligation of its own: in every implementation of the descriptor
      method awaited in the window (`_Resource.resolve` -> `call` -> `_resolve_dependencies`, `_ResourceConfig.resolve`) each
      suspension point is either the re-entrant resolution of a dependency (awaits the manager / hands it on) or runs only
      under a test that the factory is a coroutine function (`inspect.iscoroutinefunction` / `isawaitable` / `iscoroutine`,
      directly or through an attribute that only ever stores such a test).  A sync factory therefore runs inline, and a
      cached sync-factory resource is created atomically.  An await on the sync branch or on the common path (to_thread,
      run_in_executor, sleep, async with) puts sync factories into the open window as well: a different failure from the
      recorded one, reported under its own key.
  R5  (sequential shape, T3) the key pushed on the cycle chain was tested absent under the same key; the chain push
      precedes the re-entrant await; every push is popped on every exit (also exceptional); what a
      resolution scope sets up before its `yield` is undone on every exit; a shared per-resolution cache is cleared
      when the depth returns to zero.
  R6  (identity of a resource on the cycle chain) a genuine cycle is reported only if the resource that is met again gives the
      *same key* as when it was pushed.  Descriptors are not such a key: the rule establishes from the code that the descriptors a
      descriptor hands back to the manager (`await <manager>.get(d)` in `_Resource._resolve_dependencies`) derive, without a memo, from a
      call that evaluates the factory's annotations anew on every visit (`typing.get_type_hints`, reached through `get_dependencies`):
      for a dependency written as a string annotation (`from __future__ import annotations`, a quoted forward reference — the only way
      two factories can name each other) every visit builds a new descriptor object.  Therefore the key of the chain, at the membership
      test, at the push and at the keyed pop alike, must be a value computed from what the resource was declared with (today
      `resource.name`, the key of the caches): not the descriptor object (no descriptor class defines `__eq__`), not `id()`, not a bound
      method, not an attribute whose definition in some descriptor class contains a per-object / per-evaluation source (id(), the object
      itself, a serial number, a clock, a random value); and the keyed pop must remove the very key that was pushed.
Not decided: identity of objects at run time, factories that spawn tasks themselves, sync factories that block,
a sync factory whose *dependency* is a coroutine factory (the re-entrant await is taken as suspending only if a dependency does),
the full sequential algorithm on arbitrary dependency graphs (R3 of the design: not implemented), whether two
parameters of one step share a non-cached dependency (R4 of the design: the statement does not fix it).
"""

from __future__ import annotations

import ast
from dataclasses import dataclass, field

from ..astx import MUTATORS, atoms, call_name, dep_slice, dotted, expand, facts_at, has_fact, last
from ..cfg import CFG, Node, exprs_in_node
from ..index import AnchorError, FuncNode, ancestors, enclosing_function, module_of, parent, qualname_of, repo_root, walk_shallow
from ..report import VERIF, Check
from ..selftest import Twin, multi

EXPLANATION = (
    "Premise (bound structurally): Workflow.__init__ stores one ResourceManager per workflow instance and the step worker "
    "module awaits its coroutines from every step task, so its methods interleave at every suspension point.  "
    "R1: for every state location of ResourceManager (attributes assigned in __init__, class attributes, module-level mutable "
    "globals and ContextVars the methods use) except the persistent store, no coroutine / scope generator of the class has two "
    "accesses of the location, at least one a write, with a suspension point (await of something that may suspend, async with/for, "
    "or the `yield` of a @contextmanager whose `with` body suspends at some use site) between them — unless both sit under one "
    "`async with self.<Lock>` that also covers every other writer, or the access is keyed by asyncio.current_task().  A ContextVar "
    "counts as task-local only with an immutable default.  "
    "R2: every write of the persistent store (directly or through a one-call-deep helper such as `set`) that can follow a "
    "suspension is dominated by a membership test on the store with no suspension between test and write, or test and write share "
    "an `async with` lock, or an in-flight table is written between the test and the first suspension and a dominating test on that "
    "table awaits the pending entry (raising instead of awaiting is not create-once).  "
    "R2 (open window): when a window is not protected, every suspension point inside it is traced through the awaited descriptor method "
    "(all classes of the package that implement it, and the coroutines of the class they await): it must be the re-entrant resolution of a "
    "dependency or be guarded, on every path, by a coroutine-function test of the factory; anything else suspends for sync factories too "
    "(`sync-factory-inline`), so cached sync-factory resources are duplicated as well — not covered by the finding recorded for coroutine factories.  "
    "R5: cycle test `K in chain` (guarding a raise) holds negatively at every `chain.append(K)`; every await that passes the manager "
    "itself to the callee is dominated by a push; from a push every path to an exit passes a pop (path-sensitive on `K in chain`); "
    "in the scope generator every set-up before the yield (`+= 1`, `token = cv.set(..)`) has its undo on every path after the yield; "
    "a per-resolution cache kept on the instance is cleared on every exit on which the depth is zero.  "
    "R6: premise, decided from the code: the argument of `await <manager>.get(d)` in the coroutines of the descriptor classes depends (may-dependence slice, followed "
    "through methods of the class and functions of the module, stopped at any memo: cache decorator, value stored on the object) on a call that re-evaluates annotations "
    "on every call (`get_type_hints`, `get_annotations`, `eval`, `signature(eval_str=True)`), so a dependency declared through a string annotation is a new descriptor object "
    "at every visit.  Obligation: every key of the cycle chain (the `K in chain` test that guards the raise, every push, every keyed pop; locals expanded) is computed from the "
    "descriptor parameter (receiver of the re-entrant await) only through attributes all of whose definitions in every descriptor class (assignments in any method, property "
    "returns, followed through `self.<attr>` three deep) are free of per-object / per-evaluation sources (id(), the object itself without own equality/text, serial numbers, "
    "clocks, random values); the descriptor object itself, `id(d)`, a bound method are identity keys and are reported; a keyed pop must use the key that was pushed.  "
    "Classes that define their own `__eq__`/`__hash__` used as keys, and keys not computed from the descriptor, are not analysed (analysis error, not a pass).  "
    "Not decided: run-time object identity, factories spawning tasks, design rules R3 (bounded interpretation of `_get`) and R4; whether two *different* resources can share a "
    "name (same `__qualname__`: a false cycle) is outside R6."
)
TRUSTED = ["CPython ast", "asyncio: a task runs without interleaving between suspension points", "contextvars: each task has its own context copy",
           "typing.get_type_hints evaluates a string annotation anew on each call (a call expression inside it builds a new object per evaluation)"]
TECHNIQUE = "await-atomicity windows over the statement CFG + may-suspend summary + must-pass (T3) checks"
LEVEL_NOTE = "necessary conditions; the interleavings themselves were confirmed dynamically (triage/t_srv.py::c22, triage/t_c22.py)"

RES = "workflows.resource"
CLS = "ResourceManager"
WF = "workflows.workflow"
STEP = "workflows.runtime.types.step_function"
PKG = "workflows"
NOEXC = ("exc", "cancel")
LOCKISH = ("Lock", "RLock", "Condition", "Semaphore", "BoundedSemaphore")


# ------------------------------------------------------------------------------------------- model of the class


@dataclass
class Loc:
    kind: str  # attr | classattr | global | cv
    name: str
    init: ast.AST | None
    ann: str = ""
    node: ast.AST | None = None

    @property
    def nature(self) -> str:
        v = self.init
        if isinstance(v, ast.Call):
            cn = last(call_name(v)) or ""
            if cn == "ContextVar":
                return "contextvar"
            if cn in LOCKISH:
                return "lock"
        if any(k in self.ann for k in LOCKISH) and "dict" not in self.ann and "Dict" not in self.ann:
            return "lock"
        return "plain"


def _is_mutable_value(v: ast.AST | None) -> bool:
    if v is None:
        return False
    if isinstance(v, (ast.List, ast.Dict, ast.Set, ast.ListComp, ast.DictComp, ast.SetComp)):
        return True
    if isinstance(v, ast.Call):
        return True  # any constructed object (list(), dict(), defaultdict(), a state class…) may be mutated through the reference
    return False


def _immutable_default(v: ast.AST | None) -> bool:
    if v is None:
        return True
    if isinstance(v, ast.Constant):
        return True
    if isinstance(v, ast.Tuple):
        return all(_immutable_default(e) for e in v.elts)
    if isinstance(v, ast.Call) and last(call_name(v)) in ("frozenset", "tuple") and not v.args:
        return True
    return False


@dataclass
class Model:
    m: object
    cls: ast.ClassDef
    methods: dict[str, ast.AST]
    locs: list[Loc]
    nosuspend: set[str] = field(default_factory=set)
    cm_suspends: dict[str, bool] = field(default_factory=dict)
    cm_sites: dict[str, int] = field(default_factory=dict)
    repo: object = None


def _self_name(fn: ast.AST) -> str | None:
    a = fn.args.posonlyargs + fn.args.args
    if not a:
        return None
    if any(last(dotted(d)) in ("staticmethod",) for d in fn.decorator_list):
        return None
    return a[0].arg


def _is_cm(fn: ast.AST) -> bool:
    return any(last(dotted(d) or (call_name(d) if isinstance(d, ast.Call) else None)) in ("contextmanager", "asynccontextmanager") for d in fn.decorator_list)


def _has_susp_syntax(root: ast.AST) -> bool:
    return any(isinstance(x, (ast.Await, ast.AsyncFor, ast.AsyncWith)) for x in walk_shallow(root)) or isinstance(root, (ast.AsyncFor, ast.AsyncWith))


def _build_model(repo) -> Model:
    m, cls = repo.cls(f"{RES}:{CLS}")
    methods = {n.name: n for n in cls.body if isinstance(n, FuncNode)}
    locs: list[Loc] = []
    init = methods.get("__init__")
    if init is None:
        raise AnchorError(f"C22: {CLS}.__init__ not found")
    sn = _self_name(init)
    seen = set()
    for s in walk_shallow(init):
        tgt = val = ann = None
        if isinstance(s, ast.Assign) and len(s.targets) == 1:
            tgt, val = s.targets[0], s.value
        elif isinstance(s, ast.AnnAssign):
            tgt, val, ann = s.target, s.value, s.annotation
        if isinstance(tgt, ast.Attribute) and isinstance(tgt.value, ast.Name) and tgt.value.id == sn and tgt.attr not in seen:
            seen.add(tgt.attr)
            locs.append(Loc("attr", tgt.attr, val, ast.unparse(ann) if ann is not None else "", s))
    for s in cls.body:
        tgt = val = ann = None
        if isinstance(s, ast.Assign) and len(s.targets) == 1:
            tgt, val = s.targets[0], s.value
        elif isinstance(s, ast.AnnAssign) and s.value is not None:
            tgt, val, ann = s.target, s.value, s.annotation
        if isinstance(tgt, ast.Name) and tgt.id not in seen and not (tgt.id.startswith("__") and tgt.id.endswith("__")):
            seen.add(tgt.id)
            locs.append(Loc("classattr", tgt.id, val, ast.unparse(ann) if ann is not None else "", s))
    # module-level state the methods use
    used = {x.id for f in methods.values() for x in ast.walk(f) if isinstance(x, ast.Name)}
    for s in m.tree.body:
        tgt = val = ann = None
        if isinstance(s, ast.Assign) and len(s.targets) == 1:
            tgt, val = s.targets[0], s.value
        elif isinstance(s, ast.AnnAssign) and s.value is not None:
            tgt, val, ann = s.target, s.value, s.annotation
        if isinstance(tgt, ast.Name) and tgt.id in used:
            l = Loc("global", tgt.id, val, ast.unparse(ann) if ann is not None else "", s)
            if l.nature == "contextvar":
                l.kind = "cv"
                locs.append(l)
            elif _is_mutable_value(val) and not (isinstance(val, ast.Call) and last(call_name(val)) in ("TypeVar", "ParamSpec", "getLogger", "compile", "Literal")):
                locs.append(l)
    for l in locs:
        if l.kind in ("attr", "classattr") and l.nature == "contextvar":
            l.kind = "cv"
    model = Model(m, cls, methods, locs)
    model.repo = repo
    # may-suspend summary for in-class coroutines
    changed = True
    while changed:
        changed = False
        for name, f in methods.items():
            if not isinstance(f, ast.AsyncFunctionDef) or name in model.nosuspend:
                continue
            s = _self_name(f)
            ok = True
            for x in walk_shallow(f):
                if isinstance(x, (ast.AsyncFor, ast.AsyncWith)):
                    ok = False
                if isinstance(x, ast.Await):
                    c = x.value
                    if not (isinstance(c, ast.Call) and isinstance(c.func, ast.Attribute) and isinstance(c.func.value, ast.Name) and c.func.value.id == s
                            and c.func.attr in model.nosuspend):
                        ok = False
            if ok:
                model.nosuspend.add(name)
                changed = True
    # does the `yield` of a scope generator span a suspension at some use site?
    for name, f in methods.items():
        if not _is_cm(f):
            continue
        sites = 0
        susp = isinstance(f, ast.AsyncFunctionDef)
        for mod in repo.by_rel.values():
            if not (mod.name == PKG or mod.name.startswith(PKG + ".")):
                continue
            for w in ast.walk(mod.tree):
                if isinstance(w, (ast.With, ast.AsyncWith)):
                    for it in w.items:
                        c = it.context_expr
                        if isinstance(c, ast.Call) and isinstance(c.func, ast.Attribute) and c.func.attr == name:
                            sites += 1
                            if any(_has_susp_syntax(b) for b in w.body):
                                susp = True
        model.cm_suspends[name] = susp
        model.cm_sites[name] = sites
    return model


# ------------------------------------------------------------------------------------------- accesses and windows


def _task_keyed(x: ast.AST) -> bool:
    p = parent(x)
    def has_ct(e: ast.AST) -> bool:
        return any(isinstance(c, ast.Call) and last(call_name(c)) == "current_task" for c in ast.walk(e))
    if isinstance(p, ast.Subscript) and p.value is x and has_ct(p.slice):
        return True
    if isinstance(p, ast.Attribute) and p.attr in ("get", "setdefault", "pop") and isinstance(parent(p), ast.Call) and parent(p).func is p and parent(p).args and has_ct(parent(p).args[0]):
        return True
    return False


def _kind_of(x: ast.AST, is_alias: bool = False) -> str | None:
    """'R', 'W' or 'RW' for one occurrence of a location expression; None when it is keyed by the current task."""
    if _task_keyed(x):
        return None
    p = parent(x)
    if isinstance(getattr(x, "ctx", None), (ast.Store, ast.Del)):
        if is_alias:
            return None  # rebinding a local name is not a write of the shared object
        return "RW" if isinstance(p, ast.AugAssign) else "W"
    if isinstance(p, ast.Attribute) and p.value is x and p.attr in MUTATORS and isinstance(parent(p), ast.Call) and parent(p).func is p:
        return "W"
    if isinstance(p, ast.Subscript) and p.value is x and isinstance(p.ctx, (ast.Store, ast.Del)):
        return "RW" if isinstance(parent(p), ast.AugAssign) else "W"
    if isinstance(p, ast.Call) and x in p.args and last(call_name(p)) in ("heappush", "heappop", "heapify"):
        return "W"
    return "R"


def _aliases(fn: ast.AST, sn: str | None, loc: Loc) -> set[str]:
    out = set()
    for s in walk_shallow(fn):
        if isinstance(s, ast.Assign) and len(s.targets) == 1 and isinstance(s.targets[0], ast.Name):
            v = s.value
            if loc.kind in ("attr", "classattr") and isinstance(v, ast.Attribute) and v.attr == loc.name and isinstance(v.value, ast.Name) and v.value.id in (sn, "cls", CLS):
                out.add(s.targets[0].id)
            if loc.kind == "global" and isinstance(v, ast.Name) and v.id == loc.name:
                out.add(s.targets[0].id)
    return out


def _occurrences(n: Node, sn: str | None, loc: Loc, aliases: set[str]) -> list[tuple[ast.AST, str]]:
    out = []
    for x in exprs_in_node(n):
        hit = alias = False
        if loc.kind in ("attr", "classattr", "cv") and isinstance(x, ast.Attribute) and x.attr == loc.name and isinstance(x.value, ast.Name) and x.value.id in (sn, "cls", CLS, "type(self)"):
            hit = True
        elif loc.kind in ("global", "cv") and isinstance(x, ast.Name) and x.id == loc.name:
            hit = True
        elif isinstance(x, ast.Name) and x.id in aliases:
            hit = alias = True
        if hit:
            k = _kind_of(x, alias)
            if k is not None:
                out.append((x, k))
    return out


CONSTRUCTORS = ("__init__", "__new__", "__post_init__")


def _rebound_attrs(model: Model) -> set[str]:
    """Attribute names that are re-bound (`x.a = …`, `x.a += …`, `del x.a`) somewhere in the package other than on the
    instance under construction (first parameter of `__init__` / `__new__` / `__post_init__`).  A path through any other
    attribute denotes one object for as long as the object it starts from is the same."""
    got = model.__dict__.get("_rebound")
    if got is None:
        got = set()
        mods = list(model.repo.by_rel.values()) if model.repo is not None else [model.m]
        for mod in mods:
            if not (mod is model.m or mod.name == PKG or mod.name.startswith(PKG + ".")):
                continue
            for x in ast.walk(mod.tree):
                if isinstance(x, ast.Attribute) and isinstance(x.ctx, (ast.Store, ast.Del)):
                    f = enclosing_function(x)
                    if f is not None and f.name in CONSTRUCTORS and isinstance(x.value, ast.Name) and x.value.id == _self_name(f):
                        continue
                    got.add(x.attr)
                elif isinstance(x, ast.Call) and last(call_name(x)) in ("setattr", "delattr") and len(x.args) >= 2 \
                        and isinstance(x.args[1], ast.Constant) and isinstance(x.args[1].value, str):
                    got.add(x.args[1].value)  # reflection with a computed name is not followed (as everywhere in the framework)
        model.__dict__["_rebound"] = got
    return got


def _path_aliases(model: Model, fn: ast.AST) -> dict[str, ast.AST]:
    """Locals of ``fn`` that are a second spelling of one object path for the whole call: the local is bound exactly once,
    by a plain assignment of a name / attribute path (`a = x.y.z`); the name the path starts from is itself bound exactly
    once in ``fn`` (a parameter or a single-assignment local); and no attribute of the path is re-bound anywhere in the
    package outside constructors.  Then `a` and `x.y.z` denote the same object wherever both can be evaluated, so a
    mutation / membership test through one is one through the other.  -> {local: path expression, aliases substituted}."""
    bind: dict[str, int] = {}
    a_ = fn.args
    for p in a_.posonlyargs + a_.args + a_.kwonlyargs + [x for x in (a_.vararg, a_.kwarg) if x is not None]:
        bind[p.arg] = bind.get(p.arg, 0) + 1
    for x in ast.walk(fn):
        names: list[str] = []
        if isinstance(x, ast.Name) and isinstance(x.ctx, (ast.Store, ast.Del)):
            names = [x.id]
        elif isinstance(x, FuncNode + (ast.ClassDef,)) and x is not fn:
            names = [x.name]
        elif isinstance(x, ast.alias):
            names = [(x.asname or x.name).split(".")[0]]
        elif isinstance(x, ast.ExceptHandler) and x.name:
            names = [x.name]
        elif isinstance(x, (ast.Global, ast.Nonlocal)):
            names = list(x.names) * 2  # bound elsewhere as well: never "exactly once here"
        elif isinstance(x, (ast.MatchAs, ast.MatchStar)) and x.name:
            names = [x.name]
        elif isinstance(x, ast.MatchMapping) and x.rest:
            names = [x.rest]
        for nm in names:
            bind[nm] = bind.get(nm, 0) + 1
    cand: dict[str, ast.AST] = {}
    for s in walk_shallow(fn):
        tg = val = None
        if isinstance(s, ast.Assign) and len(s.targets) == 1:
            tg, val = s.targets[0], s.value
        elif isinstance(s, ast.AnnAssign) and s.value is not None:
            tg, val = s.target, s.value
        if isinstance(tg, ast.Name) and bind.get(tg.id) == 1 and isinstance(val, (ast.Name, ast.Attribute)) and dotted(val) is not None:
            cand[tg.id] = val
    if not cand:
        return {}
    rebound = _rebound_attrs(model)
    out: dict[str, ast.AST] = {}

    def resolve(e: ast.AST, seen: frozenset) -> ast.AST | None:
        if isinstance(e, ast.Name):
            if e.id in cand and e.id not in seen:
                return resolve(cand[e.id], seen | {e.id})
            return ast.Name(id=e.id, ctx=ast.Load()) if bind.get(e.id) == 1 else None
        if isinstance(e, ast.Attribute):
            if e.attr in rebound:
                return None
            base = resolve(e.value, seen)
            return None if base is None else ast.Attribute(value=base, attr=e.attr, ctx=ast.Load())
        return None

    for nm, val in cand.items():
        r = resolve(val, frozenset({nm}))
        if r is not None:
            out[nm] = r
    return out


class MethodView:
    """CFG of one method with suspension nodes and cached forward reachability."""

    def __init__(self, model: Model, name: str, fn: ast.AST):
        self.model, self.name, self.fn = model, name, fn
        self.sn = _self_name(fn)
        self.cfg = CFG(fn)
        self._reach: dict[Node, set[Node]] = {}
        self._aliases: dict[str, str] | None = None
        self.susp: list[Node] = []
        is_cm = _is_cm(fn)
        for n in self.cfg.nodes:
            if n.ast is None:
                continue
            if n.kind in ("with", "iter") and isinstance(n.ast, (ast.AsyncWith, ast.AsyncFor)):
                self.susp.append(n)
                continue
            for x in exprs_in_node(n):
                if isinstance(x, ast.Await) and self._may_suspend(x):
                    self.susp.append(n)
                    break
                if isinstance(x, (ast.Yield, ast.YieldFrom)):
                    if is_cm and model.cm_suspends.get(name, False):
                        self.susp.append(n)
                        break
                    if not is_cm and isinstance(fn, ast.AsyncFunctionDef):
                        self.susp.append(n)
                        break

    def _may_suspend(self, aw: ast.Await) -> bool:
        c = aw.value
        if isinstance(c, ast.Call) and isinstance(c.func, ast.Attribute) and isinstance(c.func.value, ast.Name) and c.func.value.id == self.sn \
                and c.func.attr in self.model.nosuspend:
            return False
        return True

    @property
    def aliases(self) -> dict[str, str]:
        """local -> text of the object path it is a second spelling of (see _path_aliases)."""
        if self._aliases is None:
            self._aliases = {k: ast.unparse(e) for k, e in _path_aliases(self.model, self.fn).items()}
        return self._aliases

    def canon(self, e: ast.AST | str) -> str:
        """Text of a name / attribute path with a leading alias local replaced by the path it stands for."""
        if isinstance(e, str):
            e = ast.parse(e, mode="eval").body
        parts: list[str] = []
        cur = e
        while isinstance(cur, ast.Attribute):
            parts.append(cur.attr)
            cur = cur.value
        if isinstance(cur, ast.Name) and cur.id in self.aliases:
            return ".".join([self.aliases[cur.id]] + parts[::-1])
        return ast.unparse(e)

    def canon_atoms(self, ats) -> list[tuple[str, bool]]:
        """Normalised atoms with the container of a membership test (`K in C`) spelled canonically."""
        if not self.aliases:
            return list(ats)
        out = []
        for text, pol in ats:
            e = ast.parse(text, mode="eval").body
            if isinstance(e, ast.Compare) and len(e.ops) == 1 and isinstance(e.ops[0], (ast.In, ast.NotIn)):
                text = f"{ast.unparse(e.left)} {'in' if isinstance(e.ops[0], ast.In) else 'not in'} {self.canon(e.comparators[0])}"
            out.append((text, pol))
        return out

    def after(self, n: Node) -> set[Node]:
        if n not in self._reach:
            self._reach[n] = self.cfg.reach([n], include_starts=False)
        return self._reach[n]

    def between(self, a: Node, b: Node) -> list[Node]:
        """Suspension nodes s with a ->* s ->* b (s may be a or b when the statement itself both accesses and suspends)."""
        out = []
        for s in self.susp:
            if (s is a or s in self.after(a)) and (s is b or b in self.after(s)):
                if s is a and s is b and a not in self.after(a):
                    continue
                out.append(s)
        return out


def _lock_of(n1: ast.AST, n2: ast.AST, model: Model, sn: str | None, *, per_key_ok: bool) -> tuple[str | None, str]:
    """Name of the shared lock attribute whose `async with` body contains both nodes, or (None, why)."""
    anc1 = [a for a in ancestors(n1)]
    for a in ancestors(n2):
        if isinstance(a, ast.AsyncWith) and any(a is b for b in anc1):
            for it in a.items:
                e = it.context_expr
                refs = [x for x in ast.walk(e) if isinstance(x, ast.Attribute) and isinstance(x.value, ast.Name) and x.value.id == sn]
                for r in refs:
                    loc = next((l for l in model.locs if l.name == r.attr), None)
                    if loc is None:
                        continue
                    if loc.nature == "lock" and e is r:
                        return loc.name, "lock"
                    lockish = any(k in loc.ann for k in LOCKISH) or any(isinstance(c, ast.Call) and last(call_name(c)) in LOCKISH for c in ast.walk(e))
                    if lockish and per_key_ok:
                        return loc.name, "per-key lock"
                    if lockish:
                        return None, f"`{ast.unparse(e)[:60]}` is a per-key lock: it does not exclude tasks working on other keys"
            raise AnchorError(f"C22: `async with {ast.unparse(a.items[0].context_expr)[:60]}` encloses shared-state accesses but is not a recognised lock (unrecognised idiom)")
    return None, ""


def _reach_user_exc(v: MethodView, starts: list[Node], blocked: list[Node], blocked_edges: list[tuple[Node, str]] = ()) -> set[Node]:
    """Forward reachability that follows exceptional edges only out of statements where foreign code runs or the task
    can be cancelled (suspension points) and out of explicit raises; bookkeeping statements are assumed not to raise."""
    cfg = v.cfg
    user = set(v.susp) | {n for n in cfg.nodes if n.ast is not None and (isinstance(n.ast, ast.Raise) or any(isinstance(x, (ast.Await, ast.Yield)) for x in exprs_in_node(n)))}
    blocked_s, be = set(blocked), set(blocked_edges)
    seen: set[Node] = set()
    stack = [s for s in starts if s not in blocked_s]
    while stack:
        n = stack.pop()
        if n in seen:
            continue
        seen.add(n)
        for lab, t in cfg.succ[n]:
            if (n, lab) in be or t in blocked_s or t in seen:
                continue
            if lab in NOEXC and n not in user:
                continue
            stack.append(t)
    return seen


def _desc(v: MethodView, path: list[Node]) -> list[str]:
    return [f"{n.kind}@{n.line}{n.tag}: {' '.join(ast.unparse(n.ast).split())[:70] if n.kind == 'stmt' else ''}".rstrip(": ") for n in path if n.ast is not None][:10]


# ------------------------------------------------------------------------------------------- premise


def _premise(chk, repo, model: Model) -> None:
    mw, init = repo.func(f"{WF}:Workflow.__init__")
    holder = None
    for s in walk_shallow(init):
        if isinstance(s, (ast.Assign, ast.AnnAssign)) and s.value is not None:
            tgt = s.targets[0] if isinstance(s, ast.Assign) else s.target
            if isinstance(tgt, ast.Attribute) and any(isinstance(c, ast.Call) and last(call_name(c)) == CLS for c in ast.walk(s.value)):
                holder = tgt.attr
    if holder is None:
        raise AnchorError(f"C22: Workflow.__init__ no longer stores a {CLS} on the instance (sharing premise must be re-read)")
    ms = repo.module(STEP)
    coros = {n for n, f in model.methods.items() if isinstance(f, ast.AsyncFunctionDef)}
    sites = []
    for f in ms.functions.values():
        if not isinstance(f, ast.AsyncFunctionDef):
            continue
        for x in walk_shallow(f):
            if isinstance(x, ast.Await) and isinstance(x.value, ast.Call) and isinstance(x.value.func, ast.Attribute) and x.value.func.attr in coros:
                recv = x.value.func.value
                if isinstance(recv, ast.Attribute) and recv.attr == holder:
                    sites.append((f, x))
    chk.floor("C22.R1", f"awaits of {CLS} coroutines on `<workflow>.{holder}` in the step worker module (every step task shares the manager)", len(sites), 1)
    chk.floor("C22.R1", "`with <manager>.resolution_scope()` use sites", sum(model.cm_sites.values()), 1 if model.cm_sites else 0)
    chk.extra["sharing_premise"] = {"holder": f"Workflow.{holder}", "step_task_await_sites": [f"{ms.rel}:{x.lineno} ({qualname_of(f)})" for f, x in sites]}


# ------------------------------------------------------------------------------------------- R1


def _store_attr(model: Model) -> str:
    setter = model.methods.get("set")
    if setter is None:
        raise AnchorError(f"C22: {CLS}.set (registration of a resource by name) not found")
    sn = _self_name(setter)
    cfg = CFG(setter)
    written = set()
    for l in model.locs:
        if l.kind not in ("attr", "classattr"):
            continue
        for n in cfg.nodes:
            if n.ast is None:
                continue
            if any("W" in k for _x, k in _occurrences(n, sn, l, set())):
                written.add(l.name)
    if len(written) != 1:
        raise AnchorError(f"C22: cannot bind the persistent store: {CLS}.set writes {sorted(written)}")
    return written.pop()


def _r1(chk, model: Model, views: dict[str, MethodView], store: str, mediators: set[str] = frozenset(), floors: bool = True) -> None:
    m = model.m
    examined = 0
    susp_methods = [v for v in views.values() if v.susp]
    if floors:
        chk.floor("C22.R1", f"methods of {CLS} that contain a suspension point", len(susp_methods), 2)
    for loc in model.locs:
        if loc.name == store and loc.kind in ("attr", "classattr"):
            continue
        examined += 1
        if loc.kind == "cv":
            dflt = None
            if isinstance(loc.init, ast.Call):
                dflt = next((k.value for k in loc.init.keywords if k.arg == "default"), None)
            ok = _immutable_default(dflt)
            chk.ob("C22.R1", f"ContextVar `{loc.name}` is task-local: its default is immutable (a shared default object would be mutated by every task that has not set it)", ok,
                   m=m, node=loc.node, fn=enclosing_function(loc.node) if loc.node is not None else None, instance=f"taskLocal-default:{loc.name}",
                   reason=f"default `{ast.unparse(dflt)[:60] if dflt is not None else ''}` is one object shared by all tasks")
            plain_attrs = {l.name for l in model.locs if l.kind in ("attr", "classattr") and l.nature == "plain"}
            plain_globals = {l.name for l in model.locs if l.kind == "global"}
            for v in views.values():
                for c in walk_shallow(v.fn):
                    if not (isinstance(c, ast.Call) and isinstance(c.func, ast.Attribute) and c.func.attr == "set" and c.args):
                        continue
                    recv = c.func.value
                    if not ((isinstance(recv, ast.Name) and recv.id == loc.name) or (isinstance(recv, ast.Attribute) and recv.attr == loc.name)):
                        continue
                    val = expand(c.args[0], c)
                    shared = [x.attr for x in ast.walk(val) if isinstance(x, ast.Attribute) and isinstance(x.value, ast.Name) and x.value.id == v.sn and x.attr in plain_attrs
                              and not (isinstance(parent(x), ast.Call) and False)]
                    # `_Resolution(self)` passes the manager itself, which is fine; a *stored* object (self.<attr>) or a module global is shared
                    shared += [x.id for x in ast.walk(val) if isinstance(x, ast.Name) and x.id in plain_globals]
                    chk.ob("C22.R1", f"the value put into ContextVar `{loc.name}` is created per scope (a stored object would be the same for every task)", not shared,
                           m=m, node=c, fn=v.fn, instance=f"taskLocal-shared-value:{loc.name}",
                           reason=f"`{ast.unparse(c)[:70]}` publishes `{shared[0] if shared else ''}`, one object kept on the manager / module, to every task")
            if loc.node is not None and enclosing_function(loc.node) is None:
                _cv_ownership(chk, model, views, loc)
            if loc.kind == "cv" and loc.node is not None and enclosing_function(loc.node) is not None:
                chk.observe(f"C22.R1: ContextVar `{loc.name}` is created per instance; contexts keep ContextVars alive (leak under workflow churn) — outside the statement")
            continue
        if loc.nature == "lock":
            continue
        if loc.name in mediators:
            chk.ob("C22.R1", f"`{loc.name}` is the in-flight table of the create-once protocol (registered before the first suspension, awaited by later callers): shared on purpose", True,
                   m=m, node=loc.node, fn=enclosing_function(loc.node) if loc.node is not None else None, instance=loc.name)
            continue
        fired = False
        locked: set[str] = set()
        for v in views.values():
            if not v.susp:
                continue
            al = _aliases(v.fn, v.sn, loc)
            acc: list[tuple[Node, ast.AST, str]] = []
            for n in v.cfg.nodes:
                if n.ast is None:
                    continue
                for x, k in _occurrences(n, v.sn, loc, al):
                    acc.append((n, x, k))
            if not acc:
                continue
            window = None
            for n1, x1, k1 in acc:
                for n2, x2, k2 in acc:
                    if "W" not in k1 and "W" not in k2:
                        continue
                    if x1 is x2 and n1 not in v.after(n1):
                        continue
                    ss = v.between(n1, n2)
                    if not ss:
                        continue
                    lock, why = _lock_of(x1, x2, model, v.sn, per_key_ok=False)
                    if lock is not None:
                        locked.add(lock)
                        continue
                    cand = (n1, ss[0], n2, k1, k2, why)
                    # prefer the most telling window: a write before the suspension
                    if window is None or ("W" in k1 and "W" not in window[3]):
                        window = cand
            if window is None:
                continue
            fired = True
            n1, s, n2, k1, k2, why = window
            p1 = v.cfg.path(n1, s) if n1 is not s else [n1]
            p2 = v.cfg.path(s, n2) if n2 is not s else []
            chk.ob("C22.R1", f"`{loc.name}` ({loc.kind}) is not kept across a suspension point by `{v.name}` while the manager is shared by concurrent step tasks", False,
                   m=m, node=n1.ast, fn=v.fn, instance=loc.name,
                   reason=(f"`{loc.name}` is {_kw(k1)} at line {n1.line}, the coroutine suspends at line {s.line} (`{' '.join(ast.unparse(s.ast).split())[:60]}`), and it is {_kw(k2)} again at line {n2.line}; "
                           f"another step task runs `{v.name}` on the same object in between" + (f"; {why}" if why else "")),
                   path=_desc(v, p1 + p2[1:]))
        # a lock only protects the window if every other writer of the location takes it too (also plain `def` methods:
        # they run while the lock holder is suspended)
        if locked:
            for v in views.values():
                al = _aliases(v.fn, v.sn, loc)
                for n in v.cfg.nodes:
                    if n.ast is None:
                        continue
                    for x, k in _occurrences(n, v.sn, loc, al):
                        if "W" not in k:
                            continue
                        lk, _why = _lock_of(x, x, model, v.sn, per_key_ok=False)
                        if lk not in locked:
                            fired = True
                            chk.ob("C22.R1", f"every writer of `{loc.name}` holds the lock that protects its await windows", False, m=m, node=x, fn=v.fn,
                                   instance=f"{loc.name}:unlocked-writer",
                                   reason=f"`{v.name}` writes `{loc.name}` at line {n.line} without `async with self.{sorted(locked)[0]}` while another task may be suspended inside the locked window")
        if not fired:
            chk.ob("C22.R1", f"`{loc.name}` ({loc.kind}) is never held across a suspension point (or only under one shared lock / keyed by the current task)", True,
                   m=m, node=loc.node, fn=enclosing_function(loc.node) if loc.node is not None else None, instance=loc.name)
    if floors:
        chk.floor("C22.R1", "state locations examined (instance / class attributes, module state used by the methods; the persistent store is R2's)", examined + 1, 1)


def _cv_ownership(chk, model: Model, views: dict[str, MethodView], loc: Loc) -> None:
    """A module-level ContextVar is shared by every manager, and a task copies the context of the task that created it:
    a step task of workflow B started from inside a resource factory of workflow A starts life with A's resolution record
    in the variable.  A value read from the variable may therefore be *used* (its chain / cache read or written, or the
    scope entered without installing a fresh record) only under a test that it belongs to this manager."""
    m = model.m

    def is_var(e: ast.AST) -> bool:
        return (isinstance(e, ast.Name) and e.id == loc.name) or (isinstance(e, ast.Attribute) and e.attr == loc.name)

    # the owner field: `VAR.set(R(self))` with R.__init__ storing that parameter
    owner: str | None = None
    ctor_known = False
    sets = []
    for v in views.values():
        for c in walk_shallow(v.fn):
            if isinstance(c, ast.Call) and isinstance(c.func, ast.Attribute) and c.func.attr == "set" and is_var(c.func.value) and c.args:
                sets.append((v, c))
                val = expand(c.args[0], c)
                if isinstance(val, ast.Call) and isinstance(val.func, ast.Name) and val.func.id in m.classes:
                    ctor_known = True
                    rinit = m.functions.get(f"{val.func.id}.__init__")
                    idx = next((i for i, a in enumerate(val.args) if isinstance(a, ast.Name) and a.id == v.sn), None)
                    if rinit is not None and idx is not None and len(rinit.args.args) > idx + 1:
                        pname = rinit.args.args[idx + 1].arg
                        rs = _self_name(rinit)
                        for st in walk_shallow(rinit):
                            if isinstance(st, (ast.Assign, ast.AnnAssign)) and st.value is not None and isinstance(st.value, ast.Name) and st.value.id == pname:
                                t = st.targets[0] if isinstance(st, ast.Assign) else st.target
                                if isinstance(t, ast.Attribute) and isinstance(t.value, ast.Name) and t.value.id == rs:
                                    owner = t.attr
    if not sets:
        return
    if not ctor_known and not any(isinstance(expand(c.args[0], c), ast.Call) for _v, c in sets):
        return  # a stored object is published (reported by taskLocal-shared-value); nothing is created per scope
    if not ctor_known:
        raise AnchorError(f"C22.R1: the value stored in `{loc.name}` is not an instance of a class of {m.rel}: ownership of an inherited value cannot be decided for this idiom")
    sites = 0
    # scope methods (@contextmanager) of the class that install a record: inside `with self.<scope>()` the record is this manager's
    # provided every yield of the scope is itself owner-established (checked below like any other use)
    scopes = {v.name for v, _c in sets if _is_cm(v.fn)}

    def only_called_inside_scope(name: str) -> bool:
        """Every call `self.<name>(…)` in the class sits inside a `with self.<scope>()` body, or inside `name` itself
        (recursion through the established invariant)."""
        calls = 0
        for vv in views.values():
            for c in ast.walk(vv.fn):
                if isinstance(c, ast.Call) and isinstance(c.func, ast.Attribute) and c.func.attr == name and isinstance(c.func.value, ast.Name) and c.func.value.id == vv.sn:
                    calls += 1
                    if vv.name == name:
                        continue
                    inside = any(isinstance(w, (ast.With, ast.AsyncWith)) and any(isinstance(i.context_expr, ast.Call) and isinstance(i.context_expr.func, ast.Attribute)
                                 and i.context_expr.func.attr in scopes and isinstance(i.context_expr.func.value, ast.Name) and i.context_expr.func.value.id == vv.sn for i in w.items)
                                 for w in ancestors(c))
                    if not inside:
                        return False
        return calls > 0 and name.startswith("_")

    for v in views.values():
        gets = [c for c in walk_shallow(v.fn) if isinstance(c, ast.Call) and isinstance(c.func, ast.Attribute) and c.func.attr == "get" and is_var(c.func.value)]
        if not gets:
            continue
        if v.name not in scopes and only_called_inside_scope(v.name):
            sites += 1
            chk.ob("C22.R1", f"{v.name}: runs only inside `with self.<scope>()`, where the record in the task context is this manager's own", True, m=m, node=v.fn, fn=v.fn,
                   instance=f"inherited-record-owner:{v.name}:scoped")
            continue
        aliases = set()
        for g in gets:
            p_ = parent(g)
            if isinstance(p_, (ast.Assign, ast.AnnAssign)):
                t = p_.targets[0] if isinstance(p_, ast.Assign) else p_.target
                if isinstance(t, ast.Name):
                    aliases.add(t.id)
        set_nodes = [n for vv, c in sets if vv is v for n in v.cfg.node_of_containing(c)]
        get_nodes = [n for g in gets for n in v.cfg.node_of_containing(g)]
        after_get_no_set = v.cfg.reach(get_nodes, blocked=set_nodes, labels_excluded=NOEXC)
        uses: list[tuple[Node, str]] = []
        for n in v.cfg.nodes:
            if n.ast is None or n not in after_get_no_set:
                continue
            for x in exprs_in_node(n):
                if isinstance(x, ast.Attribute) and isinstance(x.value, ast.Name) and x.value.id in aliases and x.attr != owner and n.kind != "test":
                    uses.append((n, f"reads `{x.value.id}.{x.attr}`"))
                    break
                if isinstance(x, (ast.Yield, ast.YieldFrom)):
                    uses.append((n, "enters the scope without installing a record of its own"))
                    break
        for n, what in uses:
            sites += 1
            facts = facts_at(v.cfg, n, expand_locals=True, labels_excluded=NOEXC)
            if owner is None:
                ok = False
                why = f"the record stored in `{loc.name}` does not say which manager created it"
            else:
                names = aliases or {f"{loc.name}.get()"}
                ok = any(has_fact(facts, f"{a}.{owner} is {v.sn}") for a in names)
                why = f"no `<record>.{owner} is {v.sn}` test on the path"
            chk.ob("C22.R1", f"{v.name}: a resolution record taken from the task context is used only if it belongs to this manager (a task inherits the context, "
                   f"hence the record, of the task that created it)", ok, m=m, node=n.ast, fn=v.fn, instance=f"inherited-record-owner:{v.name}",
                   reason=f"{v.name} {what} — {why}: step tasks of a workflow started inside a resource factory of another workflow share that workflow's cycle chain and non-cached values "
                          f"(false `Circular resource dependency`, stale non-cached resources)")
    chk.floor("C22.R1", f"uses of a record read from `{loc.name}`", sites, 1)


def _kw(k: str) -> str:
    return {"R": "read", "W": "written", "RW": "read and written"}[k]


# ------------------------------------------------------------------------------------------- R2


def _writes_store_directly(fn: ast.AST, store: str) -> bool:
    sn = _self_name(fn)
    loc = Loc("attr", store, None)
    cfg = CFG(fn)
    return any("W" in k for n in cfg.nodes if n.ast is not None for _x, k in _occurrences(n, sn, loc, set()))


def _reads_loc(e: ast.AST, sn: str | None, name: str) -> bool:
    return any(isinstance(x, ast.Attribute) and x.attr == name and isinstance(x.value, ast.Name) and x.value.id == sn for x in ast.walk(e))


def _r2(chk, model: Model, views: dict[str, MethodView], store: str) -> set[str]:
    """Returns the names of in-flight tables accepted as the create-once mediator (R1 does not treat them as per-resolution state)."""
    m = model.m
    mediators: set[str] = set()
    sloc = next(l for l in model.locs if l.name == store)
    helpers = {n for n, f in model.methods.items() if n != "__init__" and _writes_store_directly(f, store)}
    sites = impls_seen = classified = 0
    for v in views.values():
        if not isinstance(v.fn, ast.AsyncFunctionDef):
            continue
        cfg = v.cfg
        wnodes = []
        for n in cfg.nodes:
            if n.ast is None:
                continue
            direct = any("W" in k for _x, k in _occurrences(n, v.sn, sloc, _aliases(v.fn, v.sn, sloc)))
            via = any(isinstance(c, ast.Call) and isinstance(c.func, ast.Attribute) and isinstance(c.func.value, ast.Name) and c.func.value.id == v.sn and c.func.attr in helpers
                      for c in exprs_in_node(n))
            if direct or via:
                wnodes.append(n)
        for w in wnodes:
            pre = [s for s in v.susp if s is not w and w in v.after(s)]
            if not pre:
                continue  # nothing can interleave between the caller's decision and this write inside this coroutine
            sites += 1
            tests = []
            for t, lab in cfg.guards(w):
                if t.kind != "test":
                    continue
                if any(_reads_loc(variant, v.sn, store) for variant in (t.ast.test, expand(t.ast.test, t.ast))):
                    tests.append((t, lab))
            verdict, reason, path = False, "", []
            w_locked = any(isinstance(a, ast.AsyncWith) for a in ancestors(w.ast))
            mode = "lock-excludes-test" if w_locked else "unlocked"
            if not tests:
                mode = "unchecked"
                reason = f"`{store}` is written after a suspension with no membership test on it: the last finisher overwrites (two tasks both create the resource)"
            for t, lab in tests:
                starts = [x for l2, x in cfg.succ[t] if l2 == lab]
                mid = [s for s in v.susp if s is not w and any(s is x or s in v.after(x) for x in starts) and w in v.after(s)]
                if not mid:
                    verdict = True
                    break
                lock, why = _lock_of(t.ast, w.ast, model, v.sn, per_key_ok=True)
                if lock is not None:
                    verdict = True
                    break
                med, late = _inflight(model, v, t, lab, mid, store)
                if med is not None:
                    mediators.add(med)
                    verdict = True
                    break
                if late is not None:
                    mode = "inflight-registered-late"
                    mediators.add(late)
                p = cfg.path(t, mid[0]) + cfg.path(mid[0], w)[1:]
                path = _desc(v, p)
                reason = (f"`{' '.join(ast.unparse(t.ast.test).split())[:70]}` (line {t.line}) is decided before the coroutine suspends at line {mid[0].line} and `{store}` is written at line {w.line}: "
                          f"two step tasks can both see the resource missing and both create it ("
                          + ("the write is under a lock but the test is not repeated inside it" if w_locked else "no lock around test+write, no awaited in-flight entry") + ")")
            chk.ob("C22.R2", f"a cached resource is created once: the test on `{store}` and the write that follows a suspension are atomic, locked, or mediated by an awaited in-flight entry",
                   verdict, m=m, node=w.ast, fn=v.fn, instance=f"create-once:{store}" + ("" if verdict else f":{mode}"), reason=reason, path=path)
            if not verdict and tests:
                # the window is open: *which* resources it can duplicate is part of the finding (kept as an obligation of its own,
                # so that a recorded finding about coroutine factories does not cover a window that sync factories suspend in too)
                open_mid: list[Node] = []
                for t, lab in tests:
                    starts = [x for l2, x in cfg.succ[t] if l2 == lab]
                    for s in v.susp:
                        if s is not w and s not in open_mid and any(s is x or s in v.after(x) for x in starts) and w in v.after(s):
                            open_mid.append(s)
                ni, ns = _window_factory_kinds(chk, model, v, w, tests[0][0], open_mid, store)
                impls_seen += ni
                classified += ns
    chk.floor("C22.R2", f"writes of the persistent store `{store}` that can follow a suspension point", sites, 1)
    if impls_seen:
        chk.floor("C22.R2", "descriptor implementations of the method awaited inside an open create-once window (`<descriptor>.resolve(self)`)", impls_seen, 2)
        chk.floor("C22.R2", "suspension points classified inside them (factory await under a coroutine-function test, re-entrant dependency resolution)", classified, 2)
    return mediators


def _inflight(model: Model, v: MethodView, t: Node, lab: str, mid: list[Node], store: str) -> tuple[str | None, str | None]:
    """In-flight idiom: between the store test and the first suspension a shared table F is written, and a test on F that
    dominates that write awaits the pending entry on its hit branch (and does not raise there)."""
    cfg = v.cfg
    late = None
    starts = [x for l2, x in cfg.succ[t] if l2 == lab]
    for loc in model.locs:
        if loc.kind not in ("attr", "classattr") or loc.name == store or loc.nature != "plain":
            continue
        fw = [n for n in cfg.nodes if n.ast is not None and any("W" in k for _x, k in _occurrences(n, v.sn, loc, set()))
              and any(n is x or n in v.after(x) for x in starts)]
        early = [n for n in fw if not any(s is not n and n in v.after(s) and any(s is x or s in v.after(x) for x in starts) for s in v.susp)]
        if fw and (not early or cfg.must_pass(starts, mid, early)) and _awaited_somewhere(v, loc.name):
            late = late or loc.name  # a pending-entry table exists, but a suspension is reachable before the entry is registered
        fw = early
        if not fw:
            continue
        if cfg.must_pass(starts, mid, fw):
            continue  # a suspension is reachable without registering
        for n in fw:
            for tf, lf in cfg.guards(n):
                if tf.kind != "test" or not any(_reads_loc(e, v.sn, loc.name) for e in (tf.ast.test, expand(tf.ast.test, tf.ast))):
                    continue
                other = [x for l2, x in cfg.succ[tf] if l2 in ("T", "F") and l2 != lf]
                hit = cfg.reach(other, blocked=[n], labels_excluded=NOEXC)
                awaits = [h for h in hit if h.ast is not None and any(isinstance(x, ast.Await) and _reads_loc(x, v.sn, loc.name) or
                                                                       (isinstance(x, ast.Await) and _awaits_alias_of(v.fn, x, v.sn, loc.name)) for x in exprs_in_node(h))]
                raises_first = any(h.kind == "stmt" and isinstance(h.ast, ast.Raise) for l2, h in [(None, o) for o in other]) or \
                    any(isinstance(h.ast, ast.Raise) and not awaits for h in hit if h.ast is not None)
                if awaits and not raises_first:
                    return loc.name, None
    return None, late


def _awaited_somewhere(v: MethodView, name: str) -> bool:
    return any(isinstance(x, ast.Await) and (_reads_loc(x, v.sn, name) or _awaits_alias_of(v.fn, x, v.sn, name)) for x in walk_shallow(v.fn))


def _awaits_alias_of(fn: ast.AST, aw: ast.Await, sn: str | None, name: str) -> bool:
    for x in ast.walk(aw.value):
        if isinstance(x, ast.Name):
            d = expand(x, aw)
            if _reads_loc(d, sn, name):
                return True
            # walrus / plain assignment from the table earlier in the function
            for s in walk_shallow(fn):
                if isinstance(s, (ast.Assign, ast.NamedExpr)) and s.value is not None and _reads_loc(s.value, sn, name):
                    tg = s.targets[0] if isinstance(s, ast.Assign) else s.target
                    if isinstance(tg, ast.Name) and tg.id == x.id:
                        return True
    return False


# --------------------------------------------------------------- R2: which factories suspend inside an open window

ASYNC_TESTS = ("iscoroutinefunction", "isawaitable", "iscoroutine")
AWAITABLE_TYPES = ("Awaitable", "Coroutine")


def _is_coroutine_test(e: ast.AST) -> bool:
    """`e` holds only for a factory that is a coroutine function / a result that is awaitable."""
    if isinstance(e, ast.Call):
        if last(call_name(e)) in ASYNC_TESTS:
            return True
        if last(call_name(e)) == "isinstance" and len(e.args) == 2:
            ts = e.args[1].elts if isinstance(e.args[1], ast.Tuple) else [e.args[1]]
            return bool(ts) and all(last(dotted(t)) in AWAITABLE_TYPES for t in ts)
    return False


def _coroutine_flags(cls: ast.ClassDef) -> set[str]:
    """Attributes of the descriptor class every assignment of which stores the outcome of a coroutine-function test
    (`self._is_async = inspect.iscoroutinefunction(factory)`)."""
    vals: dict[str, list[ast.AST]] = {}
    for f in cls.body:
        if not isinstance(f, FuncNode):
            continue
        sn = _self_name(f)
        for s in walk_shallow(f):
            tgts, val = [], None
            if isinstance(s, ast.Assign):
                tgts, val = s.targets, s.value
            elif isinstance(s, (ast.AnnAssign, ast.AugAssign)):
                tgts, val = [s.target], s.value
            for tg in tgts:
                if isinstance(tg, ast.Attribute) and isinstance(tg.value, ast.Name) and tg.value.id == sn:
                    vals.setdefault(tg.attr, []).append(expand(val, s) if val is not None and not isinstance(s, ast.AugAssign) else ast.Constant(value=None))
    return {a for a, vs in vals.items() if vs and all(_is_coroutine_test(x) for x in vs)}


def _factory_kind(cfg: CFG, n: Node, sn: str | None, flags: set[str]) -> str:
    """'async' when the node runs only for a coroutine factory, 'sync' when only for a non-coroutine one, 'any' otherwise."""
    for text, pol in facts_at(cfg, n, expand_locals=True, labels_excluded=NOEXC):
        try:
            e = ast.parse(text, mode="eval").body
        except SyntaxError:
            continue
        hit = _is_coroutine_test(e) or (isinstance(e, ast.Attribute) and isinstance(e.value, ast.Name) and e.value.id == sn and e.attr in flags)
        if hit:
            return "async" if pol else "sync"
    return "any"


def _descriptor_suspensions(model: Model, cls: ast.ClassDef, fn: ast.AST, mgr: set[str], ctx: str, seen: set[str], out: list) -> None:
    """Suspension points of a descriptor method and of the methods of its class it awaits.  Each is recorded as
    (class, method, ast node, kind) with kind 'reentrant' (awaits the manager again / hands it on: suspends only if a
    dependency does), 'async' (runs only for a coroutine factory), 'sync' or 'any'."""
    if not isinstance(fn, ast.AsyncFunctionDef) or fn.name in seen:
        return  # a plain `def` runs to completion: it cannot suspend the task
    seen = seen | {fn.name}
    sn = _self_name(fn)
    own = {f.name: f for f in cls.body if isinstance(f, FuncNode)}
    flags = _coroutine_flags(cls)
    mgr_coros = {k for k, f in model.methods.items() if isinstance(f, ast.AsyncFunctionDef)}
    cfg = CFG(fn)
    for n in cfg.nodes:
        if n.ast is None:
            continue
        kind = None
        if n.kind in ("with", "iter") and isinstance(n.ast, (ast.AsyncWith, ast.AsyncFor)):
            kind = _factory_kind(cfg, n, sn, flags) if ctx == "any" else ctx
            out.append((cls.name, fn.name, n.ast, kind))
        for x in exprs_in_node(n):
            if not isinstance(x, ast.Await):
                continue
            kind = _factory_kind(cfg, n, sn, flags) if ctx == "any" else ctx
            c = x.value
            if isinstance(c, ast.Call):
                args = list(c.args) + [k.value for k in c.keywords]
                passed = [a for a in args if isinstance(expand(a, x), ast.Name) and expand(a, x).id in mgr]
                if isinstance(c.func, ast.Attribute) and isinstance(c.func.value, ast.Name) and c.func.value.id == sn and c.func.attr in own:
                    callee = own[c.func.attr]
                    names = [a.arg for a in callee.args.posonlyargs + callee.args.args][1:]
                    cm = set()
                    for i, a in enumerate(c.args):
                        if a in passed and i < len(names):
                            cm.add(names[i])
                    for k in c.keywords:
                        if k.value in passed and k.arg:
                            cm.add(k.arg)
                    _descriptor_suspensions(model, cls, callee, cm, kind, seen, out)
                    continue
                recv = expand(c.func.value, x) if isinstance(c.func, ast.Attribute) else None
                if isinstance(recv, ast.Name) and recv.id in mgr and c.func.attr in mgr_coros:
                    out.append((cls.name, fn.name, x, "reentrant"))
                    continue
                if passed:
                    out.append((cls.name, fn.name, x, "reentrant"))
                    continue
            out.append((cls.name, fn.name, x, kind))


def _window_factory_kinds(chk, model: Model, v: MethodView, w: Node, t: Node, mid: list[Node], store: str) -> tuple[int, int]:
    """The create-once window `test on store -> suspension -> write` of `v` is open (no lock, no awaited in-flight entry).
    It duplicates exactly the resources whose creation *suspends* inside it.  Decide whether that set is limited to
    coroutine factories (what the window is recorded for) or contains sync factories as well."""
    m, repo = model.m, model.repo
    offenders: list[tuple[str, ast.AST, str]] = []
    impls = classified = 0
    for s in mid:
        if s.kind in ("with", "iter") and isinstance(s.ast, (ast.AsyncWith, ast.AsyncFor)):
            offenders.append((f"{CLS}.{v.name}", s.ast, "any"))
            continue
        for x in exprs_in_node(s):
            if not isinstance(x, ast.Await) or not v._may_suspend(x):
                continue
            c = x.value
            disp = isinstance(c, ast.Call) and isinstance(c.func, ast.Attribute) and not (isinstance(c.func.value, ast.Name) and c.func.value.id == v.sn) \
                and any(isinstance(a, ast.Name) and a.id == v.sn for a in list(c.args) + [k.value for k in c.keywords])
            if not disp:
                if isinstance(c, ast.Call) and isinstance(c.func, ast.Attribute) and isinstance(c.func.value, ast.Name) and c.func.value.id == v.sn and c.func.attr in model.methods:
                    continue  # the manager's own coroutine (recursion into this window): classified where it is defined
                offenders.append((f"{CLS}.{v.name}", x, "any"))
                continue
            meth = c.func.attr
            found = []
            for _ref, cm, cdef in repo.all_classes():
                if not (cm.name == PKG or cm.name.startswith(PKG + ".")):
                    continue
                f = next((b for b in cdef.body if isinstance(b, FuncNode) and b.name == meth), None)
                if f is None or any(last(dotted(b)) == "Protocol" for b in cdef.bases):
                    continue
                found.append((cm, cdef, f))
            if not found:
                raise AnchorError(f"C22.R2: no class of `{PKG}` implements `{meth}` awaited inside the create-once window of {v.name} (unrecognised idiom)")
            for cm, cdef, f in found:
                impls += 1
                chk.note_fn(cm, f)
                names = [a.arg for a in f.args.posonlyargs + f.args.args][1:]
                mgr = {names[i] for i, a in enumerate(c.args) if isinstance(a, ast.Name) and a.id == v.sn and i < len(names)}
                mgr |= {k.arg for k in c.keywords if isinstance(k.value, ast.Name) and k.value.id == v.sn and k.arg}
                got: list = []
                _descriptor_suspensions(model, cdef, f, mgr, "any", set(), got)
                classified += len(got)
                for cname, fname, node, kind in got:
                    if kind in ("sync", "any"):
                        offenders.append((f"{cname}.{fname}", node, kind))
    ok = not offenders
    reason = ""
    node = w.ast
    if offenders:
        where, node0, kind = offenders[0]
        txt = " ".join(ast.unparse(node0).split())[:80] if not isinstance(node0, (ast.AsyncWith, ast.AsyncFor)) else f"async {'with' if isinstance(node0, ast.AsyncWith) else 'for'} …"
        if module_of(node0) is m:
            node = node0
        reason = (f"sync factories suspend inside the unlocked create-once window: `{txt}` ({where}, line {node0.lineno}) is reached "
                  + ("when the factory is *not* a coroutine function" if kind == "sync" else "whatever the kind of factory")
                  + f", and it lies between `{' '.join(ast.unparse(t.ast.test).split())[:60]}` (line {t.line}) and the write of `{store}` (line {w.line}) of {v.name}: every step task that arrives meanwhile also finds the "
                  f"resource missing and runs the factory again, so a cached sync-factory resource is created several times and the steps get different objects.  "
                  f"Call sync factories inline, or close the window (per-name lock with a re-check, or an awaited in-flight entry)"
                  + (f"; {len(offenders) - 1} more such suspension point(s)" if len(offenders) > 1 else ""))
    chk.ob("C22.R2", f"while the create-once window on `{store}` is open, only a coroutine factory can suspend inside it: every suspension point reachable through the awaited "
           f"descriptor method is the await of a factory tested to be a coroutine function, or the re-entrant resolution of a dependency; sync factories run inline "
           f"(a cached sync-factory resource is then created atomically with respect to the other step tasks)", ok,
           m=m, node=node, fn=v.fn, instance=f"create-once:{store}:sync-factory-inline", reason=reason)
    return impls, classified


# ------------------------------------------------------------------------------------------- R5


def _cycle_tests(views: dict[str, MethodView]) -> list[tuple[MethodView, Node, str, str]]:
    """Cycle tests: `K in CHAIN` guarding a raise -> (method view, test node, text of K, text of CHAIN).
    CHAIN is the canonical spelling of the container (a local that is another name of the same object path for the whole
    call is replaced by that path: MethodView.canon), so that test, push and pop meet on one text whichever spelling each uses."""
    cyc = []
    for v in views.values():
        cfg = v.cfg
        for n in cfg.nodes:
            if n.kind == "stmt" and isinstance(n.ast, ast.Raise):
                for t, lab in cfg.guards(n):
                    if t.kind != "test":
                        continue
                    for text, pol in atoms(t.ast.test, lab == "T"):
                        e = ast.parse(text, mode="eval").body
                        if pol and isinstance(e, ast.Compare) and len(e.ops) == 1 and isinstance(e.ops[0], ast.In):
                            cyc.append((v, t, ast.unparse(e.left), v.canon(e.comparators[0])))
    return list({(id(v), id(t)): (v, t, k, c) for v, t, k, c in cyc}.values())


def _positional(e: ast.AST | None) -> bool:
    """An index, not a key (`pop()`, `pop(-1)`, `del chain[-1]`)."""
    if e is None:
        return True
    if isinstance(e, ast.UnaryOp) and isinstance(e.op, ast.USub):
        e = e.operand
    return isinstance(e, ast.Constant) and isinstance(e.value, int)


def _chain_ops(v: MethodView, chain: str) -> tuple[list, list]:
    """Pushes on / pops from the cycle chain in one method.
    push = (cfg node, anchor ast, key expression, text of the operation); a keyed table counts too (`chain[K] = v`).
    pop  = (cfg node, key expression or None when the pop is positional (`pop()`, `del chain[-1]`))."""
    pushes, pops = [], []
    for n in v.cfg.nodes:
        if n.ast is None:
            continue
        for c in exprs_in_node(n):
            if isinstance(c, ast.Call) and isinstance(c.func, ast.Attribute) and v.canon(c.func.value) == chain:
                if c.func.attr in ("append", "add", "insert", "appendleft"):
                    pushes.append((n, c, c.args[-1] if c.args else None, f"{chain}.{c.func.attr}({ast.unparse(c.args[-1]) if c.args else ''})"))
                if c.func.attr in ("remove", "pop", "discard", "popleft"):
                    k = c.args[0] if c.args else None
                    pops.append((n, None if (c.func.attr in ("pop", "popleft") and _positional(k)) else k))
        if n.kind == "stmt" and isinstance(n.ast, ast.Assign):
            for tg in n.ast.targets:
                if isinstance(tg, ast.Subscript) and v.canon(tg.value) == chain:
                    pushes.append((n, n.ast, tg.slice, f"{chain}[{ast.unparse(tg.slice)}] = …"))
        if isinstance(n.ast, ast.Delete):
            for tg in n.ast.targets:
                if isinstance(tg, ast.Subscript) and v.canon(tg.value) == chain:
                    pops.append((n, None if _positional(tg.slice) else tg.slice))
    return pushes, pops


def _r5(chk, model: Model, views: dict[str, MethodView], store: str) -> None:
    m = model.m
    cyc = _cycle_tests(views)
    chk.floor("C22.R5", "cycle tests (`<key> in <chain>` guarding a raise)", len(cyc), 1)
    for v, t, key, chain in cyc:
        cfg = v.cfg
        functional = []
        pushes, keyed_pops = _chain_ops(v, chain)
        pops = [n for n, _k in keyed_pops]
        for c in walk_shallow(v.fn):
            if isinstance(c, ast.Call) and any(isinstance(a, (ast.BinOp, ast.Tuple, ast.List)) and key in ast.unparse(a)
                                               and (chain in ast.unparse(a) or any(isinstance(x, (ast.Name, ast.Attribute)) and v.canon(x) == chain for x in ast.walk(a)))
                                               for a in list(c.args) + [k.value for k in c.keywords]):
                functional.append(c)
        if not pushes and not functional:
            raise AnchorError(f"C22.R5: the cycle chain `{chain}` is tested in {v.name} but never extended (unrecognised idiom)")
        for c in functional:
            chk.ob("C22.R5", f"the chain `{chain}` is extended functionally with the tested key (nothing to pop)", True, m=m, node=c, fn=v.fn, instance="chain-functional")
        reentrant = [s for s in v.susp if any(isinstance(x, ast.Await) and isinstance(x.value, ast.Call) and
                                               any(isinstance(a, ast.Name) and a.id == v.sn for a in list(x.value.args) + [k.value for k in x.value.keywords]) for x in exprs_in_node(s))]
        for n, c, karg, optext in pushes:
            arg = ast.unparse(karg) if karg is not None else ""
            facts = set(v.canon_atoms(facts_at(cfg, n)))
            ok = arg == key and has_fact(facts, f"{key} in {chain}", False)
            chk.ob("C22.R5", f"the key pushed on the cycle chain was tested absent from it (`{key} in {chain}` is false on every path to the push)", ok,
                   m=m, node=c, fn=v.fn, instance="cycle-test-dominates-push",
                   reason=f"`{optext}` is reachable without `{key} in {chain}` being known false: a genuine cycle through such a resource recurses instead of being reported")
            starts = [x for lab, x in cfg.succ[n] if lab not in NOEXC]
            absent = []
            want = atoms(ast.parse(f"{key} in {chain}", mode="eval").body, False)
            for tt in [x for x in cfg.nodes if x.kind == "test"]:
                for lab in ("T", "F"):
                    if all(w in v.canon_atoms(atoms(tt.ast.test, lab == "T")) for w in want):
                        absent.append((tt, lab))
            r = _reach_user_exc(v, starts, pops, absent)
            leaks = [x for x in (cfg.exit, cfg.raise_exit) if x in r]
            p = cfg.path(starts[0], leaks[0], blocked=pops) if leaks and starts else []
            chk.ob("C22.R5", "every push on the cycle chain is popped on every exit, also when the factory raises or the task is cancelled", not leaks,
                   m=m, node=c, fn=v.fn, instance="chain-push-pop",
                   reason="a name can stay on the chain after the coroutine left (a later resolution of that resource reports a false cycle)", path=_desc(v, p))
        push_nodes = [p_[0] for p_ in pushes]
        if pushes:
            chk.floor("C22.R5", "re-entrant awaits (the manager itself is passed to the awaited callee)", len(reentrant), 1)
        for s in reentrant:
            if not push_nodes:
                continue
            un = cfg.must_pass([cfg.entry], [s], push_nodes)
            chk.ob("C22.R5", "the resource is on the cycle chain while its factory / dependencies are being resolved", not un, m=m, node=s.ast, fn=v.fn,
                   instance="push-before-reentry", reason="the re-entrant await is reachable before the name was pushed: a cycle recurses without being detected")

    # scope generators: set-up before yield is undone on every exit
    cms = [v for v in views.values() if _is_cm(v.fn)]
    chk.floor("C22.R5", "resolution scope generators", len(cms), 1)
    depth_attr = None
    for v in cms:
        cfg = v.cfg
        yields = [n for n in cfg.nodes if n.ast is not None and any(isinstance(x, ast.Yield) for x in exprs_in_node(n))]
        setups = []
        for n in cfg.nodes:
            s = n.ast
            if n.kind != "stmt" or s is None or not any(y in cfg.reach([n], include_starts=False) for y in yields):
                continue
            if isinstance(s, ast.AugAssign) and isinstance(s.op, (ast.Add, ast.Sub)) and isinstance(s.target, ast.Attribute):
                setups.append((n, "aug", ast.unparse(s.target), type(s.op)))
                depth_attr = depth_attr or s.target.attr
            elif isinstance(s, ast.Assign) and isinstance(s.value, ast.Call) and isinstance(s.value.func, ast.Attribute) and s.value.func.attr == "set" \
                    and len(s.targets) == 1 and isinstance(s.targets[0], ast.Name):
                setups.append((n, "token", ast.unparse(s.value.func.value), s.targets[0].id))
            elif isinstance(s, (ast.Assign, ast.AugAssign)) and any(isinstance(tg, (ast.Attribute, ast.Subscript)) for tg in (s.targets if isinstance(s, ast.Assign) else [s.target])):
                raise AnchorError(f"C22.R5: `{ast.unparse(s)[:60]}` before the yield of {v.name} is a set-up the rule does not understand")
        if not setups:
            # a scope that sets nothing up has nothing to undo; it must then not be a scope at all
            raise AnchorError(f"C22.R5: scope generator {v.name} performs no recognised set-up before its yield")
        for n, kind, target, extra in setups:
            if kind == "token":
                nested_ok = False
                for t, _lab in cfg.guards(n):
                    if t.kind != "test":
                        continue
                    for variant in (t.ast.test, expand(t.ast.test, t.ast)):
                        if any(isinstance(c, ast.Call) and isinstance(c.func, ast.Attribute) and c.func.attr == "get" and ast.unparse(c.func.value) == target for c in ast.walk(variant)):
                            nested_ok = True
                chk.ob("C22.R5", "a nested scope of the same task keeps the outer resolution (a fresh one is installed only when none of this manager is active)", nested_ok,
                       m=m, node=n.ast, fn=v.fn, instance="scope-nesting",
                       reason=f"`{' '.join(ast.unparse(n.ast).split())[:60]}` is not guarded by a test of `{target}.get()`: every nested get() starts with an empty chain and cache "
                              "(a genuine cycle recurses instead of being reported; non-cached dependencies are no longer shared within one resolution)")
            undo = []
            for u in cfg.nodes:
                s = u.ast
                if u.kind != "stmt" or s is None:
                    continue
                if kind == "aug" and isinstance(s, ast.AugAssign) and ast.unparse(s.target) == target and isinstance(s.op, (ast.Add, ast.Sub)) and type(s.op) is not extra:
                    undo.append(u)
                if kind == "token" and any(isinstance(c, ast.Call) and isinstance(c.func, ast.Attribute) and c.func.attr == "reset" and ast.unparse(c.func.value) == target
                                           and c.args and isinstance(c.args[0], ast.Name) and c.args[0].id == extra for c in exprs_in_node(u)):
                    undo.append(u)
            ys = [y for y in yields if y in cfg.reach([n], include_starts=False)]
            starts = [x for y in ys for _lab, x in cfg.succ[y]]
            r = _reach_user_exc(v, starts, undo)
            leaks = [x for x in (cfg.exit, cfg.raise_exit) if x in r]
            chk.ob("C22.R5", f"what the resolution scope sets up (`{' '.join(ast.unparse(n.ast).split())[:50]}`) is undone on every exit of the `with` body, also when it raises", not leaks,
                   m=m, node=n.ast, fn=v.fn, instance=f"scope-balance:{kind}",
                   reason="the scope can be left without the undo (after a failing step the per-resolution state is never released: non-cached resources are no longer fresh per step)")
        # shared per-resolution cache cleared at depth zero
        for loc in model.locs:
            if loc.kind not in ("attr", "classattr") or loc.name == store or loc.nature != "plain" or not isinstance(loc.init, (ast.Dict, ast.Call)):
                continue
            # the per-resolution cache: a table in which a coroutine stores a value it obtained from an await (the resolved resource)
            getter_writes = False
            for vv in views.values():
                if not isinstance(vv.fn, ast.AsyncFunctionDef):
                    continue
                awaited = {tg.id for s_ in walk_shallow(vv.fn) if isinstance(s_, ast.Assign) and isinstance(s_.value, ast.Await) for tg in s_.targets if isinstance(tg, ast.Name)}
                for s_ in walk_shallow(vv.fn):
                    if isinstance(s_, ast.Assign) and isinstance(s_.value, ast.Name) and s_.value.id in awaited:
                        for tg in s_.targets:
                            if isinstance(tg, ast.Subscript) and _reads_loc(tg.value, vv.sn, loc.name):
                                getter_writes = True
            if not getter_writes:
                continue
            clears = [u for u in cfg.nodes if u.ast is not None and any(
                (isinstance(c, ast.Call) and isinstance(c.func, ast.Attribute) and c.func.attr == "clear" and _reads_loc(c.func.value, v.sn, loc.name)) for c in exprs_in_node(u))]
            clears += [u for u in cfg.nodes if u.kind == "stmt" and isinstance(u.ast, ast.Assign) and any(isinstance(tg, ast.Attribute) and tg.attr == loc.name for tg in u.ast.targets)]
            nonzero = []
            if depth_attr is not None:
                for tt in [x for x in cfg.nodes if x.kind == "test"]:
                    for lab in ("T", "F"):
                        for text, pol in atoms(tt.ast.test, lab == "T"):
                            e = ast.parse(text, mode="eval").body
                            if isinstance(e, ast.Compare) and depth_attr in text and isinstance(e.ops[0], ast.Eq) and any(isinstance(c, ast.Constant) and c.value == 0 for c in [e.left] + e.comparators) and not pol:
                                nonzero.append((tt, lab))
            starts = [x for y in yields for _lab, x in cfg.succ[y]]
            r = _reach_user_exc(v, starts, clears, nonzero)
            leaks = [x for x in (cfg.exit, cfg.raise_exit) if x in r]
            chk.ob("C22.R5", f"the per-resolution cache `{loc.name}` kept on the instance is cleared on every exit of the outermost scope (non-cached resources are fresh per step invocation)",
                   not leaks, m=m, node=loc.node, fn=v.fn, instance=f"scope-clears:{loc.name}",
                   reason=f"the scope can be left at depth zero without clearing `{loc.name}`: a non-cached resource is then reused by later step invocations")


# ------------------------------------------------------------------------------------------- R6: identity of a resource on the cycle chain

# calls whose value differs from one object / one evaluation to the next
IDENTITY_CALLS = ("id", "object", "uuid1", "uuid4", "urandom", "token_hex", "token_urlsafe", "token_bytes", "random", "randint", "randrange", "getrandbits",
                  "time", "time_ns", "monotonic", "monotonic_ns", "perf_counter", "perf_counter_ns", "get_ident", "count")
# calls that evaluate annotation text anew each time they are called
REEVAL_CALLS = ("get_type_hints", "get_annotations", "eval", "_eval_type", "evaluate_forward_ref")
CACHE_DECORATORS = ("lru_cache", "cache", "cached_property", "memoize")
VALUE_DUNDERS = ("__eq__", "__hash__", "__repr__", "__str__")


def _is_identity_call(c: ast.Call) -> bool:
    nm = last(call_name(c))
    if nm in IDENTITY_CALLS:
        return True
    # `next(_counter)`: the serial-number idiom (not `next(iter(x))`)
    return nm == "next" and len(c.args) == 1 and isinstance(c.args[0], (ast.Name, ast.Attribute))


def _walk_with_parent(e: ast.AST, par: ast.AST | None = None):
    yield e, par
    for ch in ast.iter_child_nodes(e):
        yield from _walk_with_parent(ch, e)


def _descriptor_impls(model: Model, meth: str) -> list[tuple[object, ast.ClassDef]]:
    """Classes of the package that implement the descriptor method the manager awaits re-entrantly (not the Protocol)."""
    out = []
    for _ref, cm, cdef in model.repo.all_classes():
        if not (cm.name == PKG or cm.name.startswith(PKG + ".")):
            continue
        if any(last(dotted(b)) == "Protocol" for b in cdef.bases):
            continue
        if any(isinstance(b, FuncNode) and b.name == meth for b in cdef.body):
            out.append((cm, cdef))
    return out


def _worse(a: tuple[str, str], b: tuple[str, str]) -> tuple[str, str]:
    order = {"identity": 2, "unknown": 1, "stable": 0}
    return a if order[a[0]] >= order[b[0]] else b


def _self_expr_kind(e: ast.AST, cls: ast.ClassDef, sn: str | None, depth: int, seen: frozenset) -> tuple[str, str]:
    """Is the value of `e` (an expression of a method of `cls`) the same for two objects built from the same arguments?
    'identity' : it contains something that differs per object / per evaluation (id(), the object itself, a serial number, a clock);
    'stable'   : nothing of that kind found (constructor arguments, attributes derived from them, pure calls);
    'unknown'  : a construct the rule does not follow."""
    res = ("stable", "")
    for x, par in _walk_with_parent(e):
        if isinstance(x, ast.Call) and _is_identity_call(x):
            return "identity", f"`{ast.unparse(x)[:50]}` differs from one descriptor object to the next"
        if isinstance(x, ast.Name) and x.id == sn and sn is not None:
            if isinstance(par, ast.Attribute) and par.value is x:
                if depth > 0 and par.attr not in seen:
                    k = _attr_kind(cls, par.attr, depth - 1, seen | {par.attr})
                    if k[0] == "missing":
                        k = ("unknown", f"`{sn}.{par.attr}` is not defined in {cls.name}")
                    res = _worse(res, k)
            elif any(isinstance(b, FuncNode) and b.name in VALUE_DUNDERS for b in cls.body):
                res = _worse(res, ("unknown", f"the object `{sn}` itself is used and {cls.name} defines its own equality / text"))
            else:
                return "identity", f"the descriptor object itself (`{sn}`) is part of the value and {cls.name} defines no equality / text of its own"
    return res


def _attr_kind(cls: ast.ClassDef, attr: str, depth: int = 3, seen: frozenset = frozenset()) -> tuple[str, str]:
    """Classify attribute `attr` of descriptor class `cls` over *all* its definitions (assignments in any method, property
    returns, class-level value): 'stable' / 'identity' / 'unknown' as in _self_expr_kind, or 'missing'."""
    defs: list[tuple[ast.AST, ast.AST, str | None, str]] = []
    declared = False
    for b in cls.body:
        if isinstance(b, FuncNode):
            sn = _self_name(b)
            if b.name == attr:
                if any(last(dotted(d) or (call_name(d) if isinstance(d, ast.Call) else None)) in ("property", "cached_property") for d in b.decorator_list):
                    for r in walk_shallow(b):
                        if isinstance(r, ast.Return) and r.value is not None:
                            defs.append((r.value, r, sn, f"{cls.name}.{attr}"))
                    continue
                return "identity", f"`{attr}` is a plain method of {cls.name}: a bound method compares by the identity of its object"
            for s in walk_shallow(b):
                tgts, val = [], None
                if isinstance(s, ast.Assign):
                    tgts, val = s.targets, s.value
                elif isinstance(s, ast.AnnAssign) and s.value is not None:
                    tgts, val = [s.target], s.value
                elif isinstance(s, ast.AugAssign):
                    tgts, val = [s.target], None
                for tg in tgts:
                    if isinstance(tg, ast.Attribute) and tg.attr == attr and isinstance(tg.value, ast.Name) and tg.value.id == sn:
                        if val is None:
                            return "unknown", f"`{sn}.{attr}` is updated in place in {cls.name}.{b.name}"
                        defs.append((val, s, sn, f"{cls.name}.{b.name}"))
        elif isinstance(b, ast.Assign) and any(isinstance(tg, ast.Name) and tg.id == attr for tg in b.targets):
            defs.append((b.value, b, None, cls.name))
        elif isinstance(b, ast.AnnAssign) and isinstance(b.target, ast.Name) and b.target.id == attr:
            declared = True
            if b.value is not None:
                defs.append((b.value, b, None, cls.name))
    if not defs:
        return ("unknown", f"`{attr}` is only declared in {cls.name}") if declared else ("missing", f"{cls.name} has no `{attr}`")
    res = ("stable", "")
    for val, at, sn, where in defs:
        k = _self_expr_kind(expand(val, at), cls, sn, depth, seen)
        if k[0] != "stable":
            k = (k[0], f"{where}: {k[1]}")
        res = _worse(res, k)
    return res


def _key_kind(key: ast.AST, at: ast.AST, dname: str, impls: list[tuple[object, ast.ClassDef]]) -> tuple[str, str]:
    """Classify a key of the cycle chain computed from the descriptor parameter `dname`: does a *re-created* descriptor of the
    same resource give an equal key?"""
    e = expand(key, at)
    res = ("stable", "")
    uses = 0
    names = ", ".join(c.name for _m, c in impls)
    for x, par in _walk_with_parent(e):
        if isinstance(x, ast.Call) and _is_identity_call(x):
            return "identity", f"`{ast.unparse(x)[:50]}` is different for every descriptor object"
        if not (isinstance(x, ast.Name) and x.id == dname):
            continue
        uses += 1
        if isinstance(par, ast.Attribute) and par.value is x:
            for _cm, cdef in impls:
                k = _attr_kind(cdef, par.attr)
                if k[0] == "missing":
                    k = ("unknown", k[1])
                res = _worse(res, k)
            continue
        with_eq = [c.name for _m, c in impls if any(isinstance(b, FuncNode) and b.name in ("__eq__", "__hash__") for b in c.body)
                   or any(last(dotted(d) or (call_name(d) if isinstance(d, ast.Call) else None)) == "dataclass" for d in c.decorator_list)]
        if with_eq:
            res = _worse(res, ("unknown", f"the descriptor object itself is the key and {', '.join(with_eq)} define(s) equality: that equality is not analysed"))
        else:
            return "identity", f"the descriptor object itself is the key and no descriptor class ({names}) defines `__eq__`: membership, `remove` and hashing go by object identity"
    if not uses and res[0] == "stable":
        return "unknown", f"`{ast.unparse(e)[:50]}` is not computed from the descriptor `{dname}`"
    return res


def _memoized(fn: ast.AST, sl) -> bool:
    """The function keeps what it computed (cache decorator, or a value of the slice stored on the object / a table)."""
    if any(last(dotted(d) or (call_name(d) if isinstance(d, ast.Call) else None)) in CACHE_DECORATORS for d in fn.decorator_list):
        return True
    calls = {id(c) for c in sl.calls()}
    for s in walk_shallow(fn):
        tgts, val = [], None
        if isinstance(s, ast.Assign):
            tgts, val = s.targets, s.value
        elif isinstance(s, ast.AnnAssign) and s.value is not None:
            tgts, val = [s.target], s.value
        for tg in tgts:
            base = tg.value if isinstance(tg, ast.Subscript) else tg
            if isinstance(base, ast.Attribute) and val is not None:
                if any((isinstance(x, ast.Name) and x.id in sl.locals) or id(x) in calls for x in ast.walk(val)):
                    return True
    return False


def _reeval_sources(cm, cdef: ast.ClassDef | None, fn: ast.AST, sl, depth: int, seen: frozenset) -> list[str]:
    """Calls in the dependence slice `sl` (of a value of `fn`) that evaluate annotation text anew on every call, followed
    through methods of the same class and functions of the same module (their returned values), unless memoized."""
    out: list[str] = []
    if _memoized(fn, sl):
        return out
    sn = _self_name(fn) if cdef is not None else None
    for c in sl.calls():
        nm = last(call_name(c))
        if nm in REEVAL_CALLS or (nm == "signature" and any(k.arg == "eval_str" and isinstance(k.value, ast.Constant) and k.value.value is True for k in c.keywords)):
            out.append(f"`{' '.join(ast.unparse(c).split())[:70]}` in {qualname_of(fn)}")
            continue
        callee, ccls = None, None
        if isinstance(c.func, ast.Attribute) and isinstance(c.func.value, ast.Name) and c.func.value.id == sn and cdef is not None:
            callee, ccls = next((b for b in cdef.body if isinstance(b, FuncNode) and b.name == c.func.attr), None), cdef
        elif isinstance(c.func, ast.Name) and isinstance(cm.functions.get(c.func.id), FuncNode):
            callee = cm.functions[c.func.id]
        if callee is None or depth <= 0 or id(callee) in seen:
            continue
        for r in walk_shallow(callee):
            if isinstance(r, ast.Return) and r.value is not None:
                out += _reeval_sources(cm, ccls, callee, dep_slice(callee, r.value), depth - 1, seen | {id(callee)})
    return out


def _fresh_descriptor_sources(model: Model, impls: list[tuple[object, ast.ClassDef]]) -> list[str]:
    """Premise of R6, decided from the code: the descriptors a descriptor hands back to the manager (`await <manager>.get(d)` in a
    coroutine of a descriptor class) derive from a call that re-evaluates annotations each time it runs, with no memo in between.
    A dependency written as a string annotation (`from __future__ import annotations`, a quoted forward reference — the only way
    two factories can name each other) is then a *new* descriptor object at every visit."""
    mgr_coros = {k for k, f in model.methods.items() if isinstance(f, ast.AsyncFunctionDef)}
    out: list[str] = []
    for cm, cdef in impls:
        for f in cdef.body:
            if not isinstance(f, ast.AsyncFunctionDef):
                continue
            sn = _self_name(f)
            params = {a.arg for a in f.args.posonlyargs + f.args.args + f.args.kwonlyargs} - {sn}
            for c in walk_shallow(f):
                # awaited in place or handed to gather / create_task: the coroutine of the manager is started with this descriptor
                if not (isinstance(c, ast.Call) and isinstance(c.func, ast.Attribute) and c.func.attr in mgr_coros and c.args):
                    continue
                recv = expand(c.func.value, c)
                if not (isinstance(recv, ast.Name) and recv.id in params):
                    continue
                out += [f"{src} (it feeds `{' '.join(ast.unparse(c).split())[:60]}` of {cdef.name}.{f.name})"
                        for src in _reeval_sources(cm, cdef, f, dep_slice(f, c.args[0]), 3, frozenset({id(f)}))]
    return list(dict.fromkeys(out))


def _r6(chk, model: Model, views: dict[str, MethodView], store: str, floors: bool = True) -> None:
    """The key under which a resource stands on the cycle chain must be equal for every descriptor of that resource."""
    m = model.m
    sites = core = 0
    sources: list[str] | None = None
    for v, t, key, chain in _cycle_tests(views):
        pushes, pops = _chain_ops(v, chain)
        # a `finally` body has one CFG copy per way of entering it: one site per source construct
        pushes = list({id(p_[1]): p_ for p_ in pushes}.values())
        pops = list({id(k if k is not None else n.ast): (n, k) for n, k in pops}.values())
        if not pushes:
            continue  # functional chain: R5 ties the extension to the tested key; nothing is stored
        # the descriptor: receiver of the re-entrant await (`await D.resolve(self)`), a parameter of the method
        params = {a.arg for a in v.fn.args.posonlyargs + v.fn.args.args + v.fn.args.kwonlyargs} - {v.sn}
        desc: dict[str, str] = {}
        for s in v.susp:
            for x in exprs_in_node(s):
                if isinstance(x, ast.Await) and isinstance(x.value, ast.Call) and isinstance(x.value.func, ast.Attribute) \
                        and any(isinstance(a, ast.Name) and a.id == v.sn for a in list(x.value.args) + [k.value for k in x.value.keywords]):
                    recv = expand(x.value.func.value, x)
                    if isinstance(recv, ast.Name) and recv.id in params:
                        desc[recv.id] = x.value.func.attr
        if len(desc) != 1:
            raise AnchorError(f"C22.R6: cannot bind the descriptor parameter of {v.name} (receiver of the re-entrant await that is handed the manager): found {sorted(desc)}")
        dname, meth = next(iter(desc.items()))
        impls = _descriptor_impls(model, meth)
        if not impls:
            raise AnchorError(f"C22.R6: no class of `{PKG}` implements `{meth}` (descriptor classes cannot be bound)")
        if sources is None:
            sources = _fresh_descriptor_sources(model, impls)
        cache_keys = sorted({ast.unparse(x.slice) for x in walk_shallow(v.fn) if isinstance(x, ast.Subscript) and _reads_loc(x.value, v.sn, store)})
        hint = f"; key the chain by the value the caches are keyed by (`{cache_keys[0]}`) in the test, the push and the pop alike" if cache_keys else ""
        key_ast = ast.parse(key, mode="eval").body
        roles: list[tuple[str, ast.AST, ast.AST, ast.AST, str]] = [("test", key_ast, t.ast, t.ast.test, f"{key} in {chain}")]
        roles += [("push", k, n.ast, c, optext) for n, c, k, optext in pushes if k is not None]
        roles += [("pop", k, n.ast, k, f"removal of `{ast.unparse(k)}` from {chain}") for n, k in pops if k is not None]
        kinds: dict[str, str] = {}
        for role, kexpr, at, node, text in roles:
            sites += 1
            core += role != "pop"
            kind, why = _key_kind(kexpr, at, dname, impls)
            kinds[role] = kind
            if kind == "unknown":
                raise AnchorError(f"C22.R6: the cycle-chain key of `{text}` in {v.name} is not understood: {why}")
            if kind == "identity" and not sources:
                raise AnchorError(f"C22.R6: `{text}` in {v.name} keys the cycle chain by object identity ({why}) and the rule cannot establish where dependency "
                                  "descriptors come from (no annotation re-evaluation found behind the re-entrant `get`): whether identity is stable must be re-read")
            chk.ob("C22.R6", f"the key of the cycle chain ({role}) is the same for every descriptor of one resource"
                   + (": descriptors of dependencies are re-created at every visit, so only" if sources else " (") + " a value computed from what the resource was declared with (its name) "
                   "meets itself again around a genuine cycle" + ("" if sources else ")"), kind == "stable",
                   m=m, node=node, fn=v.fn, instance=f"cycle-key-stable:{role}",
                   reason=(f"`{text}`: {why}.  Descriptors are not stable objects: {sources[0] if sources else ''} runs on every visit of a factory and evaluates string annotations "
                           "(`from __future__ import annotations`, quoted forward references — the only way two factories can name each other) anew, so each time round a genuine cycle the "
                           f"same factory arrives as a new descriptor object, the key never matches, and resolution recurses until RecursionError instead of reporting "
                           f"`Circular resource dependency`{hint}") if kind != "stable" else "")
        # the keyed pop must remove what the push stored
        pushed = {ast.unparse(expand(k, n.ast)) for n, _c, k, _t in pushes if k is not None}
        for n, k in pops:
            if k is None or not pushed:
                continue
            sites += 1
            got = ast.unparse(expand(k, n.ast))
            chk.ob("C22.R6", "the chain entry is removed under the key it was pushed with", got in pushed, m=m, node=k, fn=v.fn, instance="cycle-key:pop-is-pushed-key",
                   reason=f"`{got}` is removed from `{chain}` but `{sorted(pushed)[0]}` was pushed: the entry is never found, stays on the chain of this resolution, and the next "
                          "dependency path that reaches the resource (a diamond) is reported as a cycle that does not exist")
    if floors:
        chk.floor("C22.R6", "keys of the cycle chain classified at the membership test and at the push (a keyed pop adds two more sites: its key, and pop-is-pushed-key; "
                  "a positional pop none)", core, 2)
        chk.extra["cycle_key_sites"] = {"test_and_push": core, "with_keyed_pops": sites}
        if sources:
            chk.floor("C22.R6", "annotation re-evaluations behind the descriptors a descriptor hands to `<manager>.get` (premise: dependency descriptors are new objects per visit)",
                      len(sources), 1)
        else:
            # an identity key without the premise is an analysis error above; value keys are right whatever the provenance of descriptors
            chk.observe("C22.R6: no annotation re-evaluation was found behind the descriptors handed to `<manager>.get` on this tree (1 on the confirmed tree); every chain key is a "
                        "value computed from the declaration, which is correct whether or not descriptors are re-created")
        chk.extra["descriptor_provenance"] = sources or []


# ------------------------------------------------------------------------------------------- entry


def run(chk) -> None:
    repo = chk.repo
    model = _build_model(repo)
    _premise(chk, repo, model)
    views = {n: MethodView(model, n, f) for n, f in model.methods.items() if n != "__init__" and _self_name(f) is not None}
    store = _store_attr(model)
    for v in views.values():
        chk.note_fn(model.m, v.fn)
    chk.extra["may_suspend"] = {"never_suspends": sorted(model.nosuspend), "scope_yield_spans_suspension": model.cm_suspends,
                                "state_locations": [f"{l.kind}:{l.name}:{l.nature}" for l in model.locs], "persistent_store": store}
    mediators = _r2(chk, model, views, store)
    _r1(chk, model, views, store, mediators)
    _planted(chk)
    _r5(chk, model, views, store)
    _r6(chk, model, views, store)
    _planted_r6(chk)


def _planted(chk) -> None:
    """Sub-rules of R1 that match nothing in the pinned tree (shared ContextVar default, module-global state) are run on a
    planted fixture on every run and must report it."""
    fx = VERIF / "fixtures" / "c22" / "shared_state.py"
    if not fx.is_file():
        raise AnchorError(f"C22.R1: fixture {fx} missing")
    variant = chk.repo.with_overlay({_P: fx.read_text(encoding="utf-8")})
    model = _build_model(variant)
    views = {n: MethodView(model, n, f) for n, f in model.methods.items() if n != "__init__" and _self_name(f) is not None}
    scratch = Check("C22", variant, quiet=True, write=False)
    _r1(scratch, model, views, _store_attr(model), set(), floors=False)
    got = {o.key.rsplit("|", 1)[1] for o in scratch.violations()}
    want = {"taskLocal-default:_CHAIN", "_SEEN"}
    if not want <= got:
        raise AnchorError(f"C22.R1: planted shared-state constructs not reported (reported {sorted(got)})")
    chk.floor("C22.R1", "planted constructs reported in fixtures/c22/shared_state.py (shared ContextVar default, module-global table)", len(want & got), 2)


def _planted_r6(chk) -> None:
    """R6 matches no violation in the pinned tree: a chain keyed by descriptor objects is analysed on every run and must be reported
    at all three roles (test, push, pop)."""
    fx = VERIF / "fixtures" / "c22" / "identity_chain.py"
    if not fx.is_file():
        raise AnchorError(f"C22.R6: fixture {fx} missing")
    variant = chk.repo.with_overlay({_P: fx.read_text(encoding="utf-8")})
    model = _build_model(variant)
    views = {n: MethodView(model, n, f) for n, f in model.methods.items() if n != "__init__" and _self_name(f) is not None}
    scratch = Check("C22", variant, quiet=True, write=False)
    _r6(scratch, model, views, _store_attr(model), floors=False)
    got = {o.key.rsplit("|", 1)[1] for o in scratch.violations()}
    want = {"cycle-key-stable:test", "cycle-key-stable:push", "cycle-key-stable:pop"}
    if not want <= got:
        raise AnchorError(f"C22.R6: planted identity-keyed cycle chain not reported (reported {sorted(got)})")
    chk.floor("C22.R6", "planted identity-keyed chain roles reported in fixtures/c22/identity_chain.py (test, push, pop)", len(want & got), 3)


# ------------------------------------------------------------------------------------------- twins

_P = "packages/llama-index-workflows/src/workflows/resource.py"


def _class_text() -> str:
    """Current text of `class ResourceManager` to the end of the file (anchor of the whole-class twins)."""
    try:
        src = (repo_root() / _P).read_text(encoding="utf-8")
    except OSError:
        return "\0resource.py missing"
    i = src.find("class ResourceManager:")
    if i < 0:
        return "\0class ResourceManager missing"
    # the task-local resolution record and its ContextVar (when present) belong to the replaced block
    for marker in ("class _Resolution", "_RESOLUTION:", "_RESOLUTION ="):
        j = src.find("\n" + marker)
        if j >= 0 and j + 1 < i:
            i = j + 1
    return src[i:]


_HEAD = '''class _Resolution:
    """Bookkeeping of one dependency resolution (one step invocation); never shared between tasks."""

    __slots__ = ("manager", "resolving", "cache")

    def __init__(self, manager: "ResourceManager") -> None:
        self.manager = manager
        self.resolving: list[str] = []
        self.cache: dict[str, Any] = {}


_RESOLUTION: ContextVar[_Resolution | None] = ContextVar(
    "workflows_resource_resolution", default=None
)


'''

_FIXED_CLASS = '''class ResourceManager:
    """Manage resource lifecycles and caching across workflow steps."""

    def __init__(self) -> None:
        self.resources: dict[str, Any] = {}
        self._creating: dict[str, asyncio.Lock] = {}

    @contextmanager
    def resolution_scope(self) -> Iterator[None]:
        """Scope non-cached resolution values to a single dependency graph."""
        current = _RESOLUTION.get()
        if current is not None and current.manager is self:
            yield
            return
        token = _RESOLUTION.set(_Resolution(self))
        try:
            yield
        finally:
            _RESOLUTION.reset(token)

    async def set(self, name: str, val: Any) -> None:
        """Register a resource instance under a name."""
        self.resources.update({name: val})

    async def get(self, resource: ResourceDescriptor) -> Any:
        with self.resolution_scope():
            return await self._get(resource)

    async def _get(self, resource: ResourceDescriptor) -> Any:
        state = _RESOLUTION.get()
        assert state is not None
        resolving = state.resolving
        if resource.name in resolving:
            chain = " -> ".join(resolving) + f" -> {resource.name}"
            raise ValueError(f"Circular resource dependency detected: {chain}")
        if resource.cache and resource.name in self.resources:
            return self.resources[resource.name]
        if resource.name in state.cache:
            return state.cache[resource.name]
        resolving.append(resource.name)
        try:
            if not resource.cache:
                val = await resource.resolve(self)
            else:
                async with self._creating.setdefault(resource.name, asyncio.Lock()):
                    if resource.name in self.resources:
                        return self.resources[resource.name]
                    val = await resource.resolve(self)
                    await self.set(resource.name, val)
            state.cache[resource.name] = val
            return val
        finally:
            resolving.remove(resource.name)

    def get_all(self) -> dict[str, Any]:
        """Return all materialized resources."""
        return self.resources
'''

# the patch proposed for C22.R1 (task-local bookkeeping only; creation of cached resources is still unguarded -> R2 keeps firing)
_PATCH_R1 = '''class _Resolution:
    """Bookkeeping of one dependency resolution (task-local)."""

    __slots__ = ("manager", "resolving", "cache")

    def __init__(self, manager: ResourceManager) -> None:
        self.manager = manager
        self.resolving: list[str] = []  # Track resources being resolved in order
        self.cache: dict[str, Any] = {}


_RESOLUTION: ContextVar[_Resolution | None] = ContextVar(
    "workflows_resource_resolution", default=None
)


class ResourceManager:
    """Manage resource lifecycles and caching across workflow steps."""

    def __init__(self) -> None:
        self.resources: dict[str, Any] = {}

    @contextmanager
    def resolution_scope(self) -> Iterator[None]:
        """Scope non-cached resolution values to a single dependency graph."""
        current = _RESOLUTION.get()
        if current is not None and current.manager is self:
            # Nested scope in the same task: share the outer resolution.
            yield
            return
        token = _RESOLUTION.set(_Resolution(self))
        try:
            yield
        finally:
            _RESOLUTION.reset(token)

    async def set(self, name: str, val: Any) -> None:
        """Register a resource instance under a name."""
        self.resources.update({name: val})

    async def get(self, resource: ResourceDescriptor) -> Any:
        with self.resolution_scope():
            return await self._get(resource)

    async def _get(self, resource: ResourceDescriptor) -> Any:
        state = _RESOLUTION.get()
        assert state is not None and state.manager is self

        # Cycle detection
        if resource.name in state.resolving:
            chain = " -> ".join(state.resolving) + f" -> {resource.name}"
            raise ValueError(f"Circular resource dependency detected: {chain}")

        # Check cache first (before marking as resolving)
        if resource.cache and resource.name in self.resources:
            return self.resources[resource.name]
        if resource.name in state.cache:
            return state.cache[resource.name]

        # Mark as resolving for cycle detection
        state.resolving.append(resource.name)
        try:
            val = await resource.resolve(self)
            if resource.cache:
                await self.set(resource.name, val)
            state.cache[resource.name] = val
            return val
        finally:
            if resource.name in state.resolving:
                state.resolving.remove(resource.name)

    def get_all(self) -> dict[str, Any]:
        """Return all materialized resources."""
        return self.resources
'''

_FIXED = _HEAD + _FIXED_CLASS


def _variant(*edits: tuple[str, str]) -> str:
    s = _FIXED
    for a, b in edits:
        if a not in s:
            raise AssertionError(f"twin edit anchor missing: {a[:40]}")
        s = s.replace(a, b, 1)
    return s


_PINNED_CLASS = '''class ResourceManager:
    """Manage resource lifecycles and caching across workflow steps.

    Methods:
        set: Manually set a resource by name.
        get: Produce or retrieve a resource via its descriptor.
        get_all: Return the internal name->resource map.
    """

    def __init__(self) -> None:
        self.resources: dict[str, Any] = {}
        self._resolving: list[str] = []  # Track resources being resolved in order
        self._resolution_cache: dict[str, Any] = {}
        self._resolution_depth = 0

    @contextmanager
    def resolution_scope(self) -> Iterator[None]:
        """Scope non-cached resolution values to a single dependency graph."""
        self._resolution_depth += 1
        try:
            yield
        finally:
            self._resolution_depth -= 1
            if self._resolution_depth == 0:
                self._resolution_cache.clear()

    async def set(self, name: str, val: Any) -> None:
        """Register a resource instance under a name."""
        self.resources.update({name: val})

    async def get(self, resource: ResourceDescriptor) -> Any:
        if self._resolution_depth == 0:
            with self.resolution_scope():
                return await self._get(resource)
        return await self._get(resource)

    async def _get(self, resource: ResourceDescriptor) -> Any:
        """Return a resource instance, honoring cache settings.

        Works with any ResourceDescriptor implementation (_Resource or _ResourceConfig).
        """
        # Cycle detection
        if resource.name in self._resolving:
            chain = " -> ".join(self._resolving) + f" -> {resource.name}"
            raise ValueError(f"Circular resource dependency detected: {chain}")

        # Check cache first (before marking as resolving)
        if resource.cache and resource.name in self.resources:
            return self.resources[resource.name]
        if resource.name in self._resolution_cache:
            return self._resolution_cache[resource.name]

        # Mark as resolving for cycle detection
        self._resolving.append(resource.name)
        try:
            val = await resource.resolve(self)
            if resource.cache:
                await self.set(resource.name, val)
            self._resolution_cache[resource.name] = val
            return val
        finally:
            if resource.name in self._resolving:
                self._resolving.remove(resource.name)

    def get_all(self) -> dict[str, Any]:
        """Return all materialized resources."""
        return self.resources
'''

_OLD = _class_text()

TWINS = [
    Twin("nested scope shares any record found in the context, not only this manager's", _P, "        if current is not None and current.manager is self:", "        if current is not None:", "C22.R1"),
    Twin("benign: owner test written the other way round", _P, "        if current is not None and current.manager is self:", "        if current is not None and self is current.manager:", None),

    # ---- relative to the repaired manager (the pinned class already violates R1/R2 at every bookkeeping attribute)
    Twin("repair: task-local resolution state + per-name creation lock", _P, _OLD, _FIXED, None),
    Twin("proposed patch for R1 only (task-local bookkeeping; the R2 finding stays, nothing new)", _P, _OLD, _PATCH_R1, None),
    Twin("repair with the chain threaded through a task-keyed table", _P, _OLD, _variant(
        ("        self._creating: dict[str, asyncio.Lock] = {}\n", "        self._creating: dict[str, asyncio.Lock] = {}\n        self._seen: dict[Any, int] = {}\n"),
        ("        resolving.append(resource.name)\n        try:\n", "        resolving.append(resource.name)\n        self._seen[asyncio.current_task()] = len(resolving)\n        try:\n"),
        ("        finally:\n            resolving.remove(resource.name)\n", "        finally:\n            resolving.remove(resource.name)\n            self._seen.pop(asyncio.current_task(), None)\n"),
    ), None),
    Twin("repair with an awaited in-flight future instead of a lock", _P, _OLD, _variant(
        ("        self._creating: dict[str, asyncio.Lock] = {}\n", "        self._pending: dict[str, asyncio.Future[Any]] = {}\n"),
        ("        if resource.cache and resource.name in self.resources:\n            return self.resources[resource.name]\n",
         "        if resource.cache and resource.name in self.resources:\n            return self.resources[resource.name]\n"
         "        pending = self._pending.get(resource.name) if resource.cache else None\n        if pending is not None:\n            return await pending\n"),
        ('''        resolving.append(resource.name)
        try:
            if not resource.cache:
                val = await resource.resolve(self)
            else:
                async with self._creating.setdefault(resource.name, asyncio.Lock()):
                    if resource.name in self.resources:
                        return self.resources[resource.name]
                    val = await resource.resolve(self)
                    await self.set(resource.name, val)
            state.cache[resource.name] = val
            return val
        finally:
            resolving.remove(resource.name)
''', '''        resolving.append(resource.name)
        try:
            if not resource.cache:
                val = await resource.resolve(self)
            else:
                fut = asyncio.get_running_loop().create_future()
                self._pending[resource.name] = fut
                try:
                    val = await resource.resolve(self)
                    await self.set(resource.name, val)
                    fut.set_result(val)
                except BaseException as exc:
                    fut.set_exception(exc)
                    raise
                finally:
                    self._pending.pop(resource.name, None)
            state.cache[resource.name] = val
            return val
        finally:
            resolving.remove(resource.name)
'''),
    ), None),
    Twin("in-flight future registered only after the factory started", _P, _OLD, _variant(
        ("        self._creating: dict[str, asyncio.Lock] = {}\n", "        self._pending: dict[str, asyncio.Future[Any]] = {}\n"),
        ("        if resource.cache and resource.name in self.resources:\n            return self.resources[resource.name]\n",
         "        if resource.cache and resource.name in self.resources:\n            return self.resources[resource.name]\n"
         "        pending = self._pending.get(resource.name) if resource.cache else None\n        if pending is not None:\n            return await pending\n"),
        ('''        resolving.append(resource.name)
        try:
            if not resource.cache:
                val = await resource.resolve(self)
            else:
                async with self._creating.setdefault(resource.name, asyncio.Lock()):
                    if resource.name in self.resources:
                        return self.resources[resource.name]
                    val = await resource.resolve(self)
                    await self.set(resource.name, val)
            state.cache[resource.name] = val
            return val
        finally:
            resolving.remove(resource.name)
''', '''        resolving.append(resource.name)
        try:
            if not resource.cache:
                val = await resource.resolve(self)
            else:
                await asyncio.sleep(0)  # let other steps start first
                fut = asyncio.get_running_loop().create_future()
                self._pending[resource.name] = fut
                try:
                    val = await resource.resolve(self)
                    await self.set(resource.name, val)
                    fut.set_result(val)
                except BaseException as exc:
                    fut.set_exception(exc)
                    raise
                finally:
                    self._pending.pop(resource.name, None)
            state.cache[resource.name] = val
            return val
        finally:
            resolving.remove(resource.name)
'''),
    ), "C22.R2"),
    Twin("ContextVar with a shared mutable default", _P, _OLD, _variant(
        ('''_RESOLUTION: ContextVar[_Resolution | None] = ContextVar(
    "workflows_resource_resolution", default=None
)''', '''_RESOLUTION: ContextVar[_Resolution] = ContextVar(
    "workflows_resource_resolution", default=_Resolution(None)
)'''),), "C22.R1"),
    Twin("repair, but one resolution record is created in __init__ and published to every task", _P, _OLD, _variant(
        ("        self._creating: dict[str, asyncio.Lock] = {}\n", "        self._creating: dict[str, asyncio.Lock] = {}\n        self._state = _Resolution(self)\n"),
        ("        token = _RESOLUTION.set(_Resolution(self))\n", "        token = _RESOLUTION.set(self._state)\n"),
    ), "C22.R1"),
    Twin("repair, but the nested-scope test is dropped", _P, _OLD, _variant(
        ("        if current is not None and current.manager is self:\n            yield\n            return\n", ""),
    ), "C22.R5"),
    Twin("repair, but the chain stays on the instance", _P, _OLD, _variant(
        ("        self._creating: dict[str, asyncio.Lock] = {}\n", "        self._creating: dict[str, asyncio.Lock] = {}\n        self._chain: list[str] = []\n"),
        ("        resolving = state.resolving\n", "        resolving = self._chain\n"),
    ), "C22.R1"),
    Twin("repair, but a 'last resolution' memo is kept on the class", _P, _OLD, _variant(
        ("    def __init__(self) -> None:\n        self.resources", "    _current: dict[str, Any] = {}\n\n    def __init__(self) -> None:\n        self.resources"),
        ("        resolving.append(resource.name)\n        try:\n", "        resolving.append(resource.name)\n        self._current[resource.name] = state\n        try:\n"),
        ("        finally:\n            resolving.remove(resource.name)\n", "        finally:\n            resolving.remove(resource.name)\n            self._current.pop(resource.name, None)\n"),
    ), "C22.R1"),
    Twin("repair, but the creation lock is taken after the re-check", _P, _OLD, _variant(
        ('''                async with self._creating.setdefault(resource.name, asyncio.Lock()):
                    if resource.name in self.resources:
                        return self.resources[resource.name]
                    val = await resource.resolve(self)
                    await self.set(resource.name, val)
''', '''                if resource.name in self.resources:
                    return self.resources[resource.name]
                async with self._creating.setdefault(resource.name, asyncio.Lock()):
                    val = await resource.resolve(self)
                    await self.set(resource.name, val)
'''),), "C22.R2"),
    Twin("repair, but no re-check under the lock", _P, _OLD, _variant(
        ("                    if resource.name in self.resources:\n                        return self.resources[resource.name]\n                    val = await", "                    val = await"),), "C22.R2"),
    Twin("repair, pop only on success", _P, _OLD, _variant(
        ('''            state.cache[resource.name] = val
            return val
        finally:
            resolving.remove(resource.name)
''', '''            state.cache[resource.name] = val
            resolving.remove(resource.name)
            return val
        finally:
            pass
'''),), "C22.R5"),
    Twin("repair, scope not reset when the step body raises", _P, _OLD, _variant(
        ("        try:\n            yield\n        finally:\n            _RESOLUTION.reset(token)\n", "        yield\n        _RESOLUTION.reset(token)\n"),), "C22.R5"),
    Twin("repair, cycle test only for cached resources", _P, _OLD, _variant(
        ("        if resource.name in resolving:\n", "        if resource.cache and resource.name in resolving:\n"),), "C22.R5"),
    Twin("repair, name pushed after the factory ran", _P, _OLD, _variant(
        ("        resolving.append(resource.name)\n        try:\n            if not resource.cache:\n                val = await resource.resolve(self)\n",
         "        try:\n            if not resource.cache:\n                val = await resource.resolve(self)\n                resolving.append(resource.name)\n"),), "C22.R5"),
    # ---- revert of the repair (bookkeeping back on the shared instance) and variants of that shape
    Twin("revert of the repair: chain, scope cache and depth on the shared instance", _P, _OLD, _PINNED_CLASS, "C22.R1"),
    Twin("pre-repair shape with the scope inlined into get", _P, _OLD, _PINNED_CLASS.replace(
        "            with self.resolution_scope():\n                return await self._get(resource)\n",
        "            self._resolution_depth += 1\n            try:\n                return await self._get(resource)\n            finally:\n                self._resolution_depth -= 1\n                if self._resolution_depth == 0:\n                    self._resolution_cache.clear()\n"),
        "C22.R1|workflows.resource:ResourceManager.get"),
    Twin("pre-repair shape, finally dropped from the scope", _P, _OLD, _PINNED_CLASS.replace(
        "        self._resolution_depth += 1\n        try:\n            yield\n        finally:\n            self._resolution_depth -= 1\n            if self._resolution_depth == 0:\n                self._resolution_cache.clear()\n",
        "        self._resolution_depth += 1\n        yield\n        self._resolution_depth -= 1\n        if self._resolution_depth == 0:\n            self._resolution_cache.clear()\n"), "C22.R5"),
    Twin("pre-repair shape, scope cache never cleared", _P, _OLD, _PINNED_CLASS.replace(
        "            if self._resolution_depth == 0:\n                self._resolution_cache.clear()\n", "            pass\n"), "C22.R5"),
    # ---- small anchors on the repaired text
    Twin("ContextVar default is a shared record", _P, '    "workflows_resource_resolution", default=None\n', '    "workflows_resource_resolution", default=_Resolution(None)  # type: ignore[arg-type]\n', "C22.R1"),
    Twin("scope not reset when the step body raises", _P, "        try:\n            yield\n        finally:\n            _RESOLUTION.reset(token)\n", "        yield\n        _RESOLUTION.reset(token)\n", "C22.R5"),
    Twin("scope never reset", _P, "        finally:\n            _RESOLUTION.reset(token)\n", "        finally:\n            pass\n", "C22.R5"),
    Twin("nested-scope test dropped: every get() installs a fresh resolution", _P,
         "        if current is not None and current.manager is self:\n            # Nested scope in the same task: share the outer resolution.\n            yield\n            return\n", "", "C22.R5"),
    Twin("second unguarded creation path in get", _P,
         "    async def get(self, resource: ResourceDescriptor) -> Any:\n        with self.resolution_scope():\n",
         "    async def get(self, resource: ResourceDescriptor) -> Any:\n        if resource.cache and resource.name not in self.resources and not resource.get_dependencies():\n            val = await resource.resolve(self)\n            self.resources[resource.name] = val\n            return val\n        with self.resolution_scope():\n",
         "C22.R2"),
    Twin("chain entry removed only on success", _P,
         "            state.cache[resource.name] = val\n            return val\n        finally:\n            if resource.name in state.resolving:\n                state.resolving.remove(resource.name)\n",
         "            state.cache[resource.name] = val\n            state.resolving.remove(resource.name)\n            return val\n        finally:\n            pass\n", "C22.R5"),
    Twin("cycle test only for cached resources", _P, "        if resource.name in state.resolving:\n            chain", "        if resource.cache and resource.name in state.resolving:\n            chain", "C22.R5"),
    Twin("name pushed after the factory ran", _P, "        state.resolving.append(resource.name)\n        try:\n            val = await resource.resolve(self)\n",
         "        try:\n            val = await resource.resolve(self)\n            state.resolving.append(resource.name)\n", "C22.R5"),
    Twin("benign: unconditional pop in the finally", _P, "            if resource.name in state.resolving:\n                state.resolving.remove(resource.name)", "            state.resolving.remove(resource.name)", None),
    Twin("benign: chain through a local alias", _P, "        state.resolving.append(resource.name)\n        try:", "        chain_ = state.resolving\n        state.resolving.append(resource.name)\n        try:", None),
    Twin("benign: scope test written the other way round", _P, "        if current is not None and current.manager is self:\n", "        if not (current is None or current.manager is not self):\n", None),
    Twin("benign: set() writes by subscript", _P, "        self.resources.update({name: val})", "        self.resources[name] = val", None),
]

# ---- open create-once window: which factories suspend inside it (seed S61 and its class)
_SYNC_CALL = "            result = cast(Callable[..., T], self._factory)(**args)\n"
_TO_THREAD = "            result = await asyncio.to_thread(cast(Callable[..., T], self._factory), **args)\n"
_BRANCH = ("        if self._is_async:\n            result = await cast(Callable[..., Awaitable[T]], self._factory)(**args)\n        else:\n" + _SYNC_CALL)
_K_SYNC = "C22.R2|workflows.resource:ResourceManager._get|create-once:resources:sync-factory-inline"


def _tail_from(marker: str) -> str:
    try:
        src = (repo_root() / _P).read_text(encoding="utf-8")
    except OSError:
        return "\0resource.py missing"
    i = src.find(marker)
    return src[i:] if i >= 0 else "\0marker missing"


_TAIL = _tail_from(_SYNC_CALL)

TWINS += [
    Twin("sync factories run through asyncio.to_thread (seed S61)", _P, _SYNC_CALL, _TO_THREAD, _K_SYNC),
    Twin("sync factories run through loop.run_in_executor", _P, _SYNC_CALL,
         "            result = await asyncio.get_running_loop().run_in_executor(None, functools.partial(cast(Callable[..., T], self._factory), **args))\n", _K_SYNC),
    Twin("every factory call preceded by a yield to the loop", _P, "        if self._is_async:\n            result = await cast(",
         "        await asyncio.sleep(0)\n        if self._is_async:\n            result = await cast(", _K_SYNC),
    Twin("config-backed (always cached) resources validated in a worker thread", _P, "        return self.call()\n", "        return await asyncio.to_thread(self.call)\n", _K_SYNC),
    Twin("benign: a second flag derived from the coroutine-function test is stored and not used", _P, "        self._is_async = inspect.iscoroutinefunction(factory)\n",
         "        self._is_async = inspect.iscoroutinefunction(factory)\n        self._offload = not self._is_async\n", None),
    Twin("sync factories offloaded under a flag derived from the negated test", _P, _BRANCH,
         "        offload = not inspect.iscoroutinefunction(self._factory)\n        if offload:\n" + _TO_THREAD
         + "        else:\n            result = await cast(Callable[..., Awaitable[T]], self._factory)(**args)\n", _K_SYNC),
    Twin("benign: coroutine-function test made at the call instead of in __init__", _P, "        if self._is_async:\n            result = await cast(",
         "        if inspect.iscoroutinefunction(self._factory):\n            result = await cast(", None),
    Twin("benign: sync branch first", _P, _BRANCH,
         "        if not self._is_async:\n" + _SYNC_CALL + "        else:\n            result = await cast(Callable[..., Awaitable[T]], self._factory)(**args)\n", None),
    Twin("benign: call first, await the result when it is awaitable", _P, _BRANCH,
         "        result = self._factory(**args)\n        if inspect.isawaitable(result):\n            result = await result\n", None),
    Twin("benign: dependency resolution inlined into call", _P, "        args = await self._resolve_dependencies(resource_manager)\n",
         "        args = {}\n        for pname, dep, ann in self.get_dependencies():\n            dep.set_type_annotation(ann)\n            dep.set_localns(self._localns)\n"
         "            args[pname] = await resource_manager.get(dep)\n", None),
    Twin("nearest harmless: sync factories in a worker thread, creation under the per-name lock (window closed)", _P, _TAIL,
         _TAIL.replace(_SYNC_CALL, _TO_THREAD, 1).replace(_OLD, _FIXED, 1), None),
]

# ---- identity of a resource on the cycle chain (seed S131 and its class)
_T_TEST = "        if resource.name in state.resolving:\n            chain = \" -> \".join(state.resolving) + f\" -> {resource.name}\"\n"
_T_PUSH = "        state.resolving.append(resource.name)\n"
_T_POP = "            if resource.name in state.resolving:\n                state.resolving.remove(resource.name)\n"
_T_DECL = "        self.resolving: list[str] = []  # Track resources being resolved in order\n"
_T_NAME = "        self.name = getattr(factory, \"__qualname__\", type(factory).__name__)\n"

TWINS += [
    Twin("cycle chain tracks descriptor objects instead of names (seed S131)", _P, *multi(_P, [
        (_T_DECL, "        self.resolving: list[ResourceDescriptor] = []\n"),
        (_T_TEST, "        if resource in state.resolving:\n            chain = \" -> \".join(r.name for r in state.resolving)\n            chain += f\" -> {resource.name}\"\n"),
        (_T_PUSH, "        state.resolving.append(resource)\n"),
        (_T_POP, "            if resource in state.resolving:\n                state.resolving.remove(resource)\n"),
    ]), "C22.R6"),
    Twin("cycle chain keyed by id() of the descriptor", _P, *multi(_P, [
        (_T_DECL, "        self.resolving: list[int] = []\n"),
        (_T_TEST, "        if id(resource) in state.resolving:\n            chain = f\"... -> {resource.name}\"\n"),
        (_T_PUSH, "        state.resolving.append(id(resource))\n"),
        (_T_POP, "            if id(resource) in state.resolving:\n                state.resolving.remove(id(resource))\n"),
    ]), "C22.R6"),
    Twin("descriptor-keyed chain through a local (`node = resource`) and a keyed table", _P, *multi(_P, [
        (_T_DECL, "        self.resolving: dict[Any, str] = {}\n"),
        (_T_TEST, "        node = resource\n        if node in state.resolving:\n            chain = \" -> \".join(state.resolving.values()) + f\" -> {resource.name}\"\n"),
        (_T_PUSH, "        state.resolving[node] = resource.name\n"),
        (_T_POP, "            state.resolving.pop(node, None)\n"),
    ]), "C22.R6"),
    Twin("factory resources get a name that is unique per descriptor object", _P, _T_NAME,
         "        self.name = f\"{getattr(factory, '__qualname__', type(factory).__name__)}@{id(self):x}\"\n", "C22.R6"),
    Twin("tested and pushed by name, removed by descriptor object", _P, _T_POP,
         "            if resource in state.resolving:\n                state.resolving.remove(resource)\n", "C22.R6"),
    Twin("benign: the chain key held in a local", _P, *multi(_P, [
        (_T_TEST, "        key = resource.name\n        if key in state.resolving:\n            chain = \" -> \".join(state.resolving) + f\" -> {key}\"\n"),
        (_T_PUSH, "        state.resolving.append(key)\n"),
        (_T_POP, "            if key in state.resolving:\n                state.resolving.remove(key)\n"),
    ]), None),
    Twin("benign (nearest harmless): the chain keeps the descriptors, keyed by name", _P, *multi(_P, [
        (_T_DECL, "        self.resolving: dict[str, ResourceDescriptor] = {}  # name -> descriptor, in order\n"),
        (_T_PUSH, "        state.resolving[resource.name] = resource\n"),
        (_T_POP, "            state.resolving.pop(resource.name, None)\n"),
    ]), None),
    Twin("benign: chain key is the (name, cache flag) pair", _P, *multi(_P, [
        (_T_DECL, "        self.resolving: list[tuple[str, bool]] = []\n"),
        (_T_TEST, "        if (resource.name, resource.cache) in state.resolving:\n            chain = \" -> \".join(n for n, _c in state.resolving) + f\" -> {resource.name}\"\n"),
        (_T_PUSH, "        state.resolving.append((resource.name, resource.cache))\n"),
        (_T_POP, "            if (resource.name, resource.cache) in state.resolving:\n                state.resolving.remove((resource.name, resource.cache))\n"),
    ]), None),
]

# ---- the chain reached through a local that is a second spelling of the same object path (MethodView.canon)
_A_PUSH = "        in_flight = state.resolving\n        in_flight.append(resource.name)\n"
_A_POP = "            if resource.name in in_flight:\n                in_flight.remove(resource.name)\n"
_T_TAIL = "            state.cache[resource.name] = val\n            return val\n        finally:\n" + _T_POP

TWINS += [
    Twin("benign: tested through the attribute, pushed and popped through a local alias of the chain", _P, *multi(_P, [(_T_PUSH, _A_PUSH), (_T_POP, _A_POP)]), None),
    Twin("benign: tested and popped through an early alias, pushed through the attribute", _P, *multi(_P, [
        (_T_TEST, "        in_flight = state.resolving\n        if resource.name in in_flight:\n            chain = \" -> \".join(in_flight) + f\" -> {resource.name}\"\n"),
        (_T_POP, _A_POP),
    ]), None),
    Twin("benign: alias of an alias, annotated, cycle test inverted into an early exit", _P, *multi(_P, [
        (_T_PUSH, "        record = state\n        in_flight: list[str] = record.resolving\n        in_flight.append(resource.name)\n"),
        (_T_POP, "            if resource.name not in in_flight:\n                pass\n            else:\n                in_flight.remove(resource.name)\n"),
    ]), None),
    Twin("chain through an alias, entry removed only on success", _P, *multi(_P, [
        (_T_PUSH, _A_PUSH),
        (_T_TAIL, "            state.cache[resource.name] = val\n            in_flight.remove(resource.name)\n            return val\n        finally:\n            pass\n"),
    ]), "C22.R5"),
    Twin("chain through an alias, name pushed after the factory ran", _P, *multi(_P, [
        (_T_PUSH + "        try:\n            val = await resource.resolve(self)\n",
         "        in_flight = state.resolving\n        try:\n            val = await resource.resolve(self)\n            in_flight.append(resource.name)\n"),
        (_T_POP, _A_POP),
    ]), "C22.R5"),
    Twin("chain through an alias, cycle test only for cached resources", _P, *multi(_P, [
        (_T_TEST, "        if resource.cache and resource.name in state.resolving:\n            chain = \" -> \".join(state.resolving) + f\" -> {resource.name}\"\n"),
        (_T_PUSH, _A_PUSH), (_T_POP, _A_POP),
    ]), "C22.R5"),
    Twin("chain through an alias, another key pushed than the one tested", _P, *multi(_P, [
        (_T_PUSH, "        in_flight = state.resolving\n        in_flight.append(resource.name.lower())\n"), (_T_POP, _A_POP),
    ]), "C22.R5"),
    Twin("descriptor object pushed through an alias of the chain, tested by name", _P, *multi(_P, [
        (_T_DECL, "        self.resolving: list[Any] = []\n"),
        (_T_PUSH, "        in_flight = state.resolving\n        in_flight.append(resource)\n"),
        (_T_POP, "            if resource in in_flight:\n                in_flight.remove(resource)\n"),
    ]), "C22.R6"),
]
