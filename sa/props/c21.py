"""C21 — the single-connection SQLite store keeps working after use.

Oracle: ownership — whoever opens a connection closes it; a borrower never closes.  In single-connection mode
``SqliteWorkflowStore`` opens ONE connection (``_persistent_conn``), yields it from its ``_connect`` context manager
and hands it to every ``SqliteStateStore`` it creates; closing it anywhere makes every later handler / event / tick /
state operation raise ``ProgrammingError: Cannot operate on a closed database`` while the per-call mode keeps working.

Bindings are derived by data flow, not by name: the *persistent attribute* P of the workflow store is the attribute
its connection provider yields without opening it; the factory ``create_state_store`` passes ``self.P`` into a
constructor parameter of the state store, whose ``__init__`` assigns it to the *borrowed attribute* B; a *provider* is a
method that returns / yields ``self.P`` or ``self.B`` on some path.

* R1  no ``close()`` (nor ``contextlib.closing``) on a value that may be the persistent / borrowed connection:
      receivers are ``self.P`` / ``self.B``, a provider call, a local or ``with … as`` target whose reaching definition
      (CFG) is one of those.  A close is accepted when it is dominated by an ownership fact: the negation of the guard
      under which the provider hands out the shared object (``self.B is None``, ``not self._single_connection``), or
      ``x is not self.B``.  The workflow store *owns* P, so its lifecycle methods (close / aclose / __del__ / __exit__ …)
      may close it; the state store never owns B.  A planted fixture (fixtures/c21/borrowed_close.py) is analysed on
      every run and must be reported, so that the rule cannot go silent after a repair.
* R2  the two modes run the same code on a live connection: inside both classes ``sqlite3.connect`` is called only by the
      provider, by the opener of P and by static helpers; the provider's per-call branch closes what it opened
      (``finally``) and the single-connection branch closes nothing; the AgentCore entry point really selects the
      single-connection mode (floor).

* R3  no per-call result is taken from *connection-lifetime* state.  A per-call connection is born with the call, so
      its lifetime state starts from zero; the shared connection carries the history of every handler / event / tick /
      state operation (and of the migrations).  Through a value that may be the shared connection (same receiver analysis
      as R1, plus ``cursor.connection`` and cursors made from it) the rule looks for reads of ``total_changes`` /
      ``in_transaction`` and for SQL ``total_changes()`` / ``changes()`` / ``last_insert_rowid()`` in the constant pieces of
      the statement text.  Accepted, because then the value is the same in both modes: a read dominated by an ownership
      fact (per-call branch only); ``total_changes`` used solely in a difference of two reads of the same connection;
      ``in_transaction`` used solely as ``if …: conn.commit()/rollback()``; SQL ``changes()`` / ``last_insert_rowid()`` when a
      write of the same call on the same connection (for the rowid: a plain ``INSERT … VALUES`` without OR IGNORE / ON
      CONFLICT) lies on every path to the read.  Quantities of the cursor of the statement just executed (``rowcount``,
      ``lastrowid``, fetched rows) are per-statement and never reported.  Planted fixture: fixtures/c21/lifetime_reads.py.

* R4  (transaction scope) every operation is its own transaction in both modes, as it inherently is with per-call
      connections (what is committed when the call returns is durable, what is not is discarded with the connection).
      (a) For every data-modifying statement (``execute`` / ``executemany`` of INSERT / REPLACE / UPDATE / DELETE text, through
      a value that may be the shared connection or a cursor of it) and for every call that hands the connection to a sibling
      helper which writes on it and leaves the commit to its caller: on every normal path from the write to the method's
      return a ``commit()`` on the same connection is passed — decided per mode (the provider's hand-out guards assumed
      true / false) and per "connection parameter passed / not passed" case by forward propagation of known truth values
      over the CFG (flag locals such as ``owns = conn is None and …`` are evaluated, re-binding forgets).  A commit gated on
      "I own the connection" leaves the write pending in single-connection mode, where nobody else commits for it: it is
      lost when the process ends and is discarded by any later ROLLBACK.  Accepted: the write lies in a ``with <sqlite3
      connection>`` block (commits on success) or in a ``with self.<generator provider>()`` block whose provider commits
      after its yield in that mode; the connection was passed in by the caller (then the callers are checked).
      (b) Every ROLLBACK of a value that may be the shared connection (``rollback()``, or the sqlite3 connection used as a
      context manager — also in the provider: ``with self.P as conn: yield conn``) not dominated by an ownership fact is
      listed; it is a violation exactly when some write of (a) can be pending in single-connection mode, because then it
      discards an acknowledged write of another operation.  While (a) holds such a roll-back only discards the failing
      operation's own statements — what closing a per-call connection does — so it is reported as discharged.
      Planted fixture: fixtures/c21/tx_scope.py.

* R5  (quiescent at suspension) where a coroutine / generator method of either class gives up control (``yield`` / ``yield from`` /
      ``await`` / ``async with`` / ``async for`` — the only places where *other* store operations can run in between), the
      possibly-shared connection carries nothing of this call: (a) no row-producing statement started through it (``execute`` /
      ``executemany`` on the connection or on a cursor of it, text not recognisably DML-without-RETURNING / DDL / transaction control)
      is still un-exhausted, (b) no write of R4(a) is still uncommitted.  ``execute`` only starts a SELECT; it stays active on its
      connection until the cursor is drained.  On the one persistent connection the running scan sees what the other operations
      write through that same connection meanwhile (a consumer that appends one tick per tick read never reaches the end of
      ``stream_ticks``), a pending write is visible to them and is committed / rolled back by them; a per-call connection reads
      the snapshot its statement started on and keeps its transaction to itself — so the two modes give different results.
      Decided on the CFG (normal edges): the statement handle is followed through locals, ``cursor.execute()`` (returns its cursor)
      and lazy views (generator expression, ``iter`` / ``map`` / ``enumerate`` / ``zip`` / ``itertools``); it is finished by ``fetchall()``,
      ``close()``, a draining call (``list`` / ``tuple`` / ``sorted`` / ``set`` / ``dict`` / ``sum`` / ``min`` / ``max``), an eager comprehension,
      ``*``-unpacking, re-execution of the cursor, or a ``for`` loop over it that runs to exhaustion (its ``break`` exits leave it
      open); ``fetchone`` / ``fetchmany`` do not finish it; a cursor that is never bound is finalised with its expression.  A
      suspension is reported when it is reachable from the ``execute`` without passing a finishing site (for (b): without passing
      ``commit()`` / ``rollback()`` on that connection or the end of a with-block that commits, per mode, by R4's forward
      propagation) and neither the statement nor the suspension is dominated by an ownership fact.  Merely *holding* an idle
      connection across a suspension (rows fetched inside the block and yielded inside it) is not reported: nothing differs between
      the modes then.  Planted fixture: fixtures/c21/suspended_statement.py.

Not decided: equality of results between the modes beyond "the same statements run on an open connection, no result
is read from the connection's history and the connection is idle whenever other operations can run"; writes to
connection-lifetime configuration (``row_factory``, PRAGMAs); a cursor that is returned / passed to another function with its
statement still running (observed), and suspensions reached only through an exception edge;
interleaving of another task between a write and a ``changes()`` / difference read (R5(b) demands the commit before any
suspension, it does not order the read); statements of an operation that *raised* before its commit (per-call mode discards them on close, the
shared connection keeps them in its open transaction until the next commit); writes made by functions outside the two
classes that are given the connection (``_run_migrations(conn)``); statements whose text has no constant piece (observed);
thread affinity of the shared connection.
"""

from __future__ import annotations

import ast
import re
from pathlib import Path

from ..astx import _tv, atoms, call_name, calls, dotted, enclosing_stmt, expand, facts_at, kwarg, last
from ..cfg import CFG, exprs_in_node
from ..index import AnchorError, FuncNode, Module, Repo, _set_parents, parent, walk_shallow
from ..selftest import Twin, multi

EXPLANATION = (
    "Connection-ownership rules over server/_store/sqlite/sqlite_workflow_store.py (SqliteWorkflowStore) and sqlite_state_store.py "
    "(SqliteStateStore), bound by data flow: P = the attribute the workflow store's _connect yields without opening; B = the state-store "
    "attribute that create_state_store fills with self.P; providers = methods returning/yielding self.P / self.B. "
    "R1: no close() / contextlib.closing on a value that may be P or B (attribute, provider result, local or with-target reached by such a "
    "definition on the CFG) unless dominated by an ownership fact (negated hand-out guard, `x is not self.B`); the owner's lifecycle methods may "
    "close P. A planted fixture keeps the zero-expected form honest. R2: sqlite3.connect only in the provider / opener / static helpers; the "
    "per-call branch closes what it opened, the single-connection branch closes nothing; AgentCore selects single_connection=True. "
    "R3: no per-call result comes from connection-lifetime state: through a value that may be the shared connection (or `cursor.connection` / a cursor "
    "made from it) no read of total_changes / in_transaction and no SQL total_changes() / changes() / last_insert_rowid(), unless the read is on the "
    "per-call branch only (ownership fact), is a difference of two total_changes reads, is `if conn.in_transaction: commit/rollback`, or (changes / "
    "last_insert_rowid) is preceded on every path by a write of the same call on the same connection. A per-call connection starts these quantities "
    "from zero, the shared one carries the whole store's history, so such a value differs between the modes; cursor.rowcount / lastrowid do not. "
    "Planted fixture fixtures/c21/lifetime_reads.py. "
    "R4 (transaction scope): (a) every data-modifying execute through a possibly-shared connection (or a call handing the connection to a sibling helper "
    "that leaves the commit to its caller) is followed on every normal path to the method's return by commit() on the same connection, decided per mode "
    "(hand-out guards true/false) and per connection-parameter case by forward propagation of truth values; a commit gated on owning the connection leaves "
    "the write pending in single-connection mode (lost at process end, discarded by any later ROLLBACK) while a per-call connection has made it durable. "
    "(b) rollback() / `with <sqlite3 connection>` on a value that may be the shared connection is a violation exactly when some write of (a) can be pending "
    "in single-connection mode (it then discards another operation's acknowledged write); otherwise it only discards the failing operation's own statements, "
    "as closing a per-call connection does. Planted fixture fixtures/c21/tx_scope.py. "
    "R5 (quiescent at suspension): at every point where a coroutine / generator method of the two classes gives up control (yield, yield from, await, "
    "async with, async for) no row-producing statement started through a possibly-shared connection is still un-exhausted and no write is still "
    "uncommitted. The handle is followed through locals, cursor.execute() and lazy views (generator expression, iter/map/enumerate/zip/itertools); "
    "fetchall(), close(), list()/tuple()/sorted()/…, an eager comprehension, re-execution and a for loop that runs to exhaustion finish it, fetchone() "
    "does not; reachability on the CFG (normal edges), for writes per mode with R4's propagation up to commit()/rollback()/a committing with-block; "
    "ownership facts exempt the per-call branch. On the persistent connection a running SELECT sees what other operations write through that connection "
    "in between and a pending write is visible to / ended by them, a per-call connection reads its snapshot and keeps its transaction, so the modes "
    "diverge. Holding an idle connection across a suspension is not reported. Planted fixture fixtures/c21/suspended_statement.py. "
    "NOT decided: result equality beyond running the same statements on an open connection without reading its history and with the connection idle "
    "whenever other operations can run; writes to connection configuration (row_factory, PRAGMA); cursors handed to other functions with a live statement; "
    "suspensions reached only through exception edges; the order of a write and a changes() / difference read; statements of an operation that raised before its commit; writes by functions outside "
    "the two classes that are given the connection; thread affinity."
)
TRUSTED = ["CPython ast", "sqlite3: a closed connection raises ProgrammingError on every later use; `with conn:` does not close, it commits on success and rolls back on exception",
           "sqlite3 (legacy transaction control): INSERT/UPDATE/DELETE/REPLACE open a transaction that lasts until commit()/rollback(); close() discards it",
           "sqlite3: Connection.total_changes / in_transaction and SQL total_changes() / changes() / last_insert_rowid() are per-connection state "
           "(zero / idle on a new connection); Cursor.rowcount / lastrowid belong to the statement the cursor executed",
           "sqlite3: execute() of a row-producing statement only starts it; it stays active on its connection until the cursor is drained, closed, "
           "re-executed or finalised; a statement running on a connection sees rows written through that same connection, a WAL reader on another "
           "connection reads the snapshot it started on; list()/tuple()/sorted()/set()/dict()/sum()/min()/max() consume their iterable completely"]
LEVEL_TEXT = "static typestate/ownership rule (T11) with CFG reaching definitions and guard facts; no repo code executed"
LEVEL_NOTE = ("A pass means no code path closes the shared connection, no operation reads the connection's accumulated history as its result, every write "
              "is committed on its connection before its operation returns in both modes, and no statement or write of an operation is open on the "
              "connection while that operation is suspended; "
              "it does not prove equal results of the two modes.")
TECHNIQUE = "data-flow binding of the shared connection, CFG reaching definitions of close() receivers, dominance facts for ownership guards, connection-lifetime reads (attribute and SQL text) with delta / dominance acceptance, per-mode forward propagation of truth values for commit-after-write, statement-handle aliasing with CFG reachability from execute() to suspension points avoiding the draining sites, planted fixtures"

WS_MOD = "llama_agents.server._store.sqlite.sqlite_workflow_store"
SS_MOD = "llama_agents.server._store.sqlite.sqlite_state_store"
AC_MOD = "llama_agents.agentcore.entrypoint"
WS, SS = "SqliteWorkflowStore", "SqliteStateStore"
FACTORY = "create_state_store"
LIFECYCLE = {"close", "aclose", "__del__", "__exit__", "__aexit__", "dispose", "shutdown", "stop"}
FIXTURE = Path(__file__).resolve().parent.parent.parent / "fixtures" / "c21" / "borrowed_close.py"
FIXTURE_R3 = FIXTURE.parent / "lifetime_reads.py"
FIXTURE_R4 = FIXTURE.parent / "tx_scope.py"
FIXTURE_R5 = FIXTURE.parent / "suspended_statement.py"


def _self_attr(e: ast.AST | None) -> str | None:
    if isinstance(e, ast.Attribute) and isinstance(e.value, ast.Name) and e.value.id == "self":
        return e.attr
    return None


def _self_call(c: ast.AST) -> str | None:
    return _self_attr(c.func) if isinstance(c, ast.Call) else None


def _methods(c: ast.ClassDef) -> dict[str, ast.AST]:
    return {n.name: n for n in c.body if isinstance(n, FuncNode)}


def _is_connect_call(e: ast.AST) -> bool:
    return isinstance(e, ast.Call) and last(call_name(e)) == "connect"


class Owner:
    """One class, its protected connection attributes and the methods that may hand them out."""

    def __init__(self, m: Module, cls: ast.ClassDef, protected: set[str], owns: bool):
        self.m, self.cls, self.protected, self.owns = m, cls, set(protected), owns
        self.methods = _methods(cls)
        self.providers: dict[str, list[tuple[ast.AST, set]]] = {}  # method -> [(hand-out node, guard facts)]
        for name, fn in self.methods.items():
            outs = []
            cfg0 = None
            for n in walk_shallow(fn):
                v = None
                if isinstance(n, ast.Return):
                    v = n.value
                elif isinstance(n, ast.Expr) and isinstance(n.value, ast.Yield):
                    v = n.value.value
                elif isinstance(n, ast.Yield):
                    v = n.value
                if v is not None and self._may_be_protected_expr(fn, v, n):
                    # flow-sensitive confirmation: the binding that reaches this hand-out is the protected one (the per-call
                    # branch may re-use the name that the shared branch binds with `with self.P as conn`)
                    cfg0 = cfg0 or CFG(fn)
                    if _protected_source(self, fn, v, cfg0, enclosing_stmt(n)) is not None:
                        outs.append(n)
            if outs:
                cfg = cfg0 or CFG(fn)
                res = []
                for n in outs:
                    st = enclosing_stmt(n)
                    facts: set = set()
                    for node in cfg.nodes_of(st):
                        facts |= facts_at(cfg, node)
                    res.append((st, facts))
                self.providers[name] = res

    def _may_be_protected_expr(self, fn: ast.AST, v: ast.AST, at: ast.AST) -> bool:
        if _self_attr(v) in self.protected:
            return True
        if isinstance(v, ast.IfExp):
            return self._may_be_protected_expr(fn, v.body, at) or self._may_be_protected_expr(fn, v.orelse, at)
        if isinstance(v, ast.BoolOp):
            return any(self._may_be_protected_expr(fn, x, at) for x in v.values)
        if isinstance(v, ast.Name):
            # assignments and `with <expr> as name` (a sqlite3 connection used as a context manager enters as itself)
            return any(self._may_be_protected_expr(fn, d, at) for _st, d in _binding_sites(fn, v.id) if d is not v)
        return False

    def handout_guards(self) -> set:
        """Atoms that hold whenever a provider hands out the shared object (intersection over hand-out sites)."""
        sets = [f for outs in self.providers.values() for _n, f in outs]
        if not sets:
            return set()
        g = set(sets[0])
        for s in sets[1:]:
            g &= s
        return g


def _all_defs(fn: ast.AST, name: str) -> list[ast.AST]:
    out = []
    for n in walk_shallow(fn):
        if isinstance(n, ast.Assign) and any(isinstance(t, ast.Name) and t.id == name for t in n.targets):
            out.append(n.value)
        elif isinstance(n, ast.AnnAssign) and isinstance(n.target, ast.Name) and n.target.id == name and n.value is not None:
            out.append(n.value)
    return out


# ----------------------------------------------------------------------------------------------- binding


def bind(repo: Repo) -> tuple[Owner, Owner, dict]:
    wm, wcls = repo.cls(f"{WS_MOD}:{WS}")
    sm, scls = repo.cls(f"{SS_MOD}:{SS}")
    wmeth = _methods(wcls)
    # P: attribute of the workflow store assigned from an opener call in __init__ under the mode flag, and
    # yielded by a context-manager method without being opened there
    init = wmeth.get("__init__")
    if init is None:
        raise AnchorError(f"{WS}.__init__ not found")
    opened = set()
    for n in walk_shallow(init):
        if isinstance(n, ast.Assign) and isinstance(n.value, ast.Call):
            callee = _self_call(n.value)
            opens = _is_connect_call(n.value) or (callee in wmeth and any(_is_connect_call(c) for c in calls(wmeth[callee])))
            if opens:
                opened |= {_self_attr(t) for t in n.targets if _self_attr(t)}
    if len(opened) != 1:
        raise AnchorError(f"C21: cannot bind the persistent connection attribute of {WS} (attributes opened in __init__: {sorted(opened)})")
    probe = Owner(wm, wcls, opened, owns=True)
    handed_out = any(isinstance(x, ast.Yield) or (isinstance(x, ast.Expr) and isinstance(x.value, ast.Yield))
                     for outs in probe.providers.values() for st, _f in outs for x in ast.walk(st))
    if not handed_out:
        raise AnchorError(f"C21: no context-manager method of {WS} yields self.{next(iter(opened))}; the single-connection mode cannot be bound")
    P = opened
    p_attr = next(iter(P))
    # factory: create_state_store passes self.P into the state store's constructor
    fac = wmeth.get(FACTORY)
    if fac is None:
        raise AnchorError(f"{WS}.{FACTORY} not found")
    ctor = [c for c in calls(fac) if (dotted(c.func) and repo.resolve_dotted(wm, dotted(c.func)) == f"{SS_MOD}:{SS}")]
    if not ctor:
        raise AnchorError(f"C21: {WS}.{FACTORY} no longer constructs {SS}")
    sinit = _methods(scls).get("__init__")
    if sinit is None:
        raise AnchorError(f"{SS}.__init__ not found")
    sparams = [a.arg for a in sinit.args.args[1:]] + [a.arg for a in sinit.args.kwonlyargs]
    passed = set()
    for c in ctor:
        for i, a in enumerate(c.args):
            if _self_attr(a) == p_attr and i < len(sparams):
                passed.add(sparams[i])
        for k in c.keywords:
            if _self_attr(k.value) == p_attr and k.arg:
                passed.add(k.arg)
    if not passed:
        raise AnchorError(f"C21: {WS}.{FACTORY} does not hand self.{p_attr} to {SS}: the single-connection binding of the state store must be re-read")
    B = set()
    for n in walk_shallow(sinit):
        if isinstance(n, (ast.Assign, ast.AnnAssign)) and n.value is not None and isinstance(n.value, ast.Name) and n.value.id in passed:
            tgts = n.targets if isinstance(n, ast.Assign) else [n.target]
            B |= {_self_attr(t) for t in tgts if _self_attr(t)}
    if not B:
        raise AnchorError(f"C21: {SS}.__init__ does not keep its `{sorted(passed)}` parameter in an attribute")
    w = Owner(wm, wcls, {p_attr}, owns=True)
    s = Owner(sm, scls, B, owns=False)
    if not w.providers:
        raise AnchorError(f"C21: no method of {WS} yields self.{p_attr}")
    if not s.providers:
        raise AnchorError(f"C21: no method of {SS} returns self.{'/'.join(sorted(B))}")
    return w, s, {"P": p_attr, "B": sorted(B), "factory_param": sorted(passed), "opener_sites": ctor}


# ----------------------------------------------------------------------------------------------- R1 matcher


def _binding_sites(fn: ast.AST, name: str) -> list[tuple[ast.AST, ast.AST]]:
    """(statement that binds local `name`, bound expression) — assignments and with-targets."""
    out = []
    for n in walk_shallow(fn):
        if isinstance(n, ast.Assign) and any(isinstance(t, ast.Name) and t.id == name for t in n.targets):
            out.append((n, n.value))
        elif isinstance(n, ast.AnnAssign) and isinstance(n.target, ast.Name) and n.target.id == name and n.value is not None:
            out.append((n, n.value))
        elif isinstance(n, (ast.With, ast.AsyncWith)):
            for i in n.items:
                if isinstance(i.optional_vars, ast.Name) and i.optional_vars.id == name:
                    out.append((n, i.context_expr))
        elif isinstance(n, ast.NamedExpr) and isinstance(n.target, ast.Name) and n.target.id == name:
            out.append((enclosing_stmt(n), n.value))
    return out


def _protected_source(own: Owner, fn: ast.AST, e: ast.AST, cfg: CFG, use_stmt: ast.AST, depth: int = 0, taint: dict[str, str] | None = None) -> str | None:
    """Why the value of ``e`` at ``use_stmt`` may be the shared connection (None = it cannot, as far as the rule sees).
    ``taint``: parameters of ``fn`` that a caller in the same class fills with a possibly-shared connection."""
    taint = taint or {}
    if depth > 3:
        return None
    if isinstance(e, ast.Await):
        return _protected_source(own, fn, e.value, cfg, use_stmt, depth, taint)
    if _self_attr(e) in own.protected:
        return f"self.{e.attr}"
    if isinstance(e, ast.IfExp):
        return _protected_source(own, fn, e.body, cfg, use_stmt, depth, taint) or _protected_source(own, fn, e.orelse, cfg, use_stmt, depth, taint)
    if isinstance(e, ast.BoolOp):
        for v in e.values:
            r = _protected_source(own, fn, v, cfg, use_stmt, depth, taint)
            if r:
                return r
        return None
    if isinstance(e, ast.Call):
        sc = _self_call(e)
        if sc in own.providers:
            return f"self.{sc}() may return self.{'/'.join(sorted(own.protected))}"
        if last(call_name(e)) == "closing" and e.args:
            return _protected_source(own, fn, e.args[0], cfg, use_stmt, depth, taint)
        return None
    if isinstance(e, ast.Name):
        use_nodes = cfg.nodes_of(use_stmt)
        sites = _binding_sites(fn, e.id)
        all_def_nodes = [n for st, _v in sites for n in cfg.nodes_of(st)]
        for st, v in sites:
            dn = cfg.nodes_of(st)
            others = [n for n in all_def_nodes if n not in dn]
            reach = cfg.reach(dn, blocked=others, include_starts=False)
            if not any(u in reach for u in use_nodes) and not (st is use_stmt):
                continue
            r = _protected_source(own, fn, v, cfg, st, depth + 1, taint)
            if r:
                return f"{e.id} <- {r} ({own.m.rel}:{st.lineno})"
        if e.id in taint:
            # the parameter's own value reaches the use when no re-binding lies on every path from entry
            if any(u in cfg.reach([cfg.entry], blocked=all_def_nodes) for u in use_nodes):
                return f"parameter {e.id} <- {taint[e.id]}"
        return None
    return None


def _ownership_guard(own: Owner, facts: set, recv: ast.AST) -> bool:
    neg = {(t, not p) for t, p in own.handout_guards()}
    if facts & neg:
        return True
    for a in own.protected:
        if (f"self.{a} is None", True) in facts or (f"None is self.{a}", True) in facts:
            return True
        # facts are recorded both as written and with straight-line locals expanded
        for r in {ast.unparse(recv), ast.unparse(expand(recv, recv))}:
            for lhs, rhs in ((r, f"self.{a}"), (f"self.{a}", r)):
                if (f"{lhs} is {rhs}", False) in facts:
                    return True
    return False


def _helper_taint(own: Owner) -> dict[str, dict[str, str]]:
    """method -> {parameter: why} for methods of the class that receive a possibly-shared connection from a
    sibling method (one call deep): ``self._release(conn)``."""
    out: dict[str, dict[str, str]] = {}
    for name, fn in own.methods.items():
        cfg = None
        for c in calls(fn):
            h = _self_call(c)
            if h is None or h not in own.methods or h in own.providers or h == name:
                continue
            hf = own.methods[h]
            params = [a.arg for a in hf.args.posonlyargs + hf.args.args][1:]
            bound = list(zip(params, c.args)) + [(k.arg, k.value) for k in c.keywords if k.arg in params]
            for pname, arg in bound:
                cfg = cfg or CFG(fn)
                src = _protected_source(own, fn, arg, cfg, enclosing_stmt(c))
                if src:
                    out.setdefault(h, {}).setdefault(pname, f"{own.cls.name}.{name} passes {src}")
    return out


def close_sites(own: Owner) -> list[dict]:
    """Every close of a value that may be the shared connection, with its verdict."""
    out = []
    taints = _helper_taint(own)
    for name, fn in own.methods.items():
        cfg = None
        taint = taints.get(name, {})
        cands: list[tuple[ast.AST, ast.AST, str]] = []  # (site node, receiver expr, how)
        for n in walk_shallow(fn):
            if isinstance(n, ast.Call) and isinstance(n.func, ast.Attribute) and n.func.attr == "close" and not n.args:
                cands.append((n, n.func.value, "close()"))
            elif isinstance(n, ast.Call) and last(call_name(n)) == "closing" and n.args:
                cands.append((n, n.args[0], "contextlib.closing"))
        for site, recv, how in cands:
            cfg = cfg or CFG(fn)
            st = enclosing_stmt(site)
            src = _protected_source(own, fn, recv, cfg, st, taint=taint)
            if src is None:
                continue
            facts: set = set()
            nodes = cfg.nodes_of(st)
            if nodes:
                facts = set.intersection(*[facts_at(cfg, n) for n in nodes])
            guarded = _ownership_guard(own, facts, recv)
            lifecycle = own.owns and name in LIFECYCLE
            out.append({"fn": fn, "site": site, "recv": ast.unparse(recv), "how": how, "source": src, "ok": guarded or lifecycle,
                        "why_ok": "ownership guard" if guarded else ("owner's lifecycle method" if lifecycle else "")})
    return sorted(out, key=lambda d: d["site"].lineno)


def _fixture_owner() -> tuple[Owner, Module]:
    if not FIXTURE.is_file():
        raise AnchorError(f"C21.R1: planted fixture {FIXTURE} is missing; the zero-expected rule would be unverifiable")
    src = FIXTURE.read_text(encoding="utf-8")
    tree = ast.parse(src, filename=str(FIXTURE))
    _set_parents(tree)
    m = Module("fixtures.c21.borrowed_close", FIXTURE, "fixtures/c21/borrowed_close.py", src, tree)
    cls = next((n for n in tree.body if isinstance(n, ast.ClassDef) and n.name == "BorrowingStore"), None)
    if cls is None:
        raise AnchorError("C21.R1: fixture class BorrowingStore not found")
    return Owner(m, cls, {"_shared_conn"}, owns=False), m


# ----------------------------------------------------------------------------------------------- R3 matcher

# sqlite3 API knowledge (TRUSTED): state that belongs to the lifetime of a connection, not to one statement.
#   cumulative : counts every write since the connection was opened -> only a difference of two reads is per-call
#   state      : left behind by whatever ran before on the connection -> only transaction housekeeping may look at it
LIFETIME_ATTRS = {"total_changes": "cumulative", "in_transaction": "state"}
#   SQL functions with the same scope; `changes()` / `last_insert_rowid()` describe the connection's most recent
#   write, which is this call's own statement only when such a statement precedes the read on every path
SQL_LIFETIME = re.compile(r"(?i)(?<![\w.])(total_changes|changes|last_insert_rowid)\s*\(")
_SQL_LITERAL = re.compile(r"'(?:[^']|'')*'")
_EXEC = {"execute", "executemany", "executescript"}
_CURSOR_MAKERS = _EXEC | {"cursor"}


def _fixture_class(path: Path, cls_name: str, protected: set[str]) -> Owner:
    if not path.is_file():
        raise AnchorError(f"C21: planted fixture {path} is missing; the zero-expected rule would be unverifiable")
    src = path.read_text(encoding="utf-8")
    tree = ast.parse(src, filename=str(path))
    _set_parents(tree)
    m = Module(f"fixtures.c21.{path.stem}", path, f"fixtures/c21/{path.name}", src, tree)
    cls = next((n for n in tree.body if isinstance(n, ast.ClassDef) and n.name == cls_name), None)
    if cls is None:
        raise AnchorError(f"C21: fixture class {cls_name} not found in {path.name}")
    return Owner(m, cls, protected, owns=False)


def _conn_source(own: Owner, fn: ast.AST, e: ast.AST, cfg: CFG, st: ast.AST, taint: dict[str, str], depth: int = 0) -> str | None:
    """Like _protected_source, and also sees through a cursor: ``cur.connection`` / a cursor made from the connection."""
    r = _protected_source(own, fn, e, cfg, st, taint=taint)
    if r or depth > 2:
        return r
    if isinstance(e, ast.Attribute) and e.attr == "connection":
        r = _cursor_source(own, fn, e.value, cfg, st, taint, depth + 1)
        return f"connection of a cursor of {r}" if r else None
    return None


def _cursor_source(own: Owner, fn: ast.AST, e: ast.AST, cfg: CFG, st: ast.AST, taint: dict[str, str], depth: int = 0) -> str | None:
    """Why ``e`` may be a cursor of the shared connection."""
    if depth > 3:
        return None
    if isinstance(e, ast.Call) and isinstance(e.func, ast.Attribute) and e.func.attr in _CURSOR_MAKERS:
        return _conn_source(own, fn, e.func.value, cfg, st, taint, depth) or _cursor_source(own, fn, e.func.value, cfg, st, taint, depth + 1)
    if isinstance(e, ast.Name):
        for bst, v in _binding_sites(fn, e.id):
            r = _cursor_source(own, fn, v, cfg, bst, taint, depth + 1)
            if r:
                return r
    return None


def _conn_key(fn: ast.AST, e: ast.AST, depth: int = 0) -> str | None:
    """A name for *which* connection object an expression denotes inside one function (None = cannot tell):
    a cursor is keyed by the connection it was made from."""
    if depth > 3:
        return None
    if isinstance(e, ast.Attribute) and e.attr == "connection":
        return _conn_key(fn, e.value, depth + 1)
    if isinstance(e, ast.Call) and isinstance(e.func, ast.Attribute) and e.func.attr in _CURSOR_MAKERS:
        return _conn_key(fn, e.func.value, depth + 1)
    if _self_attr(e):
        return f"self.{e.attr}"
    if isinstance(e, ast.Name):
        made = [v for _s, v in _binding_sites(fn, e.id) if isinstance(v, ast.Call) and isinstance(v.func, ast.Attribute) and v.func.attr in _CURSOR_MAKERS]
        if made:
            keys = {_conn_key(fn, v, depth + 1) for v in made}
            return keys.pop() if len(keys) == 1 else None
        alias = [v for _s, v in _binding_sites(fn, e.id) if isinstance(v, ast.Name)]
        if len(alias) == 1 and len(_binding_sites(fn, e.id)) == 1:
            return _conn_key(fn, alias[0], depth + 1)
        return e.id
    return None


def _sql_fragments(own: Owner, fn: ast.AST, e: ast.AST | None, depth: int = 0) -> list[str]:
    """The constant pieces of the SQL text an expression may evaluate to (flow-insensitive; pieces, not the whole text)."""
    if e is None or depth > 4:
        return []
    if isinstance(e, ast.Constant):
        return [e.value] if isinstance(e.value, str) else []
    if isinstance(e, ast.JoinedStr):
        return [x for v in e.values for x in _sql_fragments(own, fn, v, depth + 1)]
    if isinstance(e, ast.FormattedValue):
        return _sql_fragments(own, fn, e.value, depth + 1)
    if isinstance(e, ast.BinOp):
        return _sql_fragments(own, fn, e.left, depth + 1) + _sql_fragments(own, fn, e.right, depth + 1)
    if isinstance(e, ast.IfExp):
        return _sql_fragments(own, fn, e.body, depth + 1) + _sql_fragments(own, fn, e.orelse, depth + 1)
    if isinstance(e, (ast.Tuple, ast.List)):
        return [x for v in e.elts for x in _sql_fragments(own, fn, v, depth + 1)]
    if isinstance(e, ast.Call) and isinstance(e.func, ast.Attribute):  # " ".join([...]) / "...".format(...)
        return _sql_fragments(own, fn, e.func.value, depth + 1) + [x for a in e.args for x in _sql_fragments(own, fn, a, depth + 1)]
    if isinstance(e, ast.Name):
        vals: list[ast.AST] = []
        for n in walk_shallow(fn):
            if isinstance(n, ast.AugAssign) and isinstance(n.target, ast.Name) and n.target.id == e.id:
                vals.append(n.value)
        vals += _all_defs(fn, e.id)
        if not vals:
            for n in own.m.tree.body:
                if isinstance(n, ast.Assign) and any(isinstance(t, ast.Name) and t.id == e.id for t in n.targets):
                    vals.append(n.value)
                elif isinstance(n, ast.AnnAssign) and isinstance(n.target, ast.Name) and n.target.id == e.id and n.value is not None:
                    vals.append(n.value)
        return [x for v in vals for x in _sql_fragments(own, fn, v, depth + 1)]
    return []


def _sql_functions(frags: list[str]) -> set[str]:
    return {m.group(1).lower() for f in frags for m in SQL_LIFETIME.finditer(_SQL_LITERAL.sub("''", f))}


def _own_write_kind(frags: list[str]) -> set[str]:
    """What a statement of this call establishes for later `changes()` / `last_insert_rowid()` reads."""
    txt = _SQL_LITERAL.sub("''", " ".join(frags)).strip().upper()
    out: set[str] = set()
    if re.match(r"(INSERT|REPLACE|UPDATE|DELETE)\b", txt):
        out.add("changes")
        # a plain INSERT ... VALUES always inserts a row; OR IGNORE / ON CONFLICT / INSERT ... SELECT may insert none
        if re.match(r"(INSERT|REPLACE)\b", txt) and re.search(r"\bVALUES\b", txt) and not re.search(r"\bIGNORE\b|\bON\s+CONFLICT\b", txt):
            out.add("last_insert_rowid")
    return out


def _other_operand_is_read(fn: ast.AST, binop: ast.AST, me: ast.AST, attr: str, key: str) -> bool:
    if not (isinstance(binop, ast.BinOp) and isinstance(binop.op, ast.Sub)):
        return False
    other = binop.right if binop.left is me else binop.left

    def direct(x: ast.AST) -> bool:
        return isinstance(x, ast.Attribute) and x.attr == attr and _conn_key(fn, x.value) == key

    if direct(other):
        return True
    if isinstance(other, ast.Name):
        defs = _all_defs(fn, other.id)
        return bool(defs) and all(direct(d) for d in defs)
    return False


def _is_delta(fn: ast.AST, read: ast.Attribute) -> bool:
    """The read takes part only in a difference of two reads of the same counter of the same connection."""
    key = _conn_key(fn, read.value)
    if key is None:
        return False
    p = parent(read)
    if _other_operand_is_read(fn, p, read, read.attr, key):
        return True
    tgt = None
    if isinstance(p, ast.Assign) and p.value is read and len(p.targets) == 1 and isinstance(p.targets[0], ast.Name):
        tgt = p.targets[0].id
    elif isinstance(p, ast.AnnAssign) and p.value is read and isinstance(p.target, ast.Name):
        tgt = p.target.id
    if tgt is None:
        return False
    if any(not (isinstance(d, ast.Attribute) and d.attr == read.attr and _conn_key(fn, d.value) == key) for d in _all_defs(fn, tgt)):
        return False
    loads = [n for n in walk_shallow(fn, into_nested=True) if isinstance(n, ast.Name) and n.id == tgt and isinstance(n.ctx, ast.Load)]
    return bool(loads) and all(_other_operand_is_read(fn, parent(n), n, read.attr, key) for n in loads)


def _is_housekeeping(fn: ast.AST, read: ast.Attribute) -> bool:
    """``if conn.in_transaction: conn.commit() / conn.rollback()`` — the state only decides whether to end a transaction."""
    key = _conn_key(fn, read.value)
    node: ast.AST = read
    p = parent(node)
    while isinstance(p, ast.UnaryOp) and isinstance(p.op, ast.Not):
        node, p = p, parent(p)
    if not (isinstance(p, ast.If) and p.test is node and key is not None):
        return False

    def ends_tx(s: ast.stmt) -> bool:
        if isinstance(s, ast.Pass):
            return True
        return (isinstance(s, ast.Expr) and isinstance(s.value, ast.Call) and isinstance(s.value.func, ast.Attribute)
                and s.value.func.attr in ("commit", "rollback") and not s.value.args and _conn_key(fn, s.value.func.value) == key)

    return all(ends_tx(s) for s in p.body + p.orelse)


def lifetime_reads(own: Owner) -> tuple[list[dict], int]:
    """Every read of connection-lifetime state through a value that may be the shared connection, with its verdict;
    plus the number of attribute uses of such values that were examined (floor)."""
    out: list[dict] = []
    examined = 0
    taints = _helper_taint(own)
    for name, fn in own.methods.items():
        taint = taints.get(name, {})
        cfg = CFG(fn)

        def facts_of(st: ast.AST) -> set:
            nodes = cfg.nodes_of(st)
            return set.intersection(*[facts_at(cfg, n) for n in nodes]) if nodes else set()

        execs: list[tuple[ast.Call, str | None, list[str]]] = []  # statements run on the possibly-shared connection
        for n in walk_shallow(fn):
            if not (isinstance(n, ast.Attribute) and isinstance(n.ctx, ast.Load)):
                continue
            st = enclosing_stmt(n)
            if st is None:
                continue
            src = _conn_source(own, fn, n.value, cfg, st, taint)
            via_cursor = None if src else _cursor_source(own, fn, n.value, cfg, st, taint)
            if src is None and via_cursor is None:
                continue
            examined += 1
            call = parent(n)
            if n.attr in _EXEC and isinstance(call, ast.Call) and call.func is n:
                execs.append((call, src or via_cursor, _sql_fragments(own, fn, call.args[0] if call.args else kwarg(call, "sql"))))
            if src is None or n.attr not in LIFETIME_ATTRS:
                continue
            kind = LIFETIME_ATTRS[n.attr]
            guarded = _ownership_guard(own, facts_of(st), n.value)
            why = "ownership guard" if guarded else ""
            if not why and kind == "cumulative" and _is_delta(fn, n):
                why = "difference of two reads"
            if not why and kind == "state" and _is_housekeeping(fn, n):
                why = "transaction housekeeping"
            out.append({"fn": fn, "site": n, "what": f"{ast.unparse(n)}", "slot": n.attr, "source": src, "ok": bool(why), "why_ok": why,
                        "detail": "it counts every row written through the connection since it was opened" if kind == "cumulative"
                        else "it reflects what earlier operations left behind on the connection"})
        for call, src, frags in execs:
            st = enclosing_stmt(call)
            key = _conn_key(fn, call.func.value)
            for f in sorted(_sql_functions(frags)):
                guarded = _ownership_guard(own, facts_of(st), call.func.value)
                why = "ownership guard" if guarded else ""
                if not why and f != "total_changes" and key is not None:
                    writers = [n for c2, _s, fr in execs if c2 is not call and f in _own_write_kind(fr) and _conn_key(fn, c2.func.value) == key
                               for n in cfg.nodes_of(enclosing_stmt(c2))]
                    here = cfg.nodes_of(st)
                    if writers and here and not cfg.must_pass([cfg.entry], here, writers):
                        why = "a write of this call on the same connection precedes it on every path"
                out.append({"fn": fn, "site": call, "what": f"SQL {f}() through `{ast.unparse(call.func.value)}`", "slot": f"sql:{f}", "source": src,
                            "ok": bool(why), "why_ok": why,
                            "detail": "it counts every row written through the connection since it was opened" if f == "total_changes"
                            else "without a preceding write of this call it describes the last write of an earlier operation (0 on a fresh connection)"})
    return sorted(out, key=lambda d: d["site"].lineno), examined


# ----------------------------------------------------------------------------------------------- R4 matcher


def _surface(assume: dict[str, bool]) -> dict[str, bool]:
    """The assumed atoms in the surface forms a test may be written in (`X is None` / `X is not None` / `X`)."""
    out = dict(assume)
    for txt, v in assume.items():
        x = txt[: -len(" is None")] if txt.endswith(" is None") else (txt[len("None is "):] if txt.startswith("None is ") and not txt.startswith("None is not ") else None)
        if x is not None:
            for form, val in ((f"{x} is None", v), (f"None is {x}", v), (f"{x} is not None", not v), (f"None is not {x}", not v), (x, not v)):
                out.setdefault(form, val)
    return out


def _reach_states(cfg: CFG, start, assume: dict[str, bool], blocked=()) -> dict:
    """Private variant of astx.reach_assuming: the same forward propagation of known truth values (flag locals, re-binding
    forgets, joins keep what agrees, decided tests take one edge), but it returns the state *at* every reached node and never
    enters a ``blocked`` node.  Normal edges only."""
    lx = {"exc", "cancel"}
    blocked = set(blocked)
    states: dict = {}
    work: list = []

    def forget(state: dict[str, bool], name: str) -> dict[str, bool]:
        pat = re.compile(rf"(?<![A-Za-z0-9_.]){re.escape(name)}(?![A-Za-z0-9_])")
        return {k: v for k, v in state.items() if not pat.search(k)}

    def transfer(n, state: dict[str, bool]) -> dict[str, bool]:
        a = n.ast
        if n.kind in ("test", "iter") or a is None:
            if n.kind == "iter" and a is not None and hasattr(a, "target"):
                for x in ast.walk(a.target):
                    if isinstance(x, ast.Name):
                        state = forget(state, x.id)
            return state
        bound: list[tuple[str, ast.AST | None]] = []
        if isinstance(a, ast.Assign):
            for t in a.targets:
                if isinstance(t, ast.Name):
                    bound.append((t.id, a.value))
                else:
                    bound += [(x.id, None) for x in ast.walk(t) if isinstance(x, ast.Name) and isinstance(x.ctx, ast.Store)]
        elif isinstance(a, ast.AnnAssign) and isinstance(a.target, ast.Name) and a.value is not None:
            bound.append((a.target.id, a.value))
        elif isinstance(a, ast.AugAssign) and isinstance(a.target, ast.Name):
            bound.append((a.target.id, None))
        elif isinstance(a, (ast.With, ast.AsyncWith)):
            for it in a.items:
                if it.optional_vars is not None:
                    bound += [(x.id, None) for x in ast.walk(it.optional_vars) if isinstance(x, ast.Name)]
        if not isinstance(a, (ast.If, ast.While, ast.For, ast.AsyncFor, ast.Try, ast.With, ast.AsyncWith)):
            for x in ast.walk(a):
                if isinstance(x, ast.NamedExpr) and isinstance(x.target, ast.Name):
                    bound.append((x.target.id, None))
        for name, val in bound:
            v = _tv(val, state) if val is not None else None
            state = forget(state, name)
            if v is not None:
                state[name] = v
        return state

    def push(n, state: dict[str, bool]) -> None:
        if n in blocked:
            return
        old = states.get(n)
        if old is None:
            states[n] = dict(state)
            work.append(n)
            return
        merged = {k: v for k, v in old.items() if state.get(k) == v}
        if merged != old:
            states[n] = merged
            work.append(n)

    def step(n, state: dict[str, bool]) -> None:
        taken = None
        if n.kind == "test" and hasattr(n.ast, "test"):
            v = _tv(n.ast.test, state)
            if v is not None:
                taken = {"T"} if v else {"F"}
        st = transfer(n, dict(state))
        for label, t in cfg.succ[n]:
            if label in lx or (taken is not None and label in ("T", "F") and label not in taken):
                continue
            s2 = dict(st)
            if n.kind == "test" and hasattr(n.ast, "test") and label in ("T", "F"):
                for atxt, pol in atoms(n.ast.test, label == "T"):
                    s2.setdefault(atxt, pol)
                s2 = _surface(s2)
            push(t, s2)

    step(start, dict(assume))
    while work:
        n = work.pop()
        step(n, dict(states[n]))
    return states


def _modes(own: Owner) -> dict[str, dict[str, bool]]:
    """The two configurations as truth values of the provider's hand-out guards: the shared object is handed out exactly
    when the guards hold (single-connection mode); per-call mode is their negation."""
    g = {t: p for t, p in own.handout_guards() if re.fullmatch(r"(None is )?self\.\w+( is None)?", t)}
    if not g:
        # the hand-out is not selected by a branch (e.g. a conditional expression): no mode facts to assume, every test on the way
        # to a commit stays undecided and both of its edges are followed (a gated commit is then reported in both modes)
        return {"single-connection": {}, "per-call": {}}
    return {"single-connection": _surface(g), "per-call": _surface({t: not p for t, p in g.items()})}


def _is_generator(fn: ast.AST) -> bool:
    return any(isinstance(n, (ast.Yield, ast.YieldFrom)) for n in walk_shallow(fn))


def _conn_value_cm(own: Owner, fn: ast.AST, item: ast.withitem) -> ast.AST | None:
    """The context expression when a with-item uses a sqlite3 *connection object* as its context manager (commit on success,
    ROLLBACK on exception) — not a generator provider (whose with-block is the provider's own code) and not closing()."""
    v = item.context_expr
    if isinstance(v, ast.Call):
        sc = _self_call(v)
        if sc in own.providers and not _is_generator(own.methods[sc]):
            return v
        return None
    if isinstance(v, (ast.Name, ast.Attribute)):
        return v
    return None


class TxScope:
    """Per class: which write statements can still be uncommitted when their method returns normally, per mode."""

    def __init__(self, own: Owner):
        self.own = own
        self.modes = _modes(own)
        self.taints = _helper_taint(own)
        self.cfgs = {name: CFG(fn) for name, fn in own.methods.items()}
        self.pending_params: dict[tuple[str, str], set[str]] = {}
        self.unknown_sql: list[ast.Call] = []
        self.results: dict[tuple[str, str], dict] = {}  # (method, key) -> verdict
        self.n_events = 0
        for _round in range(4):
            before = {k: set(v) for k, v in self.pending_params.items()}
            self._analyse()
            if before == self.pending_params:
                break

    # ---- events
    def _direct_writes(self, name: str) -> list[tuple[ast.AST, str, str]]:
        fn, cfg, taint = self.own.methods[name], self.cfgs[name], self.taints.get(name, {})
        out = []
        for c in walk_shallow(fn):
            if not (isinstance(c, ast.Call) and isinstance(c.func, ast.Attribute) and c.func.attr in ("execute", "executemany")):
                continue
            st = enclosing_stmt(c)
            recv = c.func.value
            if st is None or not (_conn_source(self.own, fn, recv, cfg, st, taint) or _cursor_source(self.own, fn, recv, cfg, st, taint)):
                continue
            frags = _sql_fragments(self.own, fn, c.args[0] if c.args else kwarg(c, "sql"))
            if not frags:
                if c not in self.unknown_sql:
                    self.unknown_sql.append(c)
                continue
            key = _conn_key(fn, recv)
            if "changes" in _own_write_kind(frags) and key is not None:
                out.append((c, key, f"`{ast.unparse(c.func)[:40]}` ({' '.join(' '.join(frags).split()[:3])} …)"))
        return out

    def _delegated_writes(self, name: str, mode: str) -> list[tuple[ast.AST, str, str]]:
        fn = self.own.methods[name]
        out = []
        for c in calls(fn):
            h = _self_call(c)
            if h is None or h == name or h not in self.own.methods:
                continue
            pend = self.pending_params.get((h, mode), set())
            if not pend:
                continue
            hf = self.own.methods[h]
            params = [a.arg for a in hf.args.posonlyargs + hf.args.args][1:]
            bound = list(zip(params, c.args)) + [(k.arg, k.value) for k in c.keywords if k.arg in params]
            for pname, arg in bound:
                if pname in pend and not (isinstance(arg, ast.Constant) and arg.value is None):
                    key = _conn_key(fn, arg)
                    if key is not None:
                        out.append((c, key, f"`self.{h}(… {ast.unparse(arg)})`, which writes on the connection it is given and leaves the commit to its caller"))
        return out

    # ---- commits
    def _commit_nodes(self, name: str, key: str) -> list:
        fn, cfg = self.own.methods[name], self.cfgs[name]
        out = []
        for c in walk_shallow(fn):
            if isinstance(c, ast.Call) and isinstance(c.func, ast.Attribute) and c.func.attr == "commit" and not c.args and _conn_key(fn, c.func.value) == key:
                out += cfg.nodes_of(enclosing_stmt(c))
        return out

    def _provider_commits(self, pname: str, mode: str) -> bool:
        """A generator provider that commits the yielded connection itself when the caller's block ends normally."""
        fn, cfg = self.own.methods[pname], self.cfgs[pname]
        s1 = _reach_states(cfg, cfg.entry, self.modes[mode])
        ys = [n for n in walk_shallow(fn) if isinstance(n, ast.Yield) and n.value is not None]
        seen = False
        for y in ys:
            st = enclosing_stmt(y)
            nodes = [n for n in cfg.nodes_of(st) if n in s1]
            if not nodes:
                continue
            seen = True
            key = _conn_key(fn, y.value)
            if key is None:
                return False
            if self._inside_conn_cm(pname, y, key):
                continue
            commits = self._commit_nodes(pname, key)
            for n in nodes:
                if cfg.exit in _reach_states(cfg, n, s1[n], blocked=commits):
                    return False
        return seen

    def _inside_conn_cm(self, name: str, node: ast.AST, key: str, mode: str | None = None) -> bool:
        """`node` lies in the body of a with-block that commits `key` when the block ends normally."""
        fn = self.own.methods[name]
        cur, p = node, parent(node)
        while p is not None and p is not fn:
            if isinstance(p, (ast.With, ast.AsyncWith)) and any(cur is s for s in p.body):
                for it in p.items:
                    tgt = it.optional_vars.id if isinstance(it.optional_vars, ast.Name) else None
                    v = _conn_value_cm(self.own, fn, it)
                    if v is not None and (_conn_key(fn, v) == key or (tgt is not None and tgt == key)):
                        return True
                    sc = _self_call(it.context_expr) if isinstance(it.context_expr, ast.Call) else None
                    if mode is not None and sc in self.own.providers and sc != name and _is_generator(self.own.methods[sc]) and tgt == key \
                            and self._provider_commits(sc, mode):
                        return True
            cur, p = p, parent(p)
        return False

    def _commit_scope(self, name: str, node: ast.AST, key: str, mode: str) -> ast.AST | None:
        """The innermost with-statement around `node` whose normal exit commits `key` in `mode` (same acceptance as
        _inside_conn_cm): a write inside it is pending only until the block ends."""
        fn = self.own.methods[name]
        cur, p = node, parent(node)
        while p is not None and p is not fn:
            if isinstance(p, (ast.With, ast.AsyncWith)) and any(cur is s for s in p.body):
                for it in p.items:
                    tgt = it.optional_vars.id if isinstance(it.optional_vars, ast.Name) else None
                    v = _conn_value_cm(self.own, fn, it)
                    if v is not None and (_conn_key(fn, v) == key or (tgt is not None and tgt == key)):
                        return p
                    sc = _self_call(it.context_expr) if isinstance(it.context_expr, ast.Call) else None
                    if sc in self.own.providers and sc != name and _is_generator(self.own.methods[sc]) and tgt == key and self._provider_commits(sc, mode):
                        return p
            cur, p = p, parent(p)
        return None

    def _end_tx_nodes(self, name: str, key: str) -> list:
        """CFG nodes of `commit()` / `rollback()` on the connection `key`: after either, nothing of this call is pending."""
        fn, cfg = self.own.methods[name], self.cfgs[name]
        out = []
        for c in walk_shallow(fn):
            if isinstance(c, ast.Call) and isinstance(c.func, ast.Attribute) and c.func.attr in ("commit", "rollback") and not c.args and _conn_key(fn, c.func.value) == key:
                out += cfg.nodes_of(enclosing_stmt(c))
        return out

    # ---- verdicts
    def _analyse(self) -> None:
        self.results = {}
        self.n_events = 0
        for name, fn in self.own.methods.items():
            cfg = self.cfgs[name]
            direct = self._direct_writes(name)
            params = [a.arg for a in fn.args.posonlyargs + fn.args.args + fn.args.kwonlyargs][1:]
            defaults = dict(zip(reversed([a.arg for a in fn.args.posonlyargs + fn.args.args]), reversed(fn.args.defaults)))
            defaults.update({a.arg: d for a, d in zip(fn.args.kwonlyargs, fn.args.kw_defaults) if d is not None})
            for mode, massume in self.modes.items():
                events = direct + self._delegated_writes(name, mode)
                if mode == "single-connection":
                    self.n_events += len(events)
                keys = {k for _c, k, _d in events}
                cparams = [p for p in params if p in keys]
                cases: list[dict[str, bool]] = [{}]
                for p in cparams:
                    d = defaults.get(p)
                    dom = [True, False] if isinstance(d, ast.Constant) and d.value is None else [False]
                    cases = [dict(c, **{f"{p} is None": v}) for c in cases for v in dom]
                for case in cases:
                    assume = dict(massume)
                    assume.update(_surface(case))
                    s1 = _reach_states(cfg, cfg.entry, assume)
                    s1[cfg.entry] = assume
                    for c, key, desc in events:
                        st = enclosing_stmt(c)
                        r = self.results.setdefault((name, key), {"fn": fn, "site": c, "key": key, "desc": desc, "pending": [], "delegated": False})
                        if self._inside_conn_cm(name, c, key, mode):
                            continue
                        commits = self._commit_nodes(name, key)
                        for n in cfg.nodes_of(st):
                            if n not in s1:
                                continue
                            if cfg.exit not in _reach_states(cfg, n, s1[n], blocked=commits):
                                continue
                            supplied = key in cparams and case.get(f"{key} is None") is False
                            rebound = any(x in s1 for bst, _v in _binding_sites(fn, key) for x in cfg.nodes_of(bst))
                            if supplied and not rebound:
                                self.pending_params.setdefault((name, mode), set()).add(key)
                                r["delegated"] = True
                            else:
                                how = mode + (f", `{key}` not passed in" if case.get(f"{key} is None") else "")
                                if how not in r["pending"]:
                                    r["pending"].append(how)
                                    r["site"], r["desc"] = c, desc

    def pending(self, mode: str = "single-connection") -> list[dict]:
        return [r for r in self.results.values() if any(p.startswith(mode) for p in r["pending"])]

    # ---- roll-back sites
    def rollback_sites(self) -> list[dict]:
        own = self.own
        out = []
        for name, fn in own.methods.items():
            cfg, taint = self.cfgs[name], self.taints.get(name, {})
            cands: list[tuple[ast.AST, ast.AST, str]] = []
            for n in walk_shallow(fn):
                if isinstance(n, (ast.With, ast.AsyncWith)):
                    for it in n.items:
                        v = _conn_value_cm(own, fn, it)
                        if v is not None:
                            cands.append((n, v, f"`with {ast.unparse(v)}` (sqlite3 connection as context manager: ROLLBACK when the block raises)"))
                elif isinstance(n, ast.Call) and isinstance(n.func, ast.Attribute) and n.func.attr == "rollback" and not n.args:
                    cands.append((n, n.func.value, f"`{ast.unparse(n)}`"))
            for site, recv, how in cands:
                st = site if isinstance(site, ast.stmt) else enclosing_stmt(site)
                src = _protected_source(own, fn, recv, cfg, st, taint=taint)
                if src is None:
                    continue
                nodes = cfg.nodes_of(st)
                facts = set.intersection(*[facts_at(cfg, n) for n in nodes]) if nodes else set()
                if _ownership_guard(own, facts, recv):
                    continue  # only ever rolls back a connection this call opened
                out.append({"fn": fn, "site": site, "how": how, "source": src, "recv": ast.unparse(recv)})
        return sorted(out, key=lambda d: d["site"].lineno)


# ----------------------------------------------------------------------------------------------- R5 matcher

# sqlite3 / Python knowledge (TRUSTED): execute() of a row-producing statement only *starts* it (rows are stepped on demand);
# it stays active on its connection until the cursor is drained, closed, re-executed or finalised.
#   lazy views : the result pulls from the cursor on demand -> still the same live statement
_LAZY_VIEWS = {"iter", "map", "filter", "enumerate", "zip", "islice", "chain", "takewhile", "dropwhile", "starmap", "batched", "zip_longest", "closing"}
#   drainers   : consume their iterable argument to the end before they return
_DRAINERS = {"list", "tuple", "sorted", "set", "frozenset", "dict", "sum", "max", "min", "deque"}
_ROW_VERBS = {"SELECT", "WITH", "PRAGMA", "EXPLAIN"}
_DML_VERBS = {"INSERT", "REPLACE", "UPDATE", "DELETE"}
_NOROW_VERBS = {"CREATE", "DROP", "ALTER", "BEGIN", "COMMIT", "END", "ROLLBACK", "SAVEPOINT", "RELEASE", "VACUUM", "ANALYZE", "REINDEX", "ATTACH", "DETACH"}
_NORMAL_ONLY = ("exc", "cancel")


def _may_yield_rows(frags: list[str]) -> bool:
    """False only when the recognisable pieces of the statement text say that the statement is complete when execute()
    returns (DML without RETURNING, DDL, transaction control).  Text without a constant piece may be anything."""
    verbs: set[str] = set()
    returning = False
    for f in frags:
        t = _SQL_LITERAL.sub("''", f).strip().upper()
        m = re.match(r"[A-Z]+", t)
        if m and m.group(0) in _ROW_VERBS | _DML_VERBS | _NOROW_VERBS:
            verbs.add(m.group(0))
        returning = returning or bool(re.search(r"\bRETURNING\b", t))
    if not verbs or returning:
        return True
    return bool(verbs & _ROW_VERBS) and not (verbs & _DML_VERBS)


def _sql_head(frags: list[str]) -> str:
    """First words of the statement for messages: the piece that starts with an SQL verb, whatever the order the pieces were found in."""
    for f in frags:
        m = re.match(r"\s*([A-Za-z]+)", f)
        if m and m.group(1).upper() in _ROW_VERBS | _DML_VERBS | _NOROW_VERBS:
            return " ".join(f.split()[:3])
    return " ".join(" ".join(frags).split()[:3])


def _suspension_nodes(cfg: CFG) -> dict:
    """CFG nodes at which a coroutine / generator gives up control (other operations of the store can run), with how."""
    out: dict = {}
    for n in cfg.nodes:
        a = n.ast
        if a is None or isinstance(a, FuncNode + (ast.ClassDef,)):
            continue
        if n.kind == "iter" and isinstance(a, ast.AsyncFor):
            out[n] = "async for"
            continue
        if n.kind == "with" and isinstance(a, ast.AsyncWith):
            out[n] = "async with"
            continue
        for x in exprs_in_node(n):
            how = ("await" if isinstance(x, ast.Await) else "yield from" if isinstance(x, ast.YieldFrom) else "yield" if isinstance(x, ast.Yield)
                   else "async comprehension" if isinstance(x, ast.comprehension) and x.is_async else None)
            if how:
                out[n] = how
                break
    return out


def _can_suspend(fn: ast.AST) -> bool:
    return isinstance(fn, ast.AsyncFunctionDef) or _is_generator(fn)


def _lexically_inside(node: ast.AST | None, block: ast.AST) -> bool:
    cur = node
    while cur is not None:
        p = parent(cur)
        if p is block:
            return any(cur is s for s in getattr(block, "body", []))
        cur = p
    return False


class _Cursors:
    """Which locals of one function may denote a statement handle (cursor, or a lazy view of one) of the possibly-shared
    connection, grouped by aliasing (flow-insensitive union-find over the binding sites)."""

    def __init__(self, own: Owner, fn: ast.AST, cfg: CFG, taint: dict[str, str]):
        self.own, self.fn, self.cfg, self.taint = own, fn, cfg, taint
        self.uf: dict[str, str] = {}
        names = {n.id for n in walk_shallow(fn) if isinstance(n, ast.Name) and isinstance(n.ctx, ast.Store)}
        sites = {nm: _binding_sites(fn, nm) for nm in sorted(names)}
        for _round in range(6):
            changed = False
            for nm, bs in sites.items():
                for st, v in bs:
                    b = self.base(v, st)
                    if b is None:
                        continue
                    if nm not in self.uf:
                        self.uf[nm] = nm
                        changed = True
                    if b[0] == "name" and self.root(b[1]) != self.root(nm):
                        self.uf[self.root(nm)] = self.root(b[1])
                        changed = True
            if not changed:
                break

    def root(self, name: str) -> str:
        while self.uf.get(name, name) != name:
            name = self.uf[name]
        return name

    def base(self, e: ast.AST | None, st: ast.AST, depth: int = 0) -> tuple[str, str] | None:
        """('name', local) when ``e`` is (a lazy view of) the handle held by a local; ('fresh', why) when it is a cursor just made
        from a value that may be the shared connection; None otherwise."""
        if e is None or depth > 6:
            return None
        if isinstance(e, ast.Name):
            return ("name", e.id) if e.id in self.uf else None
        if isinstance(e, ast.NamedExpr):
            return self.base(e.value, st, depth + 1)
        if isinstance(e, ast.GeneratorExp):
            return self.base(e.generators[0].iter, st, depth + 1)
        if isinstance(e, ast.Call):
            f = e.func
            if isinstance(f, ast.Attribute) and f.attr in _CURSOR_MAKERS:
                src = _conn_source(self.own, self.fn, f.value, self.cfg, st, self.taint)
                if src:
                    return ("fresh", src)
                return self.base(f.value, st, depth + 1) if f.attr != "cursor" else None  # cursor.execute() returns the cursor itself
            if last(call_name(e)) in _LAZY_VIEWS:
                for a in e.args:
                    r = self.base(a.value if isinstance(a, ast.Starred) else a, st, depth + 1)
                    if r:
                        return r
        return None


def _climb(e: ast.AST) -> ast.AST:
    """The outermost expression that still denotes the same live statement handle as ``e`` (through lazy views, generator
    expressions, ``(x := …)`` and ``cursor.execute(…)``, which returns its cursor)."""
    cur = e
    while True:
        p = parent(cur)
        if isinstance(p, ast.Call) and any(a is cur for a in p.args) and last(call_name(p)) in _LAZY_VIEWS:
            cur = p
            continue
        if isinstance(p, ast.comprehension) and p.iter is cur:
            g = parent(p)
            if isinstance(g, ast.GeneratorExp) and g.generators[0] is p:
                cur = g
                continue
        if isinstance(p, ast.NamedExpr) and p.value is cur:
            cur = p
            continue
        if isinstance(p, ast.Attribute) and p.value is cur and p.attr in ("execute", "executemany"):
            c = parent(p)
            if isinstance(c, ast.Call) and c.func is p:
                cur = c
                continue
        return cur


def _consumption(top: ast.AST) -> tuple[str, ast.AST | None]:
    """What the context does with a statement handle: 'drain' (exhausted / closed before the expression ends), 'for' (statement
    loop over it), 'delegate' (`yield from`), 'bind' (kept in a local), 'escape' (handed to code the rule does not see),
    'peek' / 'drop' / 'other' (neither finishes nor keeps it)."""
    p = parent(top)
    if isinstance(p, ast.Attribute) and p.value is top:
        c = parent(p)
        if isinstance(c, ast.Call) and c.func is p and p.attr in ("fetchall", "close"):
            return "drain", c
        return "peek", p
    if isinstance(p, ast.Starred):
        return "drain", p
    if isinstance(p, ast.Call) and any(a is top for a in p.args):
        return ("drain", p) if last(call_name(p)) in _DRAINERS else ("escape", p)
    if isinstance(p, ast.keyword):
        return "escape", p
    if isinstance(p, ast.comprehension) and p.iter is top:
        g = parent(p)
        eager = isinstance(g, (ast.ListComp, ast.SetComp, ast.DictComp)) and g.generators[0] is p
        suspends = any(isinstance(x, ast.Await) or (isinstance(x, ast.comprehension) and x.is_async) for x in ast.walk(g))
        return ("drain", g) if eager and not suspends else ("other", g)
    if isinstance(p, (ast.For, ast.AsyncFor)) and p.iter is top:
        return "for", p
    if isinstance(p, ast.YieldFrom):
        return "delegate", p
    if isinstance(p, (ast.Assign, ast.AnnAssign)) and p.value is top:
        return "bind", p
    if isinstance(p, ast.withitem) and p.context_expr is top:
        return "bind", p
    if isinstance(p, (ast.Return, ast.Yield)):
        return "escape", p
    if isinstance(p, ast.Expr):
        return "drop", p
    return "other", p


def _bound_name(at: ast.AST | None) -> str | None:
    if isinstance(at, ast.Assign) and len(at.targets) == 1 and isinstance(at.targets[0], ast.Name):
        return at.targets[0].id
    if isinstance(at, ast.AnnAssign) and isinstance(at.target, ast.Name):
        return at.target.id
    if isinstance(at, ast.withitem) and isinstance(at.optional_vars, ast.Name):
        return at.optional_vars.id
    return None


def open_statement_sites(own: Owner) -> tuple[list[dict], list[ast.AST]]:
    """Every row-producing statement that a coroutine / generator method starts through a value that may be the shared
    connection, with the suspension points it can still be un-exhausted at; plus the handles that leave the method."""
    out: list[dict] = []
    escapes: list[ast.AST] = []
    taints = _helper_taint(own)
    for name, fn in own.methods.items():
        if not _can_suspend(fn):
            continue
        cfg = CFG(fn)
        susp = _suspension_nodes(cfg)
        taint = taints.get(name, {})
        cur = _Cursors(own, fn, cfg, taint)
        groups: dict[str, dict] = {}
        for c in walk_shallow(fn):
            if not (isinstance(c, ast.Call) and isinstance(c.func, ast.Attribute) and c.func.attr in ("execute", "executemany")):
                continue
            st = enclosing_stmt(c)
            if st is None:
                continue
            recv = c.func.value
            src = _conn_source(own, fn, recv, cfg, st, taint)
            b = ("fresh", src) if src else cur.base(recv, st)
            if b is None:
                continue
            frags = _sql_fragments(own, fn, c.args[0] if c.args else kwarg(c, "sql"))
            if not _may_yield_rows(frags):
                continue
            kind, at = _consumption(_climb(c))
            rec = {"fn": fn, "site": c, "recv": recv, "hits": [], "nsusp": len(susp),
                   "what": f"`{ast.unparse(c.func)[:40]}(…)`" + (f" ({_sql_head(frags)} …)" if frags else " (statement text without a constant piece)"),
                   "source": b[1] if b[0] == "fresh" else (_cursor_source(own, fn, recv, cfg, st, taint) or f"cursor `{b[1]}`")}
            out.append(rec)
            if kind == "drain":
                continue  # started and exhausted within one expression
            gkey = cur.root(b[1]) if b[0] == "name" else (cur.root(_bound_name(at)) if kind == "bind" and _bound_name(at) in cur.uf else None)
            if gkey is None and kind not in ("for", "delegate"):
                if kind == "escape":
                    escapes.append(c)
                continue  # a temporary cursor: finalised (statement reset) when the expression ends
            g = groups.setdefault(gkey or f"@{id(c)}", {"openers": [], "closers": set(), "loops": []})
            g["openers"].append((rec, cfg.node_of_containing(c)))
            if kind == "for" and at not in g["loops"]:
                g["loops"].append(at)
            if kind == "delegate":
                rec["hits"].append((getattr(at, "lineno", c.lineno), "yield from"))
        for n in walk_shallow(fn):
            if isinstance(n, ast.Name) and isinstance(n.ctx, ast.Load) and n.id in cur.uf and cur.root(n.id) in groups:
                g = groups[cur.root(n.id)]
                kind, at = _consumption(_climb(n))
                if kind == "drain":
                    g["closers"] |= set(cfg.node_of_containing(n))
                elif kind == "for" and at not in g["loops"]:
                    g["loops"].append(at)
                elif kind == "escape":
                    escapes.append(n)
        for g in groups.values():
            opener_nodes = {x for _r, ns in g["openers"] for x in ns}
            # the statement loop ends the statement only when it runs to exhaustion: block its `done` edge, follow its body and its breaks
            done_edges = [(x, "done") for lp in g["loops"] for x in cfg.nodes_of(lp)]
            for rec, ns in g["openers"]:
                facts = set.intersection(*[facts_at(cfg, x) for x in ns]) if ns else set()
                if _ownership_guard(own, facts, rec["recv"]):
                    continue  # only ever a connection this call opened itself
                region = cfg.reach(ns, blocked=g["closers"] | opener_nodes, blocked_edges=done_edges, labels_excluded=_NORMAL_ONLY, include_starts=False)
                for x in sorted((x for x in region if x in susp), key=lambda x: x.line):
                    if not _ownership_guard(own, facts_at(cfg, x), rec["recv"]) and (x.line, susp[x]) not in rec["hits"]:
                        rec["hits"].append((x.line, susp[x]))
    return out, escapes


def pending_write_sites(tx: "TxScope") -> list[dict]:
    """Every write (direct, or delegated to a helper that leaves the commit to its caller) of a coroutine / generator method,
    with the suspension points at which it can still be uncommitted — per mode, by the same forward propagation as R4."""
    out: list[dict] = []
    for name, fn in tx.own.methods.items():
        if not _can_suspend(fn):
            continue
        cfg = tx.cfgs[name]
        susp = _suspension_nodes(cfg)
        sites: dict[int, dict] = {}
        for mode, massume in tx.modes.items():
            events = tx._direct_writes(name) + tx._delegated_writes(name, mode)
            if not events:
                continue
            s1 = _reach_states(cfg, cfg.entry, dict(massume))
            s1[cfg.entry] = dict(massume)
            for c, key, desc in events:
                rec = sites.setdefault(id(c), {"fn": fn, "site": c, "key": key, "what": desc, "hits": [], "nsusp": len(susp)})
                ends = tx._end_tx_nodes(name, key)
                scope = tx._commit_scope(name, c, key, mode)
                for n in cfg.nodes_of(enclosing_stmt(c)):
                    if n not in s1:
                        continue
                    reached = _reach_states(cfg, n, s1[n], blocked=ends)
                    for x in sorted((x for x in reached if x in susp and x is not n), key=lambda x: x.line):
                        if scope is not None and not _lexically_inside(x.ast, scope):
                            continue  # the block's exit has committed
                        prev = next((h for h in rec["hits"] if h[:2] == (x.line, susp[x])), None)
                        if prev is None:
                            rec["hits"].append((x.line, susp[x], mode))
                        elif mode not in prev[2]:
                            rec["hits"][rec["hits"].index(prev)] = (x.line, susp[x], f"{prev[2]} and {mode}")
        out += sites.values()
    return out


def _by_method(sites: list[dict]) -> list[tuple[ast.AST, list[dict]]]:
    order: dict[int, tuple[ast.AST, list[dict]]] = {}
    for d in sites:
        order.setdefault(id(d["fn"]), (d["fn"], []))[1].append(d)
    return list(order.values())


# ----------------------------------------------------------------------------------------------- run


def run(chk) -> None:
    repo: Repo = chk.repo
    w, s, b = bind(repo)
    chk.observe(f"C21 binding: persistent attribute {WS}.{b['P']} -> {FACTORY}({', '.join(b['factory_param'])}=self.{b['P']}) -> {SS}.{'/'.join(b['B'])}; "
                f"providers: {WS}.{'/'.join(sorted(w.providers))}, {SS}.{'/'.join(sorted(s.providers))}; "
                f"hand-out guards: {sorted(w.handout_guards())} / {sorted(s.handout_guards())}")

    # ---------------------------------------------------------------- R1
    uses = 0
    for own in (w, s):
        for fn in own.methods.values():
            uses += sum(1 for c in calls(fn) if _self_call(c) in own.providers)
    # 11 on the repaired tree (8 in the workflow store, 3 in the state store); the floor leaves room for variants that drop a few
    chk.floor("C21.R1", "call sites of the connection providers in both classes", uses, 8)
    for own, cname in ((w, WS), (s, SS)):
        for d in close_sites(own):
            fn = d["fn"]
            chk.ob("C21.R1", f"{cname}.{fn.name}: {d['how']} on `{d['recv']}` never closes the shared connection"
                   + (f" ({d['why_ok']})" if d["ok"] else ""), d["ok"], m=own.m, node=d["site"], fn=fn, instance=f"close-of:{d['recv']}",
                   reason=f"`{d['recv']}` may be the shared connection ({d['source']}) and the close is not dominated by an ownership test; in "
                          f"single-connection mode every later store operation raises 'Cannot operate on a closed database'",
                   path=[d["source"]])
    # one obligation per class even when no close site exists, so that the evidence shows the rule ran
    for own, cname in ((w, WS), (s, SS)):
        if not close_sites(own):
            chk.ob("C21.R1", f"{cname}: no close() on a value that may be the shared connection", True, m=own.m, node=own.cls, instance=f"{cname}:no-close-sites")
    # planted fixture: the matcher must report exactly the unguarded site and accept the guarded ones
    fo, fm = _fixture_owner()
    fsites = close_sites(fo)
    bad = [d for d in fsites if not d["ok"]]
    good = [d for d in fsites if d["ok"]]
    chk.floor("C21.R1", "planted unguarded closes reported in fixtures/c21/borrowed_close.py", len(bad), 3)
    chk.floor("C21.R1", "planted guarded closes accepted in fixtures/c21/borrowed_close.py", len(good), 3)
    if {d["fn"].name for d in bad} != {"load", "save", "_drop"} or {d["fn"].name for d in good} != {"load_guarded", "load_identity", "_release"}:
        raise AnchorError(f"C21.R1: fixture verdicts changed: reported {[d['fn'].name for d in bad]}, accepted {[d['fn'].name for d in good]}")

    # ---------------------------------------------------------------- R3
    examined = 0
    for own, cname in ((w, WS), (s, SS)):
        reads, n = lifetime_reads(own)
        examined += n
        for d in reads:
            fn = d["fn"]
            chk.ob("C21.R3", f"{cname}.{fn.name}: {d['what']} is not a per-call result taken from connection-lifetime state"
                   + (f" ({d['why_ok']})" if d["ok"] else ""), d["ok"], m=own.m, node=d["site"], fn=fn, instance=f"lifetime-read:{d['slot']}",
                   reason=f"{d['what']} is read through a value that may be the shared connection ({d['source']}); {d['detail']}, so with "
                          f"single_connection=True the operation returns / acts on the history of the whole store while a per-call connection starts "
                          f"from zero. Take the per-call quantity from the cursor of the statement just executed (cursor.rowcount / cursor.lastrowid), "
                          f"or from a difference of two reads",
                   path=[d["source"]])
        if not reads:
            chk.ob("C21.R3", f"{cname}: no read of connection-lifetime state (total_changes / in_transaction / SQL changes(), total_changes(), "
                   f"last_insert_rowid()) through a value that may be the shared connection", True, m=own.m, node=own.cls, instance=f"{cname}:no-lifetime-reads")
    # 35 on today's tree: 21 on the connection (workflow store 14 = cursor/execute/commit in the 9 provider blocks + the migration commit;
    # state store 7 = execute/commit/cursor/close in _copy_state_from_run, _load_state, _save_state, _release) and 14 on cursors made from it
    # (execute + fetchall/fetchone/rowcount in query, delete, query_events, get_ticks, stream_ticks, get_legacy_ctx, _load_state)
    chk.floor("C21.R3", "attribute uses of the possibly-shared connection and of cursors made from it examined in both classes", examined, 24)
    lo = _fixture_class(FIXTURE_R3, "CountingStore", {"_shared_conn"})
    freads, _n = lifetime_reads(lo)
    fbad = sorted({d["fn"].name for d in freads if not d["ok"]})
    fgood = sorted({d["fn"].name for d in freads if d["ok"]})
    chk.floor("C21.R3", "planted connection-lifetime reads reported in fixtures/c21/lifetime_reads.py", len([d for d in freads if not d["ok"]]), 7)
    chk.floor("C21.R3", "planted harmless reads accepted in fixtures/c21/lifetime_reads.py", len([d for d in freads if d["ok"]]), 6)
    if fbad != sorted(["purge", "purge_via_cursor", "purge_sql", "count_of_last_write", "upsert", "is_busy", "_written"]) \
            or fgood != sorted(["purge_delta", "purge_guarded", "purge_changes", "insert", "tidy"]):
        raise AnchorError(f"C21.R3: fixture verdicts changed: reported {fbad}, accepted {fgood}")

    # ---------------------------------------------------------------- R4
    scopes = [(TxScope(w), WS), (TxScope(s), SS)]
    n_writes = sum(tx.n_events for tx, _c in scopes)
    # 7 on today's tree: workflow store update / delete / append_event / append_tick; state store _copy_state_from_run, _save_state and
    # _load_state (hands its connection to _save_state, which leaves the commit to it)
    chk.floor("C21.R4", "write statements (direct, or delegated to a helper that is given the connection) examined in both classes", n_writes, 6)
    open_writes = [(cname, r) for tx, cname in scopes for r in tx.pending("single-connection")]
    for tx, cname in scopes:
        for (mname, key), r in sorted(tx.results.items(), key=lambda kv: kv[1]["site"].lineno):
            ok = not r["pending"]
            note = " (the commit is left to the callers that pass the connection in, which are checked)" if ok and r["delegated"] else ""
            chk.ob("C21.R4", f"{cname}.{mname}: the write through `{key}` is committed on that connection before the method returns normally, in both modes{note}", ok,
                   m=tx.own.m, node=r["site"], fn=r["fn"], instance="commit-after-write" + (f":{key}" if sum(1 for (mn, _k) in tx.results if mn == mname) > 1 else ""),
                   reason=f"{r['desc']} can still be uncommitted when {cname}.{mname} returns ({'; '.join(r['pending'])}): the commit is missing or gated on a test that is "
                          f"false in that case. In single-connection mode nobody else commits for it: the acknowledged write stays in the shared connection's open "
                          f"transaction, is lost when the process ends and is discarded by any later ROLLBACK on that connection; with per-call connections the same write is "
                          f"durable when the call returns. Commit on the connection the write used, independent of who owns it",
                   path=r["pending"])
        for c in tx.unknown_sql:
            chk.observe(f"C21.R4: statement text of `{ast.unparse(c.func)}` at {tx.own.m.rel}:{c.lineno} has no constant piece; not classified as read or write.")
    n_rb = 0
    for tx, cname in scopes:
        for d in tx.rollback_sites():
            n_rb += 1
            fn = d["fn"]
            victims = "; ".join(f"{c}.{r['fn'].name}" for c, r in open_writes)
            chk.ob("C21.R4", f"{cname}.{fn.name}: {d['how']} on a value that may be the shared connection discards only statements of the failing operation itself"
                   + ("" if open_writes else " (every write operation commits before it returns, so nothing acknowledged is pending)"), not open_writes,
                   m=tx.own.m, node=d["site"], fn=fn, instance=f"rollback-of:{d['recv']}",
                   reason=f"`{d['recv']}` may be the shared connection ({d['source']}); writes that {victims} left uncommitted are still in its open transaction, so this "
                          f"ROLLBACK discards an acknowledged write of another, unrelated operation; a per-call store keeps it",
                   path=[d["source"]] + [f"pending write: {c}.{r['fn'].name} at {r['site'].lineno}" for c, r in open_writes])
    if n_rb == 0:
        chk.ob("C21.R4", "no roll-back (rollback() / sqlite3 connection used as a context manager) on a value that may be the shared connection", True,
               m=w.m, node=w.cls, instance="no-rollback-sites")
    # planted fixture: pending writes and roll-back sites must be reported, committed / delegated-and-committed writes accepted
    ftx = TxScope(_fixture_class(FIXTURE_R4, "TxStore", {"_shared_conn"}))
    fbad = sorted(n for (n, _k), r in ftx.results.items() if r["pending"])
    fgood = sorted(n for (n, _k), r in ftx.results.items() if not r["pending"])
    frb = sorted(d["fn"].name for d in ftx.rollback_sites())
    chk.floor("C21.R4", "planted uncommitted writes reported in fixtures/c21/tx_scope.py", len(fbad), 3)
    chk.floor("C21.R4", "planted committed writes accepted in fixtures/c21/tx_scope.py", len(fgood), 5)
    chk.floor("C21.R4", "planted roll-back sites found in fixtures/c21/tx_scope.py", len(frb), 3)
    if fbad != sorted(["save_gated", "save_mode_gated", "load_forgets"]) or fgood != sorted(["save_ok", "save_early", "_put", "load", "save_with"]) \
            or frb != sorted(["failing_op", "save_with", "undo"]):
        raise AnchorError(f"C21.R4: fixture verdicts changed: pending {fbad}, committed {fgood}, roll-back sites {frb}")

    # ---------------------------------------------------------------- R5
    n_rows = n_wr = n_coexist = 0
    for (tx, cname), own in zip(scopes, (w, s)):
        reads, escapes = open_statement_sites(own)
        writes = pending_write_sites(tx)
        n_rows += len(reads)
        n_wr += len(writes)
        n_coexist += len({id(d["fn"]) for d in reads + writes if d["nsusp"]})
        for fn, ds in _by_method(reads):
            bad = [d for d in ds if d["hits"]]
            d0 = (bad or ds)[0]
            chk.ob("C21.R5", f"{cname}.{fn.name}: no row-producing statement started through a value that may be the shared connection is still un-exhausted where "
                   f"the method gives up control ({len(ds)} statement(s), {d0['nsusp']} suspension point(s) examined)", not bad,
                   m=own.m, node=d0["site"], fn=fn, instance="quiescent-at-suspension:statement",
                   reason="; ".join(f"{d['what']} at line {d['site'].lineno} can still be active at " + ", ".join(f"the {how} at line {ln}" for ln, how in d["hits"]) for d in bad)
                          + f". The statement runs on a value that may be the shared connection ({d0['source']}): with single_connection=True it keeps stepping on the one "
                          f"persistent connection while other store operations use that connection, so it returns rows they write meanwhile (and stays active on the "
                          f"connection if the generator is abandoned); a per-call connection reads the snapshot its statement started on, so the two modes return different rows. "
                          f"Materialise the rows (fetchall() / list(...)) before the method yields or awaits, as every other reader of the store does",
                   path=[f"statement at line {d['site'].lineno} -> {how} at line {ln}" for d in bad for ln, how in d["hits"]])
        for fn, ds in _by_method(writes):
            bad = [d for d in ds if d["hits"]]
            d0 = (bad or ds)[0]
            chk.ob("C21.R5", f"{cname}.{fn.name}: no write through a value that may be the shared connection is still uncommitted where the method gives up control "
                   f"({len(ds)} write(s), {d0['nsusp']} suspension point(s) examined, both modes)", not bad,
                   m=tx.own.m, node=d0["site"], fn=fn, instance="quiescent-at-suspension:write",
                   reason="; ".join(f"{d['what']} at line {d['site'].lineno} can still be uncommitted at " + ", ".join(f"the {how} at line {ln} ({mode})" for ln, how, mode in d["hits"]) for d in bad)
                          + ". While the method is suspended other store operations run: on the shared connection they see the pending write and their commit / rollback ends its "
                          "transaction, with per-call connections they do not see it and their own writes wait for the lock ('database is locked'), so the two modes give "
                          "different results. Commit on the connection the write used before the method yields or awaits",
                   path=[f"write at line {d['site'].lineno} -> {how} at line {ln} ({mode})" for d in bad for ln, how, mode in d["hits"]])
        for e in escapes:
            chk.observe(f"C21.R5: the cursor of `{ast.unparse(e)[:60]}` at {own.m.rel}:{e.lineno} is returned / passed on; what its receiver does with the live statement is not decided.")
    # 4 on today's tree: query, query_events, get_ticks, stream_ticks (get_legacy_ctx is a plain function: it cannot give up control)
    chk.floor("C21.R5", "row-producing statements started through a possibly-shared connection in coroutine / generator methods of both classes", n_rows, 3)
    # 4 on today's tree: update, delete, append_event, append_tick (the state store writes in plain helper functions only)
    chk.floor("C21.R5", "writes through a possibly-shared connection in coroutine / generator methods of both classes", n_wr, 3)
    # 2 on today's tree: stream_ticks (yields each page after its fetchall) and append_event (async with after the commit)
    chk.floor("C21.R5", "coroutine / generator methods in which such a statement and a suspension point coexist", n_coexist, 1)
    so = _fixture_class(FIXTURE_R5, "StreamingStore", {"_shared_conn"})
    freads, _esc = open_statement_sites(so)
    fwrites = pending_write_sites(TxScope(so))
    fbad = sorted({d["fn"].name for d in freads + fwrites if d["hits"]})
    fgood = sorted({d["fn"].name for d in freads + fwrites} - set(fbad))
    chk.floor("C21.R5", "planted statements open across a suspension reported in fixtures/c21/suspended_statement.py", len(fbad), 8)
    chk.floor("C21.R5", "planted quiescent suspensions accepted in fixtures/c21/suspended_statement.py", len(fgood), 7)
    if fbad != sorted(["stream_lazy", "stream_cursor_loop", "stream_fetchone", "stream_genexp", "stream_delegate", "read_await", "stream_break", "write_await"]) \
            or fgood != sorted(["stream_pages", "stream_inside_scope", "stream_list", "stream_comprehension", "stream_drained", "stream_guarded", "write_then_notify"]):
        raise AnchorError(f"C21.R5: fixture verdicts changed: reported {fbad}, accepted {fgood}")

    # ---------------------------------------------------------------- R2
    n_conn = 0
    for own, cname in ((w, WS), (s, SS)):
        for name, fn in own.methods.items():
            for c in calls(fn):
                if not _is_connect_call(c) or _self_call(c) is not None:
                    continue
                n_conn += 1
                static = any(last(dotted(d)) == "staticmethod" for d in fn.decorator_list)
                opener = own is w and name == "__init__"
                ok = name in own.providers or static or opener
                chk.ob("C21.R2", f"{cname}.{name}: connections are opened only by the provider, the opener of the persistent connection or static helpers", ok,
                       m=own.m, node=c, fn=fn, instance=f"{cname}.{name}:opens-connection",
                       reason="an operational method opens its own connection: in single-connection mode (unix-none VFS, no file locking) it bypasses the "
                              "persistent connection, so the two modes no longer run the same code on the same connection")
    chk.floor("C21.R2", "sqlite3.connect call sites in both classes", n_conn, 3)
    # provider branches of the workflow store: per-call branch closes what it opened in a finally; shared branch closes nothing (R1)
    for pname in w.providers:
        fn = w.methods[pname]
        cfg = CFG(fn)
        opens = [c for c in calls(fn) if _is_connect_call(c)]
        if not opens:
            raise AnchorError(f"C21.R2: provider {WS}.{pname} opens no connection on any path (per-call mode vanished?)")
        for c in opens:
            st = enclosing_stmt(c)
            local = st.targets[0].id if isinstance(st, ast.Assign) and isinstance(st.targets[0], ast.Name) else None
            closes = [x for x in walk_shallow(fn) if isinstance(x, ast.Call) and isinstance(x.func, ast.Attribute) and x.func.attr == "close"
                      and isinstance(x.func.value, ast.Name) and x.func.value.id == local]
            ys = [n for n in cfg.nodes if n.ast is not None and n.kind == "stmt" and isinstance(n.ast, ast.Expr) and isinstance(n.ast.value, ast.Yield)
                  and isinstance(n.ast.value.value, ast.Name) and n.ast.value.value.id == local]
            if local:
                # only the yields that this opening reaches (the name may also be bound in the shared branch: `with self.P as conn: yield conn`)
                others = [n for bst, _v in _binding_sites(fn, local) if bst is not st for n in cfg.nodes_of(bst)]
                live = cfg.reach(cfg.nodes_of(st), blocked=others, include_starts=False)
                ys = [n for n in ys if n in live]
            close_nodes = [n for x in closes for n in cfg.nodes_of(enclosing_stmt(x))]
            # every way out of the yield (normal, exception thrown into the generator) passes a close
            leak = bool(ys) and bool(cfg.must_pass(ys, [cfg.exit, cfg.raise_exit], close_nodes, include_starts=False))
            ok = bool(local) and bool(closes) and bool(ys) and not leak
            chk.ob("C21.R2", f"{WS}.{pname}: the per-call branch closes the connection it opened on every exit of the with-block", ok, m=w.m, node=c, fn=fn,
                   instance=f"{WS}.{pname}:per-call-closes", reason="the opened connection is not closed on some exit (or not yielded at all)")
    # the configuration exists
    am = repo.module(AC_MOD)
    sel = [c for c in calls(am.tree, shallow=False) if dotted(c.func) and repo.resolve_dotted(am, dotted(c.func)) == f"{WS_MOD}:{WS}"
           and isinstance(kwarg(c, "single_connection"), ast.Constant) and kwarg(c, "single_connection").value is True]
    chk.floor("C21.R2", "AgentCore constructions of SqliteWorkflowStore(single_connection=True)", len(sel), 1)


# ----------------------------------------------------------------------------------------------- twins

_PW = "packages/llama-agents-server/src/llama_agents/server/_store/sqlite/sqlite_workflow_store.py"
_PS = "packages/llama-agents-server/src/llama_agents/server/_store/sqlite/sqlite_state_store.py"

_DEL = "            cursor = conn.cursor()\n            cursor.execute(sql, tuple(params))\n            deleted = cursor.rowcount\n            conn.commit()\n"

_SHARED_BRANCH = "            assert self._persistent_conn is not None\n            yield self._persistent_conn\n"
_SHARED_BRANCH_CM = "            assert self._persistent_conn is not None\n            with self._persistent_conn as conn:\n                yield conn\n"
_TICK_COMMIT = "                    json.dumps(tick_data),\n                ),\n            )\n            conn.commit()\n"

_TICK_ROW = ("tick = StoredTick(\n{i}    run_id=row[0],\n{i}    sequence=row[1],\n{i}    timestamp=datetime.fromisoformat(row[2]),\n"
             "{i}    tick_data=json.loads(row[3]),\n{i})\n{i}yield tick\n{i}seq_cursor = tick.sequence\n")
_PAGE = ("            with self._connect() as conn:\n                cursor = conn.cursor()\n                cursor.execute(sql, params)\n                rows = cursor.fetchall()\n"
         "            for row in rows:\n                " + _TICK_ROW.format(i=" " * 16) + "            if len(rows) < _TICK_PAGE_SIZE:\n                return\n")
_PAGE_READ = "                cursor = conn.cursor()\n                cursor.execute(sql, params)\n                rows = cursor.fetchall()\n            for row in rows:\n"
_GET_TICKS_FETCH = "                (run_id,),\n            )\n            rows = cursor.fetchall()\n        return [\n            StoredTick("
_EVENT_COMMIT = "                    event.model_dump_json(),\n                ),\n            )\n            conn.commit()\n"

TWINS = [
    # ---- R5 breaking: a statement / a write is still open where the method gives up control
    Twin("seed form: stream_ticks iterates conn.execute() lazily and yields inside the connection block", _PW, _PAGE,
         "            fetched = 0\n            with self._connect() as conn:\n                for row in conn.execute(sql, params):\n                    fetched += 1\n                    "
         + _TICK_ROW.format(i=" " * 20) + "            if fetched < _TICK_PAGE_SIZE:\n                return\n", "C21.R5"),
    Twin("stream_ticks pulls the page row by row with fetchone() and yields in between", _PW, _PAGE,
         "            fetched = 0\n            with self._connect() as conn:\n                cursor = conn.cursor()\n                cursor.execute(sql, params)\n"
         "                row = cursor.fetchone()\n                while row is not None:\n                    fetched += 1\n                    " + _TICK_ROW.format(i=" " * 20)
         + "                    row = cursor.fetchone()\n            if fetched < _TICK_PAGE_SIZE:\n                return\n", "C21.R5"),
    Twin("stream_ticks keeps a lazy view of the cursor and consumes it after the block", _PW, _PAGE,
         "            fetched = 0\n            with self._connect() as conn:\n                cursor = conn.cursor()\n                cursor.execute(sql, params)\n"
         "                rows = enumerate(cursor, 1)\n                for fetched, row in rows:\n                    " + _TICK_ROW.format(i=" " * 20)
         + "            if fetched < _TICK_PAGE_SIZE:\n                return\n", "C21.R5"),
    Twin("get_ticks awaits between execute() and fetchall()", _PW, _GET_TICKS_FETCH,
         "                (run_id,),\n            )\n            await asyncio.sleep(0)\n            rows = cursor.fetchall()\n        return [\n            StoredTick(", "C21.R5"),
    Twin("append_tick awaits between its INSERT and the commit", _PW, _TICK_COMMIT,
         "                    json.dumps(tick_data),\n                ),\n            )\n            await asyncio.sleep(0)\n            conn.commit()\n", "C21.R5"),
    Twin("append_event notifies the subscribers before it commits", _PW, _EVENT_COMMIT,
         "                    event.model_dump_json(),\n                ),\n            )\n            pending = self._conditions.get(run_id)\n            if pending is not None:\n"
         "                async with pending:\n                    pending.notify_all()\n            conn.commit()\n", "C21.R5"),
    # ---- R5 benign: the connection is idle at every suspension
    Twin("benign: stream_ticks yields inside the connection block, after fetchall()", _PW, _PAGE,
         "            with self._connect() as conn:\n                cursor = conn.cursor()\n                cursor.execute(sql, params)\n                rows = cursor.fetchall()\n"
         "                for row in rows:\n                    " + _TICK_ROW.format(i=" " * 20) + "            if len(rows) < _TICK_PAGE_SIZE:\n                return\n", None),
    Twin("benign: stream_ticks materialises the page with list(conn.execute())", _PW, _PAGE_READ,
         "                rows = list(conn.execute(sql, params))\n            for row in rows:\n", None),
    Twin("benign: stream_ticks drains execute()'s cursor in one expression", _PW, _PAGE_READ,
         "                rows = conn.cursor().execute(sql, params).fetchall()\n            for row in rows:\n", None),
    Twin("benign: stream_ticks collects the page in a row loop that runs to exhaustion without suspending", _PW, _PAGE_READ,
         "                rows = []\n                for fetched_row in conn.execute(sql, params):\n                    rows.append(fetched_row)\n            for row in rows:\n", None),
    Twin("benign: append_event awaits inside the block, after the commit", _PW, _EVENT_COMMIT,
         "                    event.model_dump_json(),\n                ),\n            )\n            conn.commit()\n            await asyncio.sleep(0)\n", None),
    Twin("benign: get_ticks awaits before the statement starts", _PW, "    async def get_ticks(self, run_id: str) -> list[StoredTick]:\n        with self._connect() as conn:\n            cursor = conn.cursor()\n",
         "    async def get_ticks(self, run_id: str) -> list[StoredTick]:\n        with self._connect() as conn:\n            cursor = conn.cursor()\n            await asyncio.sleep(0)\n", None),
    # ---- R1 breaking
    Twin("state store grows a close() that closes the provider's result", _PS, "    @property\n    def run_id(self) -> str:\n        return self._run_id\n",
         "    @property\n    def run_id(self) -> str:\n        return self._run_id\n\n    def close(self) -> None:\n        self._connect().close()\n", "C21.R1"),
    Twin("workflow store query closes the yielded connection", _PW, "            rows = cursor.fetchall()\n\n        return [_row_to_persistent_handler(row) for row in rows]",
         "            rows = cursor.fetchall()\n            conn.close()\n\n        return [_row_to_persistent_handler(row) for row in rows]", "C21.R1"),
    Twin("provider finally covers both modes", _PW,
         "        if self._single_connection:\n            assert self._persistent_conn is not None\n            yield self._persistent_conn\n        else:\n"
         "            conn = sqlite3.connect(self.db_path, timeout=30.0)\n            try:\n                yield conn\n            finally:\n                conn.close()",
         "        conn = self._persistent_conn if self._single_connection else sqlite3.connect(self.db_path, timeout=30.0)\n        assert conn is not None\n"
         "        try:\n            yield conn\n        finally:\n            conn.close()", "C21.R1"),
    Twin("get_legacy_ctx wraps the provider in closing()", _PW, "        \"\"\"Read the old ctx column for a run_id, if present.\"\"\"\n        with self._connect() as conn:",
         "        \"\"\"Read the old ctx column for a run_id, if present.\"\"\"\n        with self._connect() as c0, contextlib.closing(c0) as conn:", "C21.R1"),
    Twin("state store get closes after a direct read", _PS, "        state = self._load_state()\n        return get_by_path(state, path, default)",
         "        conn = self._shared_conn or sqlite3.connect(self._db_path)\n        try:\n            state = self._load_state()\n        finally:\n            conn.close()\n"
         "        return get_by_path(state, path, default)", "C21.R1"),
    Twin("pre-fix: release helper closes whatever it is given", _PS, "        if conn is not self._shared_conn:\n            conn.close()", "        conn.close()", "C21.R1"),
    Twin("pre-fix: copy_state closes the provider's connection", _PS, "            conn.commit()\n        finally:\n            self._release(conn)\n\n    def _serialize_state",
         "            conn.commit()\n        finally:\n            conn.close()\n\n    def _serialize_state", "C21.R1"),
    Twin("pre-fix: load_state closes the provider's connection", _PS, "            return self._deserialize_state(row[0])\n        finally:\n            self._release(conn)",
         "            return self._deserialize_state(row[0])\n        finally:\n            conn.close()", "C21.R1"),
    Twin("pre-fix: save_state closes what it obtained, not what it owns", _PS, "            if should_close:\n                self._release(conn)", "            if should_close:\n                conn.close()", "C21.R1"),
    Twin("release guard inverted", _PS, "        if conn is not self._shared_conn:\n            conn.close()", "        if conn is self._shared_conn:\n            conn.close()", "C21.R1"),
    # ---- R1 benign
    Twin("benign: state-store provider reversed", _PS, "        if self._shared_conn is not None:\n            return self._shared_conn\n        return sqlite3.connect(self._db_path, timeout=30.0)",
         "        if self._shared_conn is None:\n            return sqlite3.connect(self._db_path, timeout=30.0)\n        return self._shared_conn", None),
    Twin("benign: query uses execute().fetchall()", _PW, "        with self._connect() as conn:\n            cursor = conn.cursor()\n            cursor.execute(sql, tuple(params))\n            rows = cursor.fetchall()\n\n        return [_row",
         "        with self._connect() as conn:\n            rows = conn.execute(sql, tuple(params)).fetchall()\n\n        return [_row", None),
    Twin("benign: release guard tests the borrowed attribute", _PS, "        if conn is not self._shared_conn:\n            conn.close()", "        if self._shared_conn is None:\n            conn.close()", None),
    Twin("benign: release guard in early-return form", _PS, "        if conn is not self._shared_conn:\n            conn.close()",
         "        if conn is self._shared_conn:\n            return\n        conn.close()", None),
    Twin("benign: copy_state closes inline under an ownership test", _PS, "            conn.commit()\n        finally:\n            self._release(conn)\n\n    def _serialize_state",
         "            conn.commit()\n        finally:\n            if conn is not self._shared_conn:\n                conn.close()\n\n    def _serialize_state", None),
    Twin("benign: owner gets a lifecycle close()", _PW, "    def create_state_store(\n        self,\n        run_id: str,",
         "    def close(self) -> None:\n        if self._persistent_conn is not None:\n            self._persistent_conn.close()\n\n    def create_state_store(\n        self,\n        run_id: str,", None),
    Twin("benign: owner closes guarded by the mode flag", _PW, "            rows = cursor.fetchall()\n\n        return [_row_to_persistent_handler(row) for row in rows]",
         "            rows = cursor.fetchall()\n            if not self._single_connection:\n                conn.close()\n\n        return [_row_to_persistent_handler(row) for row in rows]", None),
    # ---- R3 breaking
    Twin("seed form: delete reports conn.total_changes after the commit", _PW, _DEL,
         "            conn.execute(sql, tuple(params))\n            conn.commit()\n            deleted = conn.total_changes\n", "C21.R3"),
    Twin("delete reports the counter through the cursor's connection", _PW, _DEL,
         "            cursor = conn.cursor()\n            cursor.execute(sql, tuple(params))\n            conn.commit()\n            deleted = cursor.connection.total_changes\n", "C21.R3"),
    Twin("delete reports SQL total_changes()", _PW, _DEL,
         "            conn.execute(sql, tuple(params))\n            deleted = conn.execute(\"SELECT total_changes()\").fetchone()[0]\n            conn.commit()\n", "C21.R3"),
    Twin("delete asks changes() before its own DELETE has run", _PW, _DEL,
         "            deleted = conn.execute(\"SELECT changes()\").fetchone()[0]\n            conn.execute(sql, tuple(params))\n            conn.commit()\n", "C21.R3"),
    Twin("state store: copy_state decides 'source missing' from the connection's write counter", _PS, "            conn.commit()\n        finally:\n            self._release(conn)\n\n    def _serialize_state",
         "            conn.commit()\n            if conn.total_changes == 0:\n                raise KeyError(source_run_id)\n        finally:\n            self._release(conn)\n\n    def _serialize_state", "C21.R3"),
    Twin("state store: save_state (connection passed one call deep) skips the write inside an open transaction", _PS,
         "            now = _utc_now().isoformat()\n            state_json = self._serialize_state(state)\n",
         "            if conn.in_transaction and not should_close:\n                return\n            now = _utc_now().isoformat()\n            state_json = self._serialize_state(state)\n", "C21.R3"),
    # ---- R3 benign
    Twin("benign: delete reads rowcount of execute()'s cursor after the commit", _PW, _DEL,
         "            done = conn.execute(sql, tuple(params))\n            conn.commit()\n            deleted = done.rowcount\n", None),
    Twin("benign: delete reports the difference of two total_changes reads", _PW, _DEL,
         "            written_before = conn.total_changes\n            conn.execute(sql, tuple(params))\n            conn.commit()\n            deleted = conn.total_changes - written_before\n", None),
    Twin("benign: delete asks changes() right after its own DELETE", _PW, _DEL,
         "            conn.execute(sql, tuple(params))\n            deleted = conn.execute(\"SELECT changes()\").fetchone()[0]\n            conn.commit()\n", None),
    Twin("benign: total_changes only on the per-call branch", _PW, _DEL,
         "            cursor = conn.cursor()\n            cursor.execute(sql, tuple(params))\n            conn.commit()\n            if self._single_connection:\n"
         "                deleted = cursor.rowcount\n            else:\n                deleted = conn.total_changes\n", None),
    Twin("benign: update ends a transaction left open before it starts", _PW, "    async def update(self, handler: PersistentHandler) -> None:\n        with self._connect() as conn:\n",
         "    async def update(self, handler: PersistentHandler) -> None:\n        with self._connect() as conn:\n            if conn.in_transaction:\n                conn.rollback()\n", None),
    # ---- R4 breaking: a write can stay uncommitted in single-connection mode (and a roll-back then discards it)
    Twin("seed form, site 1: save_state commits only when it owns the connection", _PS, "        should_close = conn is None\n",
         "        should_close = conn is None and self._shared_conn is None\n", "C21.R4"),
    Twin("provider rolls the shared connection back on failure, append_tick commits only per call", _PW,
         *multi(_PW, [(_SHARED_BRANCH, "            assert self._persistent_conn is not None\n            try:\n                yield self._persistent_conn\n"
                                       "            except BaseException:\n                self._persistent_conn.rollback()\n                raise\n"),
                      (_TICK_COMMIT, "                    json.dumps(tick_data),\n                ),\n            )\n            if self._persistent_conn is None:\n                conn.commit()\n")]), "C21.R4"),
    Twin("copy_state commits only a connection it may close", _PS, "            conn.commit()\n        finally:\n            self._release(conn)\n\n    def _serialize_state",
         "            if conn is not self._shared_conn:\n                conn.commit()\n        finally:\n            self._release(conn)\n\n    def _serialize_state", "C21.R4"),
    Twin("load_state hands its connection to save_state and forgets the commit", _PS, "                self._save_state(state, conn)\n                conn.commit()\n",
         "                self._save_state(state, conn)\n", "C21.R4"),
    Twin("append_event commits through an early return that skips the shared mode", _PW, "                    event.model_dump_json(),\n                ),\n            )\n            conn.commit()\n",
         "                    event.model_dump_json(),\n                ),\n            )\n            if not self._single_connection:\n                conn.commit()\n", "C21.R4"),
    Twin("delete commits before its DELETE has run", _PW, _DEL,
         "            cursor = conn.cursor()\n            conn.commit()\n            cursor.execute(sql, tuple(params))\n            deleted = cursor.rowcount\n", "C21.R4"),
    # ---- R4 benign
    Twin("benign: seed site 2 alone — provider yields the shared connection through its context manager", _PW, _SHARED_BRANCH, _SHARED_BRANCH_CM, None),
    Twin("benign: provider's context manager commits the shared mode, append_tick commits the per-call mode", _PW,
         *multi(_PW, [(_SHARED_BRANCH, _SHARED_BRANCH_CM), (_TICK_COMMIT, "                    json.dumps(tick_data),\n                ),\n            )\n            if not self._single_connection:\n                conn.commit()\n")]), None),
    Twin("benign: save_state commits unconditionally, ownership only decides the release", _PS, "            if should_close:\n                conn.commit()\n", "            conn.commit()\n", None),
    Twin("benign: save_state ownership flag computed after the re-binding", _PS, "        should_close = conn is None\n        if conn is None:\n            conn = self._connect()\n",
         "        if conn is None:\n            should_close = True\n            conn = self._connect()\n        else:\n            should_close = False\n", None),
    Twin("benign: delete rolls its own statements back when it fails", _PW, _DEL,
         "            try:\n                cursor = conn.cursor()\n                cursor.execute(sql, tuple(params))\n                deleted = cursor.rowcount\n                conn.commit()\n"
         "            except Exception:\n                conn.rollback()\n                raise\n", None),
    # ---- R2 breaking / benign
    Twin("get_ticks opens its own connection", _PW, "    async def get_ticks(self, run_id: str) -> list[StoredTick]:\n        with self._connect() as conn:",
         "    async def get_ticks(self, run_id: str) -> list[StoredTick]:\n        with contextlib.closing(sqlite3.connect(self.db_path)) as conn:", "C21.R2"),
    Twin("per-call branch leaks on exceptions", _PW, "            try:\n                yield conn\n            finally:\n                conn.close()", "            yield conn\n            conn.close()", "C21.R2"),
    Twin("state store load opens directly", _PS, "        \"\"\"Load state from database. Creates default if row doesn't exist.\"\"\"\n        conn = self._connect()",
         "        \"\"\"Load state from database. Creates default if row doesn't exist.\"\"\"\n        conn = sqlite3.connect(self._db_path, timeout=30.0)", "C21.R2"),
    Twin("benign: per-call branch via local path", _PW, "            conn = sqlite3.connect(self.db_path, timeout=30.0)\n            try:", "            path = self.db_path\n            conn = sqlite3.connect(path, timeout=30.0)\n            try:", None),
    Twin("benign: opener inlined in __init__", _PW, "            self._persistent_conn = self._open_nolock(db_path)", "            self._persistent_conn = sqlite3.connect(f\"file:{db_path}?vfs=unix-none\", uri=True)", None),
]
