"""C20 — concurrent state updates are never lost.

Oracle: the store operations are serialisable iff every read-modify-write of the state runs inside one
region of one lock that every writer of the same run's state shares.  ``edit_state`` necessarily keeps its
region open across a suspension point (the ``yield`` to the caller's block), therefore *every* other writer
must take the same lock — an unlocked writer that completes while an edit block is suspended is overwritten
by the block's write-back.

* R1  (lock discipline) for each anchored store (InMemoryStateStore, SqliteStateStore) and each mutator named
      by the statement (``set``, ``set_state``, ``edit_state``): every access of the stored state inside the
      method — loads/stores of the state field, calls of private methods that touch the storage, direct
      connection/cursor calls — lies in the body of ONE ``async with <the store's lock>`` statement; a method
      with no such access must delegate to exactly one other public store operation (which is checked itself).
      Two separately locked public operations composed in one mutator (get_state … set_state) are a
      check-then-act window and are reported.  ``clear`` is analysed the same way and reported as an observation
      (the statement names only set / set_state / edit_state).
* R2  (lock identity) the lock is shared by every store object that addresses the same run: either the lock is
      not per-instance (looked up in a module/class-level registry, or injected through the constructor), or
      every ``create_state_store`` factory that constructs the store memoises one instance per run id (the
      construction is stored under a run-id key of a container on the factory's object and is guarded by a
      membership / is-None test on that container, or goes through ``setdefault``).
      Why per call matters: every step invocation builds a new Context -> runtime.get_internal_adapter() -> a new
      server adapter whose get_state_store() calls ``create_state_store`` (workflows/runtime/types/step_function.py,
      server/_runtime/server_runtime.py), so two concurrent steps of one run hold two store objects.

* R3  (registry retention) where the lock comes from a registry (R2 "registry"), the construct that maps the
      (database, run) key to the lock must hand every accessor the SAME lock object for as long as any of them can
      hold it: it may drop an entry only when no reference to the lock is left (a weak-value mapping) or never (a
      plain dict / defaultdict nobody removes from; ``functools.cache`` / ``lru_cache(maxsize=None)`` on the
      provider).  A bounded cache (``lru_cache`` with its default or a numeric ``maxsize``, a cachetools-style
      LRU/TTL cache, a mapping constructed with maxsize= / maxlen= / ttl=) or a strong mapping some code removes from
      (pop / popitem / clear / del / re-binding) evicts a lock that a suspended ``edit_state`` block still holds:
      the next store object of the run creates a fresh lock and the two interleave load-modify-save.  Decided from
      the construct only (decorator of the provider, constructor of the container, removal calls on it in the
      defining module); a memoising decorator also is what makes a bare ``return Lock()`` provider a registry at
      all — without one the provider is classified per-instance (R2).

Dropped: the design's R3 ("no suspension point inside a critical section other than the yield") is not a
necessary condition (awaiting while holding the lock is safe); its useful part — the region must stay open
across the yield and cover the load before and the save after it — is what R1's single-region clause decides.
Not decided: removals from the registry through an alias passed to other modules; writers in other processes, fairness of asyncio.Lock, stores other than the two anchored ones
(Postgres / agent-data stores are analysed with the same matcher and reported as observations only).
"""

from __future__ import annotations

import ast

from ..astx import call_name, calls, dotted, enclosing_stmt, expand, facts_at, kwarg, last, reaching_def
from ..cfg import CFG
from ..index import AnchorError, FuncNode, Module, Repo, ancestors, enclosing_function, parent, walk_shallow
from ..selftest import Twin, multi

EXPLANATION = (
    "Lock-discipline rules over InMemoryStateStore (workflows/context/state_store.py) and SqliteStateStore "
    "(server/_store/sqlite/sqlite_state_store.py) and the create_state_store factories that build them. "
    "R1: in set / set_state / edit_state every access of the stored state (state field, storage-touching private methods, connection/cursor calls) "
    "lies inside ONE `async with <store lock>` region, or the method delegates to exactly one other public store operation; edit_state must keep the "
    "region open across its yield, so any writer outside the lock can be overwritten by a suspended edit block. "
    "R2: the lock is shared by all store objects of one run: not per-instance (registry / injected), or every create_state_store factory memoises "
    "one instance per run id. Every step invocation obtains its store through a fresh adapter -> create_state_store, so a per-instance lock on "
    "per-call instances excludes nothing. R3: a lock registry (the construct that maps (database, run) to the lock) never drops a lock that can "
    "still be referenced: weak-value mapping, or a strong mapping nothing removes from, or an unbounded memo (functools.cache, lru_cache(maxsize=None)); "
    "a bounded cache (lru_cache default/numeric maxsize, LRU/TTL cache classes, maxsize=/maxlen=/ttl= containers) or pop/popitem/clear/del on the "
    "mapping evicts a lock that a suspended edit block still holds, and the next store object of the run locks a fresh one. NOT decided: cross-process writers, fairness, stores other than the two anchored (observations only); "
    "`clear` is outside the statement's operation list and is an observation."
)
TRUSTED = ["CPython ast", "asyncio.Lock mutual exclusion", "asyncio tasks switch only at await / async with / async for / yield"]
LEVEL_TEXT = "static lock-discipline rules (T7b region coverage, T7c lock identity); no repo code executed"
LEVEL_NOTE = "A pass means every anchored writer is inside one shared lock region; it does not prove serialisability against writers outside the two stores."
TECHNIQUE = "AST region analysis of async-with lock scopes, storage-access inventory through self-calls, factory memoisation check with CFG guard facts"

MEM = "workflows.context.state_store"
SQL = "llama_agents.server._store.sqlite.sqlite_state_store"
STORES = [(MEM, "InMemoryStateStore"), (SQL, "SqliteStateStore")]
MUTATORS = ("set", "set_state", "edit_state")
OBSERVED = ("clear",)
PUBLIC_OPS = {"get", "get_state", "set", "set_state", "clear", "edit_state"}
HELPERS = {"get_by_path", "set_by_path", "merge_state"}
DB_CALLS = {"execute", "executemany", "executescript", "cursor", "commit", "rollback", "fetchone", "fetchall", "fetchmany", "connect"}
FACTORY = "create_state_store"


def _self_attr(e: ast.AST) -> str | None:
    if isinstance(e, ast.Attribute) and isinstance(e.value, ast.Name) and e.value.id == "self":
        return e.attr
    return None


def _self_call(c: ast.AST) -> str | None:
    return _self_attr(c.func) if isinstance(c, ast.Call) else None


class Store:
    def __init__(self, repo: Repo, modname: str, clsname: str):
        self.repo = repo
        self.m, self.node = repo.cls(f"{modname}:{clsname}")
        self.ref = f"{modname}:{clsname}"
        self.name = clsname
        self.methods = {n.name: n for n in self.node.body if isinstance(n, FuncNode)}
        self.lock_attrs, self.lock_kind, self.lock_site = self._bind_lock()
        self.state_fields = self._state_fields()
        self._touch: dict[str, bool] = {}

    # ------------------------------------------------------------ lock binding
    def _contains_lock_ctor(self, root: ast.AST, depth: int = 1) -> bool:
        for c in calls(root, shallow=False):
            nm = call_name(c)
            if last(nm) == "Lock":
                return True
            if depth > 0 and nm and "." not in nm and nm in self.m.functions and self._contains_lock_ctor(self.m.functions[nm], depth - 1):
                return True
        return False

    def _bind_lock(self) -> tuple[set[str], str, ast.AST | None]:
        """Attributes of self that evaluate to the store's lock, and how the lock comes to exist:
        'per-instance' (a fresh Lock() per store object), 'registry' (looked up / created in a container that is
        not owned by the instance), 'injected' (constructor parameter)."""
        attrs: dict[str, tuple[str, ast.AST]] = {}
        for name, fn in self.methods.items():
            if name in PUBLIC_OPS or name == "__init__":
                continue
            if self._contains_lock_ctor(fn):
                attrs[name] = (self._producer_kind(fn), fn)
        init = self.methods.get("__init__")
        if init is not None:
            iparams = {a.arg for a in init.args.args + init.args.kwonlyargs}
            for n in walk_shallow(init):
                if isinstance(n, (ast.Assign, ast.AnnAssign)) and n.value is not None:
                    tgts = n.targets if isinstance(n, ast.Assign) else [n.target]
                    for t in tgts:
                        a = _self_attr(t)
                        if a is None:
                            continue
                        v = n.value
                        if self._contains_lock_ctor(v):
                            attrs[a] = (self._value_kind(v), n)
                        elif "lock" in a.lower() and any(isinstance(x, ast.Name) and x.id in iparams for x in ast.walk(v)):
                            attrs[a] = ("injected", n)
        if not attrs:
            return set(), "none", None
        kinds = {k for k, _s in attrs.values()}
        kind = "per-instance" if "per-instance" in kinds else sorted(kinds)[0]
        site = next(s for k, s in attrs.values() if k == kind)
        return set(attrs), kind, site

    def _value_kind(self, v: ast.AST) -> str:
        """Lock-valued expression: fresh object, or an entry of a container that outlives the instance."""
        if isinstance(v, ast.Call) and last(call_name(v)) == "Lock":
            return "per-instance"
        if isinstance(v, ast.Call) and isinstance(v.func, ast.Attribute) and v.func.attr in ("setdefault", "get"):
            owner = v.func.value
            if _self_attr(owner) is not None and not self._class_level(_self_attr(owner)):
                return "per-instance"
            return "registry"
        if isinstance(v, ast.Subscript):
            owner = v.value
            if _self_attr(owner) is not None and not self._class_level(_self_attr(owner)):
                return "per-instance"
            return "registry"
        if isinstance(v, ast.Call):
            nm = call_name(v)
            if nm and "." not in nm and nm in self.m.functions:
                # module-level lock provider (one call deep, contains the Lock() constructor): a registry only when it
                # looks the lock up in a shared container or is memoised; a bare `return Lock()` is a fresh lock per call
                return self._producer_kind(self.m.functions[nm], 0)
        raise AnchorError(f"C20: cannot classify the lock expression `{ast.unparse(v)[:80]}` of {self.name}")

    def _class_level(self, attr: str) -> bool:
        for st in self.node.body:
            if isinstance(st, ast.Assign) and any(isinstance(t, ast.Name) and t.id == attr for t in st.targets):
                return True
            if isinstance(st, ast.AnnAssign) and isinstance(st.target, ast.Name) and st.target.id == attr and st.value is not None:
                return True
        return False

    def _shared_container(self, owner: ast.AST, fn: ast.AST) -> bool:
        """``owner`` names a container that outlives one store object: a module-level name (not re-bound locally),
        an attribute of the class object (``Cls.X``, ``type(self).X``, ``cls.X``) or a class-level attribute read through self."""
        a = _self_attr(owner)
        if a is not None:
            return self._class_level(a)
        if isinstance(owner, ast.Name):
            local = any(isinstance(n, ast.Name) and n.id == owner.id and isinstance(n.ctx, ast.Store) for n in ast.walk(fn))
            if local:
                x = self._unalias(owner)
                return x is not owner and self._shared_container(x, fn)
            return not local
        if isinstance(owner, ast.Attribute):
            base = owner.value
            if isinstance(base, ast.Name) and base.id in (self.name, "cls"):
                return True
            if isinstance(base, ast.Call) and call_name(base) == "type":
                return True
            if isinstance(base, ast.Attribute) and base.attr == "__class__":
                return True
        return False

    @staticmethod
    def _unalias(owner: ast.AST) -> ast.AST:
        """A local name that is a straight-line alias of another expression -> that expression."""
        if not isinstance(owner, ast.Name) or parent(owner) is None:
            return owner
        x = reaching_def(owner.id, owner)  # in-place mutation of the alias is mutation of the container itself: fine here
        return x if isinstance(x, (ast.Name, ast.Attribute)) else owner

    def _producer_kind(self, fn: ast.AST, depth: int = 1) -> str:
        """How the lock returned by this provider comes to exist.  Registry evidence: the provider stores into /
        looks up a container that outlives the instance (subscript store, setdefault, get, subscript load)."""
        rets = [n for n in walk_shallow(fn) if isinstance(n, ast.Return) and n.value is not None]
        if not rets:
            raise AnchorError(f"C20: lock provider {self.name}.{fn.name} returns nothing")
        if self._memo(fn) is not None:
            return "registry"  # the memo table of the decorator is the registry; R3 decides whether it may evict
        registry = False
        for n in walk_shallow(fn):
            if isinstance(n, ast.Subscript) and self._shared_container(n.value, fn):
                registry = True
            if isinstance(n, ast.Call) and isinstance(n.func, ast.Attribute) and n.func.attr in ("setdefault", "get") and self._shared_container(n.func.value, fn):
                registry = True
            if isinstance(n, ast.Call) and depth > 0:
                nm = call_name(n)
                if nm and "." not in nm and nm in self.m.functions and self._contains_lock_ctor(self.m.functions[nm], 0):
                    if self._producer_kind(self.m.functions[nm], depth - 1) == "registry":
                        registry = True
        if registry:
            return "registry"
        if any(last(call_name(c)) == "Lock" for c in calls(fn)):
            return "per-instance"
        kinds = {self._value_kind(expand(r.value, r)) for r in rets}
        return "per-instance" if "per-instance" in kinds else sorted(kinds)[0]

    # ------------------------------------------------------------ R3: registry constructs
    def _const(self, e: ast.AST, depth: int = 2):
        """Value of a literal / module-level constant / small arithmetic over them; raises AnchorError otherwise."""
        if isinstance(e, ast.Constant):
            return e.value
        if isinstance(e, ast.UnaryOp) and isinstance(e.op, ast.USub):
            return -self._const(e.operand, depth)
        if isinstance(e, ast.BinOp) and isinstance(e.op, (ast.Add, ast.Sub, ast.Mult, ast.FloorDiv, ast.Pow, ast.LShift)):
            a, b = self._const(e.left, depth), self._const(e.right, depth)
            if isinstance(a, int) and isinstance(b, int):
                return {ast.Add: a + b, ast.Sub: a - b, ast.Mult: a * b, ast.FloorDiv: a // b if b else 0, ast.Pow: a ** min(b, 64), ast.LShift: a << min(b, 64)}[type(e.op)]
        if isinstance(e, ast.Name) and depth > 0:
            v = _toplevel_value(self.m.tree.body, e.id)
            if v is not None:
                return self._const(v, depth - 1)
        raise AnchorError(f"C20.R3: cannot evaluate the cache bound `{ast.unparse(e)[:60]}` of {self.name}'s lock registry")

    def _memo(self, fn: ast.AST) -> tuple[bool, ast.AST, str] | None:
        """Memoising decorator of a lock provider that is keyed by the call arguments (not by the store object):
        (retains every entry for ever?, decorator node, description); None when the provider is not memoised."""
        if isinstance(parent(fn), ast.ClassDef):
            decos = {last(dotted(d.func if isinstance(d, ast.Call) else d)) for d in fn.decorator_list}
            if not decos & {"staticmethod", "classmethod"}:
                return None  # keyed by `self` (cached_property / lru_cache on a method): per store object, not a registry
        for d in fn.decorator_list:
            nm = last(dotted(d.func if isinstance(d, ast.Call) else d)) or ""
            if nm in ("staticmethod", "classmethod"):
                continue
            if nm == "cache":
                return True, d, "functools.cache (unbounded)"
            if nm == "lru_cache":
                if not isinstance(d, ast.Call):
                    return False, d, "lru_cache with its default maxsize=128"
                ms = kwarg(d, "maxsize", 0)
                if ms is None:
                    return False, d, "lru_cache with its default maxsize=128"
                v = self._const(ms)
                if v is None:
                    return True, d, "lru_cache(maxsize=None) (unbounded)"
                return False, d, f"lru_cache(maxsize={v})"
            if "cache" in nm.lower() or "memo" in nm.lower():
                raise AnchorError(f"C20.R3: cannot classify the memoising decorator `{ast.unparse(d)[:60]}` of lock provider {fn.name}")
        return None

    def _container_ref(self, owner: ast.AST, scope: ast.AST) -> tuple[str, str] | None:
        """('module'|'class', name) of the shared container an expression names."""
        if not self._shared_container(owner, scope):
            return None
        if isinstance(owner, ast.Name):
            x = self._unalias(owner)
            if x is not owner:
                return self._container_ref(x, scope)
            return "module", owner.id
        return "class", owner.attr

    def _names_container(self, e: ast.AST, ref: tuple[str, str], at: ast.AST) -> bool:
        e = self._unalias(e)
        if ref[0] == "module":
            return isinstance(e, ast.Name) and e.id == ref[1]
        return isinstance(e, ast.Attribute) and e.attr == ref[1]

    def registry_constructs(self) -> list[dict]:
        """Every construct on the way from the store's lock attribute to the Lock() constructor that maps a key to a
        lock and outlives one store object, with the verdict whether it can drop a lock that is still referenced."""
        roots: list[tuple[ast.AST, ast.AST]] = []
        for name, fn in self.methods.items():
            if name in self.lock_attrs and name not in PUBLIC_OPS and name != "__init__":
                roots.append((fn, fn))
        init = self.methods.get("__init__")
        if init is not None:
            for n in walk_shallow(init):
                if isinstance(n, (ast.Assign, ast.AnnAssign)) and n.value is not None:
                    tgts = n.targets if isinstance(n, ast.Assign) else [n.target]
                    if any(_self_attr(t) in self.lock_attrs for t in tgts):
                        roots.append((n.value, init))
        found: dict[tuple, dict] = {}

        def scan(root: ast.AST, scope: ast.AST, depth: int) -> None:
            for n in (walk_shallow(root) if isinstance(root, FuncNode) else ast.walk(root)):
                owner = None
                if isinstance(n, ast.Subscript):
                    owner = n.value
                elif isinstance(n, ast.Call) and isinstance(n.func, ast.Attribute) and n.func.attr in ("setdefault", "get"):
                    owner = n.func.value
                if owner is not None:
                    ref = self._container_ref(owner, scope)
                    if ref is not None and ref not in found:
                        found[ref] = self._judge_container(ref, n)
                if isinstance(n, ast.Call) and depth > 0:
                    nm = call_name(n)
                    if nm and "." not in nm and nm in self.m.functions and self._contains_lock_ctor(self.m.functions[nm], 0):
                        f = self.m.functions[nm]
                        memo = self._memo(f)
                        if memo is not None:
                            keep, deco, text = memo
                            found.setdefault(("memo", nm), {
                                "label": f"memo table of {nm}()", "slot": "memo", "node": deco, "fn": f, "ok": keep, "what": text,
                                "reason": "" if keep else (f"{text} evicts the least recently *looked-up* key even while a store object still holds that lock (is inside "
                                                           "`async with`): the next store object of the same run gets a fresh Lock and the two interleave load-modify-save")})
                        else:
                            scan(f, f, depth - 1)

        for root, scope in roots:
            scan(root, scope, 1)
        return list(found.values())

    def _judge_container(self, ref: tuple[str, str], use: ast.AST) -> dict:
        kind, name = ref
        body = self.m.tree.body if kind == "module" else self.node.body
        value = _toplevel_value(body, name)
        label = f"{name}" if kind == "module" else f"{self.name}.{name}"
        if value is None:
            raise AnchorError(f"C20.R3: the lock registry `{label}` of {self.name} is not defined at {kind} level of {self.m.rel}; its retention cannot be decided")
        res = {"label": f"mapping {label}", "slot": "container", "node": value, "fn": None, "ok": True, "what": "", "reason": ""}
        ctor = last(call_name(value)) if isinstance(value, ast.Call) else None
        kws = {k.arg for k in value.keywords} if isinstance(value, ast.Call) else set()
        if ctor == "WeakValueDictionary":
            res["what"] = "weak-value mapping (an entry disappears only when no reference to the lock is left)"
            rem = self._removals(ref)
            if rem:
                r = rem[0]
                res.update(ok=False, node=r, fn=enclosing_function(r), reason=f"`{ast.unparse(enclosing_stmt(r) or r)[:70]}` removes a lock from the registry explicitly while another "
                           "store object of the run may still reference or hold it: the next store object creates a fresh Lock and the two interleave load-modify-save "
                           "(leave removal to the weak references)")
            return res
        if (ctor in BOUNDED_CTORS or kws & {"maxsize", "maxlen", "ttl"}) and ctor not in STRONG_CTORS:
            res.update(ok=False, what=f"bounded cache {ctor}", reason=f"`{ast.unparse(value)[:60]}` evicts entries by size / age while a store object can still hold the lock: "
                       "the next store object of the same run creates a fresh Lock and the two interleave load-modify-save")
            return res
        if isinstance(value, (ast.Dict, ast.DictComp)) or ctor in STRONG_CTORS:
            rem = self._removals(ref)
            res["what"] = "strong mapping"
            if rem:
                r = rem[0]
                res.update(ok=False, node=r, fn=enclosing_function(r), reason=f"`{ast.unparse(enclosing_stmt(r) or r)[:70]}` removes a lock from the strong registry while another "
                           "store object of the run may still reference or hold it: the next store object creates a fresh Lock and the two interleave load-modify-save "
                           "(drop entries only through a weak-value mapping)")
            else:
                res["what"] = "strong mapping nothing removes from"
            return res
        raise AnchorError(f"C20.R3: cannot classify the lock registry `{label} = {ast.unparse(value)[:60]}` of {self.name}")

    def _removals(self, ref: tuple[str, str]) -> list[ast.AST]:
        out: list[ast.AST] = []
        for n in ast.walk(self.m.tree):
            if isinstance(n, ast.Call) and isinstance(n.func, ast.Attribute) and n.func.attr in ("pop", "popitem", "clear") and self._names_container(n.func.value, ref, n):
                out.append(n)
            elif isinstance(n, ast.Delete):
                for t in n.targets:
                    if isinstance(t, ast.Subscript) and self._names_container(t.value, ref, n):
                        out.append(n)
                    elif self._names_container(t, ref, n) and enclosing_function(n) is not None:
                        out.append(n)
            elif isinstance(n, (ast.Assign, ast.AnnAssign, ast.AugAssign)) and enclosing_function(n) is not None:
                tgts = n.targets if isinstance(n, ast.Assign) else [n.target]
                for t in tgts:
                    if ref[0] == "module" and isinstance(t, ast.Name) and t.id == ref[1]:
                        f = enclosing_function(n)
                        if any(isinstance(g, ast.Global) and ref[1] in g.names for g in ast.walk(f)):
                            out.append(n)
                    elif ref[0] == "class" and isinstance(t, ast.Attribute) and t.attr == ref[1]:
                        out.append(n)
        return sorted(out, key=lambda x: (x.lineno, x.col_offset))

    # ------------------------------------------------------------ state inventory
    def _state_fields(self) -> set[str]:
        out: set[str] = set()
        for name, fn in self.methods.items():
            if name == "__init__" or name in self.lock_attrs:
                continue
            for n in walk_shallow(fn):
                if isinstance(n, ast.Attribute) and isinstance(n.ctx, (ast.Store, ast.Del)) and _self_attr(n):
                    out.add(n.attr)
                if isinstance(n, ast.Call) and last(call_name(n)) in HELPERS and n.args and _self_attr(n.args[0]):
                    out.add(n.args[0].attr)
        return out - self.lock_attrs

    def touches_storage(self, name: str, depth: int = 3) -> bool:
        if name in self._touch:
            return self._touch[name]
        fn = self.methods.get(name)
        res = False
        if fn is not None and name not in self.lock_attrs:
            self._touch[name] = False
            for n in walk_shallow(fn):
                if isinstance(n, ast.Attribute) and _self_attr(n) in self.state_fields:
                    res = True
                if isinstance(n, ast.Call):
                    if isinstance(n.func, ast.Attribute) and n.func.attr in DB_CALLS and _self_call(n) is None:
                        res = True
                    sc = _self_call(n)
                    if sc and sc in self.methods and depth > 0 and self.touches_storage(sc, depth - 1):
                        res = True
        self._touch[name] = res
        return res

    # ------------------------------------------------------------ accesses and regions
    def accesses(self, fn: ast.AST) -> tuple[list[ast.AST], list[ast.Call]]:
        """(state accesses, delegations to public store operations) inside fn."""
        ops: list[ast.AST] = []
        dele: list[ast.Call] = []
        for n in walk_shallow(fn):
            if isinstance(n, ast.Attribute) and _self_attr(n) in self.state_fields:
                p = parent(n)
                type_only = (isinstance(p, ast.Attribute) and p.attr == "__class__") or (
                    isinstance(p, ast.Call) and call_name(p) == "type" and len(p.args) == 1)
                if not type_only:
                    ops.append(n)
            elif isinstance(n, ast.Call):
                sc = _self_call(n)
                if sc in PUBLIC_OPS:
                    dele.append(n)
                elif sc and sc in self.methods and self.touches_storage(sc):
                    ops.append(n)
                elif sc is None and isinstance(n.func, ast.Attribute) and n.func.attr in DB_CALLS:
                    ops.append(n)
        key = lambda x: (x.lineno, x.col_offset)
        return sorted(ops, key=key), sorted(dele, key=key)

    def lock_region(self, n: ast.AST) -> ast.AST | None:
        """Innermost `async with <store lock>` statement whose *body* contains n."""
        child = n
        for a in ancestors(n):
            if isinstance(a, FuncNode):
                return None
            if isinstance(a, ast.AsyncWith) and any(child is s for s in a.body) and any(self.is_lock_expr(i.context_expr, a) for i in a.items):
                return a
            child = a
        return None

    def is_lock_expr(self, e: ast.AST, at: ast.AST) -> bool:
        x = expand(e, at)
        if isinstance(x, ast.Call) and not x.args and not x.keywords:
            x = x.func
        return _self_attr(x) in self.lock_attrs

    def verdict(self, name: str) -> tuple[bool, str, ast.AST, list[str]]:
        fn = self.methods.get(name)
        if fn is None:
            raise AnchorError(f"{self.name}.{name} not found in {self.m.rel}")
        ops, dele = self.accesses(fn)
        if not ops:
            outside = [d for d in dele if self.lock_region(d) is None]
            if not dele:
                raise AnchorError(f"C20.R1: {self.name}.{name} neither touches the state nor delegates to a store operation (unrecognised idiom)")
            if len(outside) >= 2:
                return False, ("composed of %d separately locked store operations (%s): another writer can complete between them and is then overwritten"
                               % (len(outside), ", ".join(_self_call(d) for d in outside))), outside[1], []
            return True, "", fn, []
        regions = {id(r): r for r in (self.lock_region(o) for o in ops) if r is not None}
        unlocked = [o for o in ops if self.lock_region(o) is None]
        if unlocked:
            o = unlocked[0]
            why = "the class has no lock" if not self.lock_attrs else f"outside every `async with self.{'/'.join(sorted(self.lock_attrs))}` region"
            path = [f"{self.m.rel}:{x.lineno} {ast.unparse(x)[:60]}" for x in unlocked[:6]]
            return False, (f"{len(unlocked)} of {len(ops)} state accesses are {why}; an edit_state block suspended at its yield writes its stale copy back "
                           f"over a write completed here"), o, path
        if len(regions) > 1:
            second = sorted(regions.values(), key=lambda r: r.lineno)[1]
            return False, "state accesses are spread over %d separate lock regions: the lock is released between read and write-back" % len(regions), second, []
        return True, "", fn, []


STRONG_CTORS = {"dict", "defaultdict", "OrderedDict"}
BOUNDED_CTORS = {"LRUCache", "TTLCache", "LFUCache", "FIFOCache", "RRCache", "MRUCache", "TLRUCache", "ExpiringDict"}


def _toplevel_value(body: list[ast.stmt], name: str) -> ast.AST | None:
    """Value of the (last) plain assignment `name = <value>` among the statements of a module / class body."""
    val = None
    for st in body:
        if isinstance(st, ast.Assign) and any(isinstance(t, ast.Name) and t.id == name for t in st.targets):
            val = st.value
        elif isinstance(st, ast.AnnAssign) and isinstance(st.target, ast.Name) and st.target.id == name and st.value is not None:
            val = st.value
    return val


# ----------------------------------------------------------------------------------------------- R2: factories


def _factories(repo: Repo, store: Store) -> list[tuple[Module, ast.ClassDef | None, ast.AST, list[ast.Call]]]:
    out = []
    for m in repo.by_rel.values():
        for q, fn in m.functions.items():
            if q.rsplit(".", 1)[-1] != FACTORY:
                continue
            ctor = [c for c in calls(fn, shallow=False) if _constructs(repo, m, c, store)]
            if ctor:
                cls = parent(fn) if isinstance(parent(fn), ast.ClassDef) else None
                out.append((m, cls, fn, sorted(ctor, key=lambda c: (c.lineno, c.col_offset))))
    return sorted(out, key=lambda t: t[0].rel)


def _constructs(repo: Repo, m: Module, c: ast.Call, store: Store) -> bool:
    f = c.func
    if isinstance(f, ast.Attribute) and f.attr in ("from_dict",):  # alternative constructor
        f = f.value
    if isinstance(f, ast.Subscript):
        f = f.value
    d = dotted(f)
    return bool(d) and repo.resolve_dotted(m, d) == store.ref


def _memoised(fn: ast.AST, ctor: ast.Call) -> tuple[bool, str]:
    """The constructed instance is kept under a run-id key of a container on self and is built only when that
    key is absent."""
    params = [a.arg for a in fn.args.args[1:]]
    if not params:
        return False, "factory has no run id parameter"
    run_key = params[0]
    st = enclosing_stmt(ctor)
    # setdefault(run_id, Store(...))
    p = parent(ctor)
    if isinstance(p, ast.Call) and isinstance(p.func, ast.Attribute) and p.func.attr == "setdefault" and _self_attr(p.func.value) and p.args and \
            any(isinstance(x, ast.Name) and x.id == run_key for x in ast.walk(p.args[0])):
        return True, ""
    container = None
    if isinstance(st, ast.Assign):
        names = set()
        for t in st.targets:
            if isinstance(t, ast.Subscript) and _self_attr(t.value) and any(isinstance(x, ast.Name) and x.id == run_key for x in ast.walk(t.slice)):
                container = _self_attr(t.value)
            elif isinstance(t, ast.Name):
                names.add(t.id)
        if container is None and names:
            # store = Store(...); ...; self.cache[run_id] = store
            for n in walk_shallow(fn):
                if isinstance(n, ast.Assign) and isinstance(n.value, ast.Name) and n.value.id in names:
                    for t in n.targets:
                        if isinstance(t, ast.Subscript) and _self_attr(t.value) and any(isinstance(x, ast.Name) and x.id == run_key for x in ast.walk(t.slice)):
                            container = _self_attr(t.value)
    if container is None:
        return False, f"the new instance is not kept under a `{run_key}` key of a container on the factory's object: every call returns a new store object"
    cfg = CFG(fn)
    guarded = False
    for n in cfg.nodes_of(st):
        for txt, pol in facts_at(cfg, n):
            if f"self.{container}" not in txt:
                continue
            is_none = txt.endswith(" is None") or txt.startswith("None is ")  # symmetric operands are sorted by astx
            if (" in " in txt and not pol) or (is_none and pol) or (" in " not in txt and " is " not in txt and not pol):
                guarded = True
    if not guarded:
        return False, f"the construction overwrites self.{container}[{run_key}] on every call (no `{run_key} not in self.{container}` / is-None guard)"
    return True, ""


# ----------------------------------------------------------------------------------------------- run


def run(chk) -> None:
    repo: Repo = chk.repo
    stores = [Store(repo, mod, name) for mod, name in STORES]

    # ---------------------------------------------------------------- R1
    n_mut = 0
    n_locked_regions = 0
    for st in stores:
        for name in MUTATORS + OBSERVED:
            ok, reason, node, path = st.verdict(name)
            fn = st.methods[name]
            # a pure delegation is only as good as its delegate
            ops, dele = st.accesses(fn)
            via = ""
            if ok and not ops and dele:
                tgt = _self_call(dele[0])
                if tgt in st.methods and tgt != name:
                    ok2, reason2, _n2, path2 = st.verdict(tgt)
                    via = f" (through {tgt})"
                    if not ok2:
                        ok, reason, node, path = False, f"delegates to {tgt}, which is not serialised: {reason2}", dele[0], path2
            if name in OBSERVED:
                if not ok:
                    chk.observe(f"C20 (outside the statement's operation list) {st.name}.{name}: {reason}")
                continue
            n_mut += 1
            if ops:
                n_locked_regions += sum(1 for o in ops if st.lock_region(o) is not None) > 0
            chk.ob("C20.R1", f"{st.name}.{name}: every access of the stored state lies in one `async with <store lock>` region{via}", ok,
                   m=st.m, node=node, fn=fn, instance=f"{st.name}.{name}", reason=reason, path=path)
    chk.floor("C20.R1", "mutators analysed (set, set_state, edit_state per store)", n_mut, 6)
    chk.floor("C20.R1", "mutators with state accesses inside a lock region", n_locked_regions, 3)
    for st in stores:
        fn = st.methods["edit_state"]
        ys = [n for n in walk_shallow(fn) if isinstance(n, (ast.Yield, ast.YieldFrom))]
        if not ys:
            raise AnchorError(f"C20.R1: {st.name}.edit_state does not yield (not a context manager any more)")
        for y in ys:
            inside = st.lock_region(y) is not None
            chk.ob("C20.R1", f"{st.name}.edit_state keeps the lock region open across its yield", inside, m=st.m, node=y, fn=fn,
                   instance=f"{st.name}.edit_state:yield", reason="the caller's block runs outside the lock: two blocks interleave and the later write-back wins")

    # ---------------------------------------------------------------- R2
    n_fact = 0
    for st in stores:
        if not st.lock_attrs:
            chk.ob("C20.R2", f"{st.name} has a lock shared by all store objects of a run", False, m=st.m, node=st.node, instance=f"{st.name}:no-lock",
                   reason="no lock attribute found on the class")
            continue
        facts = _factories(repo, st)
        if st.lock_kind in ("registry", "injected"):
            chk.ob("C20.R2", f"{st.name}: the lock is {st.lock_kind} (not created per store object)", True, m=st.m, node=st.lock_site, instance=f"{st.name}:lock-{st.lock_kind}")
            if st.lock_kind == "injected":
                chk.observe(f"C20.R2: {st.name} receives its lock through the constructor; that the factories pass one lock per run is not checked.")
            n_fact += len(facts)
            continue
        if not facts:
            raise AnchorError(f"C20.R2: no `{FACTORY}` factory constructs {st.name}; the per-instance lock cannot be related to a run")
        for m, cls, fn, ctors in facts:
            n_fact += 1
            bad = [(c, _memoised(fn, c)) for c in ctors]
            fails = [(c, why) for c, (ok, why) in bad if not ok]
            owner = cls.name if cls is not None else m.name
            path = [f"{st.m.rel}:{getattr(st.lock_site, 'lineno', 0)} {st.name} creates its lock per store object",
                    "workflows/runtime/types/step_function.py as_step_worker_function.wrapper -> Context._create_internal -> runtime.get_internal_adapter (per step invocation)",
                    f"adapter.get_state_store -> {owner}.{FACTORY} -> new {st.name}"]
            chk.ob("C20.R2", f"{owner}.{FACTORY} hands out one {st.name} (hence one lock) per run id", not fails, m=m, node=(fails[0][0] if fails else ctors[0]), fn=fn,
                   instance=f"{owner}.{FACTORY}->{st.name}", reason=(fails[0][1] + f"; {st.name}'s lock is created per object, so concurrent steps of one run "
                   "lock different locks and exclude nothing") if fails else "", path=path if fails else [])
    chk.floor("C20.R2", "create_state_store factories constructing an anchored store", n_fact, 2)

    # ---------------------------------------------------------------- R3
    n_reg = 0
    for st in stores:
        if st.lock_kind != "registry":
            continue
        cons = st.registry_constructs()
        if not cons:
            raise AnchorError(f"C20.R3: {st.name}'s lock is classified as a registry lock but no key -> lock construct was found")
        for c in cons:
            n_reg += 1
            chk.ob("C20.R3", f"{st.name}: the key -> lock registry ({c['label']}: {c['what']}) never drops a lock that can still be referenced", c["ok"],
                   m=st.m, node=c["node"], fn=c["fn"], instance=f"{st.name}:lock-registry:{c['slot']}", reason=c["reason"])
    if any(st.lock_kind == "registry" for st in stores):
        chk.floor("C20.R3", "key -> lock registries classified", n_reg, 1)
    else:
        # no anchored store takes its lock from a registry: lock identity is then R2's memoised-factory obligation alone
        chk.observe("C20.R3: no anchored store takes its lock from a registry (today SqliteStateStore does); lock identity rests on R2 only.")

    # ---------------------------------------------------------------- observations: other stores, other construction sites
    for m in sorted(repo.by_rel.values(), key=lambda x: x.rel):
        for q, c in m.classes.items():
            if f"{m.name}:{q}" in {s.ref for s in stores}:
                continue
            names = {n.name for n in c.body if isinstance(n, FuncNode)}
            if not {"get_state", "set_state", "edit_state"} <= names:
                continue
            if any(isinstance(b, ast.Subscript) and dotted(b.value) == "Protocol" or dotted(b) == "Protocol" for b in c.bases):
                continue
            try:
                other = Store(repo, m.name, q)
                for name in ("set", "set_state", "clear", "edit_state"):
                    if name in other.methods:
                        ok, reason, _n, _p = other.verdict(name)
                        if ok:
                            ops, dele = other.accesses(other.methods[name])
                            if not ops and dele and _self_call(dele[0]) in other.methods and _self_call(dele[0]) != name:
                                ok, reason, _n, _p = other.verdict(_self_call(dele[0]))
                                reason = f"delegates to {_self_call(dele[0])}: {reason}" if not ok else ""
                        if not ok:
                            chk.observe(f"C20 (not gating, {m.rel}) {q}.{name}: {reason[:160]}")
                if other.lock_kind == "per-instance":
                    chk.observe(f"C20 (not gating, {m.rel}) {q}: lock is created per store object")
            except AnchorError as e:
                chk.observe(f"C20 (not gating, {m.rel}) {q}: not analysed ({e})")
    others = []
    for st in stores:
        for m in repo.by_rel.values():
            for c in calls(m.tree, shallow=False):
                if _constructs(repo, m, c, st):
                    fn = enclosing_function(c)
                    if fn is not None and fn.name != FACTORY and not (isinstance(parent(fn), ast.ClassDef) and parent(fn).name == st.name):
                        others.append(f"{m.rel}:{c.lineno} ({fn.name}) builds {st.name}")
    if others:
        chk.observe("C20.R2 construction sites outside create_state_store factories (not gating): " + "; ".join(sorted(others)))


# ----------------------------------------------------------------------------------------------- twins

_PM = "packages/llama-index-workflows/src/workflows/context/state_store.py"
_PS = "packages/llama-agents-server/src/llama_agents/server/_store/sqlite/sqlite_state_store.py"
_PF = "packages/llama-agents-server/src/llama_agents/server/_store/memory_workflow_store.py"

_SET_STATE_NOW = '        async with self._lock:\n            current_state = self._load_state()\n            merged = merge_state(current_state, state)\n            self._save_state(merged)  # type: ignore[arg-type]\n'
_SET_STATE_PRE_FIX = '        conn = self._connect()\n        try:\n            cursor = conn.cursor()\n            cursor.execute(\n                "SELECT state_json FROM workflow_state WHERE run_id = ?",\n                (self._run_id,),\n            )\n            row = cursor.fetchone()\n\n            if row is None:\n                self._save_state(state, conn)\n                conn.commit()\n                return\n\n            current_state = self._deserialize_state(row[0])\n            merged = merge_state(current_state, state)\n            self._save_state(merged, conn)  # type: ignore[arg-type]\n            conn.commit()\n        finally:\n            self._release(conn)\n'
_LOCK_NOW = "        key = (self._db_path, self._run_id)\n        lock = _RUN_LOCKS.get(key)\n        if lock is None:\n            lock = _RUN_LOCKS[key] = asyncio.Lock()\n        return lock\n"

_REG_NOW = "_RUN_LOCKS: weakref.WeakValueDictionary[tuple[str, str], asyncio.Lock] = (\n    weakref.WeakValueDictionary()\n)\n"
_LOCK_VIA_PROVIDER = "        return _lock_for(self._db_path, self._run_id)\n"
_PROVIDER = "def _lock_for(db_path: str, run_id: str) -> asyncio.Lock:\n    return asyncio.Lock()\n"


def _memo_twin(deco: str, extra: str = "") -> tuple[str, str]:
    return multi(_PS, [(_REG_NOW, extra + deco + _PROVIDER), (_LOCK_NOW, _LOCK_VIA_PROVIDER)])


TWINS = [
    # ---- R3 breaking: the registry can drop a lock that is still held
    Twin("seed form: lock registry becomes lru_cache(maxsize=256)", _PS, *_memo_twin("@functools.lru_cache(maxsize=256)\n"), "C20.R3"),
    Twin("lock registry becomes a bare lru_cache (default maxsize 128)", _PS, *_memo_twin("@functools.lru_cache\n"), "C20.R3"),
    Twin("lock registry lru_cache bounded through a module constant", _PS, *_memo_twin("@functools.lru_cache(_MAX_RUN_LOCKS)\n", "_MAX_RUN_LOCKS = 4 * 64\n\n\n"), "C20.R3"),
    Twin("strong dict registry with eviction on size", _PS, *multi(_PS, [
        (_REG_NOW, "_RUN_LOCKS: dict[tuple[str, str], asyncio.Lock] = {}\n"),
        (_LOCK_NOW, "        key = (self._db_path, self._run_id)\n        lock = _RUN_LOCKS.get(key)\n        if lock is None:\n            if len(_RUN_LOCKS) >= 256:\n"
                    "                _RUN_LOCKS.pop(next(iter(_RUN_LOCKS)))\n            lock = _RUN_LOCKS[key] = asyncio.Lock()\n        return lock\n")]), "C20.R3"),
    Twin("strong dict registry whose entry is deleted after clear()", _PS, *multi(_PS, [
        (_REG_NOW, "_RUN_LOCKS: dict[tuple[str, str], asyncio.Lock] = {}\n"),
        ("        await self.set_state(create_cleared_state(self.state_type))\n", "        await self.set_state(create_cleared_state(self.state_type))\n        del _RUN_LOCKS[(self._db_path, self._run_id)]\n")]), "C20.R3"),
    Twin("registry becomes a TTL cache", _PS, _REG_NOW, "_RUN_LOCKS = TTLCache(maxsize=1024, ttl=600)\n", "C20.R3"),
    Twin("provider without any memo hands out a fresh lock per call", _PS, *_memo_twin(""), "C20.R2"),
    # ---- R3 benign: registries that never drop a referenced lock
    Twin("benign: lock registry through functools.cache", _PS, *_memo_twin("@functools.cache\n"), None),
    Twin("benign: lock registry through lru_cache(maxsize=None)", _PS, *_memo_twin("@functools.lru_cache(maxsize=None)\n"), None),
    Twin("benign: strong dict registry nothing removes from", _PS, _REG_NOW, "_RUN_LOCKS: dict[tuple[str, str], asyncio.Lock] = {}\n", None),
    Twin("weak registry entry popped explicitly in clear()", _PS, "        await self.set_state(create_cleared_state(self.state_type))\n",
         "        await self.set_state(create_cleared_state(self.state_type))\n        _RUN_LOCKS.pop((self._db_path, self._run_id), None)\n", "C20.R3"),
    Twin("benign: weak registry read through a local alias of the key", _PS, _LOCK_NOW,
         "        locks = _RUN_LOCKS\n        key = (self._db_path, self._run_id)\n        lock = locks.get(key)\n        if lock is None:\n            lock = asyncio.Lock()\n            locks[key] = lock\n        return lock\n", None),
    # ---- R1 breaking
    Twin("memory set without the lock", _PM, "        async with self._lock:\n            set_by_path(self._state, path, value)", "        set_by_path(self._state, path, value)", "C20.R1"),
    Twin("memory set_state without the lock", _PM, "        async with self._lock:\n            self._state = merge_state(self._state, state)",
         "        self._state = merge_state(self._state, state)", "C20.R1"),
    Twin("sqlite edit_state releases the lock across the yield", _PS,
         "        async with self._lock:\n            state = self._load_state()\n            yield state\n            self._save_state(state)",
         "        async with self._lock:\n            state = self._load_state()\n        yield state\n        async with self._lock:\n            self._save_state(state)", "C20.R1"),
    Twin("sqlite set composed of get_state + set_state", _PS, "        async with self.edit_state() as state:\n            set_by_path(state, path, value)",
         "        state = await self.get_state()\n        set_by_path(state, path, value)\n        await self.set_state(state)", "C20.R1"),
    Twin("memory edit_state under a fresh lock", _PM, "        async with self._lock:\n            state = self._state", "        async with asyncio.Lock():\n            state = self._state", "C20.R1"),
    Twin("memory edit_state reads before taking the lock", _PM, "        async with self._lock:\n            state = self._state\n\n            yield state",
         "        state = self._state\n        async with self._lock:\n            yield state", "C20.R1"),
    # ---- R1 benign
    Twin("benign: memory set_state lock through a local", _PM, "        async with self._lock:\n            self._state = merge_state(self._state, state)",
         "        lock = self._lock\n        async with lock:\n            self._state = merge_state(self._state, state)", None),
    Twin("benign: sqlite set inlines the edit under the lock", _PS, "        async with self.edit_state() as state:\n            set_by_path(state, path, value)",
         "        async with self._lock:\n            state = self._load_state()\n            set_by_path(state, path, value)\n            self._save_state(state)", None),
    Twin("benign: memory clear via type()", _PM, "        await self.set_state(create_cleared_state(self._state.__class__))",
         "        kind = type(self._state)\n        await self.set_state(create_cleared_state(kind))", None),
    Twin("pre-fix: sqlite set_state reads and writes outside the lock", _PS, _SET_STATE_NOW, _SET_STATE_PRE_FIX, "C20.R1"),
    Twin("sqlite set_state loads before taking the lock", _PS, "        async with self._lock:\n            current_state = self._load_state()\n            merged",
         "        current_state = self._load_state()\n        async with self._lock:\n            merged", "C20.R1"),
    Twin("benign: sqlite set_state body in a private helper under the lock", _PS, _SET_STATE_NOW,
         "        async with self._lock:\n            self._set_state_locked(state)\n\n    def _set_state_locked(self, state: MODEL_T) -> None:\n"
         "        current_state = self._load_state()\n        merged = merge_state(current_state, state)\n        self._save_state(merged)\n", None),
    # ---- R2 breaking
    Twin("memory factory loses its memo guard", _PF, "        if run_id not in self.state_stores:", "        if True:", "C20.R2"),
    Twin("memory factory returns a fresh wrapper around the shared state", _PF, "        return self.state_stores[run_id]",
         "        return InMemoryStateStore(self.state_stores[run_id]._state)", "C20.R2"),
    # ---- R2 benign
    Twin("benign: memory factory guard via get() is None", _PF, "        if run_id not in self.state_stores:", "        if self.state_stores.get(run_id) is None:", None),
    Twin("benign: memory factory guard via local", _PF, "        if run_id not in self.state_stores:", "        missing = run_id not in self.state_stores\n        if missing:", None),
    Twin("pre-fix: sqlite lock created per store object", _PS, _LOCK_NOW, "        return asyncio.Lock()\n", "C20.R2"),
    Twin("sqlite lock registry owned by the instance", _PS, _LOCK_NOW,
         "        if not hasattr(self, \"_locks\"):\n            self._locks = {}\n        return self._locks.setdefault((self._db_path, self._run_id), asyncio.Lock())\n", "C20.R2"),
    Twin("benign: sqlite lock registry through setdefault", _PS, _LOCK_NOW, "        return _RUN_LOCKS.setdefault((self._db_path, self._run_id), asyncio.Lock())\n", None),
    Twin("benign: sqlite lock registry on the class", _PS, _LOCK_NOW,
         "        return SqliteStateStore._LOCKS.setdefault((self._db_path, self._run_id), asyncio.Lock())\n\n    _LOCKS: dict = {}\n", None),
]
