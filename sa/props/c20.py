"""C20 — concurrent state updates are never lost.

Oracle: the store operations are serialisable iff every read-modify-write of the state runs inside one
region of one lock that every writer of the same run's state shares.  ``edit_state`` necessarily keeps its
region open across a suspension point (the ``yield`` to the caller's block), therefore *every* other writer
must take the same lock — an unlocked writer that completes while an edit block is suspended is overwritten
by the block's write-back.

* R1  (lock discipline) for each anchored store (InMemoryStateStore, SqliteStateStore) and each mutator named
      by the statement (``set``, ``set_state``, ``edit_state``): every access of the stored state inside the
      method — loads/stores of the state field, calls of private methods that touch the storage, direct
      connection/cursor calls — lies in the body of ONE ``async with <the store's lock>`` statement; a method
      with no such access must delegate to exactly one other public store operation (which is checked itself).
      Two separately locked public operations composed in one mutator (get_state … set_state) are a
      check-then-act window and are reported.  ``clear`` is analysed the same way and reported as an observation
      (the statement names only set / set_state / edit_state).
* R2  (lock identity) the lock is shared by every store object that addresses the same run: either the lock is
      not per-instance (looked up in a module/class-level registry, or injected through the constructor), or
      every ``create_state_store`` factory that constructs the store memoises one instance per run id (the
      construction is stored under a run-id key of a container on the factory's object and is guarded by a
      membership / is-None test on that container, or goes through ``setdefault``).
      Why per call matters: every step invocation builds a new Context -> runtime.get_internal_adapter() -> a new
      server adapter whose get_state_store() calls ``create_state_store`` (workflows/runtime/types/step_function.py,
      server/_runtime/server_runtime.py), so two concurrent steps of one run hold two store objects.

Dropped: the design's R3 ("no suspension point inside a critical section other than the yield") is not a
necessary condition (awaiting while holding the lock is safe); its useful part — the region must stay open
across the yield and cover the load before and the save after it — is what R1's single-region clause decides.
Not decided: writers in other processes, fairness of asyncio.Lock, stores other than the two anchored ones
(Postgres / agent-data stores are analysed with the same matcher and reported as observations only).
"""

from __future__ import annotations

import ast

from ..astx import call_name, calls, dotted, enclosing_stmt, expand, facts_at, last
from ..cfg import CFG
from ..index import AnchorError, FuncNode, Module, Repo, ancestors, enclosing_function, parent, walk_shallow
from ..selftest import Twin

EXPLANATION = (
    "Lock-discipline rules over InMemoryStateStore (workflows/context/state_store.py) and SqliteStateStore "
    "(server/_store/sqlite/sqlite_state_store.py) and the create_state_store factories that build them. "
    "R1: in set / set_state / edit_state every access of the stored state (state field, storage-touching private methods, connection/cursor calls) "
    "lies inside ONE `async with <store lock>` region, or the method delegates to exactly one other public store operation; edit_state must keep the "
    "region open across its yield, so any writer outside the lock can be overwritten by a suspended edit block. "
    "R2: the lock is shared by all store objects of one run: not per-instance (registry / injected), or every create_state_store factory memoises "
    "one instance per run id. Every step invocation obtains its store through a fresh adapter -> create_state_store, so a per-instance lock on "
    "per-call instances excludes nothing. NOT decided: cross-process writers, fairness, stores other than the two anchored (observations only); "
    "`clear` is outside the statement's operation list and is an observation."
)
TRUSTED = ["CPython ast", "asyncio.Lock mutual exclusion", "asyncio tasks switch only at await / async with / async for / yield"]
LEVEL_TEXT = "static lock-discipline rules (T7b region coverage, T7c lock identity); no repo code executed"
LEVEL_NOTE = "A pass means every anchored writer is inside one shared lock region; it does not prove serialisability against writers outside the two stores."
TECHNIQUE = "AST region analysis of async-with lock scopes, storage-access inventory through self-calls, factory memoisation check with CFG guard facts"

MEM = "workflows.context.state_store"
SQL = "llama_agents.server._store.sqlite.sqlite_state_store"
STORES = [(MEM, "InMemoryStateStore"), (SQL, "SqliteStateStore")]
MUTATORS = ("set", "set_state", "edit_state")
OBSERVED = ("clear",)
PUBLIC_OPS = {"get", "get_state", "set", "set_state", "clear", "edit_state"}
HELPERS = {"get_by_path", "set_by_path", "merge_state"}
DB_CALLS = {"execute", "executemany", "executescript", "cursor", "commit", "rollback", "fetchone", "fetchall", "fetchmany", "connect"}
FACTORY = "create_state_store"


def _self_attr(e: ast.AST) -> str | None:
    if isinstance(e, ast.Attribute) and isinstance(e.value, ast.Name) and e.value.id == "self":
        return e.attr
    return None


def _self_call(c: ast.AST) -> str | None:
    return _self_attr(c.func) if isinstance(c, ast.Call) else None


class Store:
    def __init__(self, repo: Repo, modname: str, clsname: str):
        self.repo = repo
        self.m, self.node = repo.cls(f"{modname}:{clsname}")
        self.ref = f"{modname}:{clsname}"
        self.name = clsname
        self.methods = {n.name: n for n in self.node.body if isinstance(n, FuncNode)}
        self.lock_attrs, self.lock_kind, self.lock_site = self._bind_lock()
        self.state_fields = self._state_fields()
        self._touch: dict[str, bool] = {}

    # ------------------------------------------------------------ lock binding
    def _contains_lock_ctor(self, root: ast.AST, depth: int = 1) -> bool:
        for c in calls(root, shallow=False):
            nm = call_name(c)
            if last(nm) == "Lock":
                return True
            if depth > 0 and nm and "." not in nm and nm in self.m.functions and self._contains_lock_ctor(self.m.functions[nm], depth - 1):
                return True
        return False

    def _bind_lock(self) -> tuple[set[str], str, ast.AST | None]:
        """Attributes of self that evaluate to the store's lock, and how the lock comes to exist:
        'per-instance' (a fresh Lock() per store object), 'registry' (looked up / created in a container that is
        not owned by the instance), 'injected' (constructor parameter)."""
        attrs: dict[str, tuple[str, ast.AST]] = {}
        for name, fn in self.methods.items():
            if name in PUBLIC_OPS or name == "__init__":
                continue
            if self._contains_lock_ctor(fn):
                attrs[name] = (self._producer_kind(fn), fn)
        init = self.methods.get("__init__")
        if init is not None:
            iparams = {a.arg for a in init.args.args + init.args.kwonlyargs}
            for n in walk_shallow(init):
                if isinstance(n, (ast.Assign, ast.AnnAssign)) and n.value is not None:
                    tgts = n.targets if isinstance(n, ast.Assign) else [n.target]
                    for t in tgts:
                        a = _self_attr(t)
                        if a is None:
                            continue
                        v = n.value
                        if self._contains_lock_ctor(v):
                            attrs[a] = (self._value_kind(v), n)
                        elif "lock" in a.lower() and any(isinstance(x, ast.Name) and x.id in iparams for x in ast.walk(v)):
                            attrs[a] = ("injected", n)
        if not attrs:
            return set(), "none", None
        kinds = {k for k, _s in attrs.values()}
        kind = "per-instance" if "per-instance" in kinds else sorted(kinds)[0]
        site = next(s for k, s in attrs.values() if k == kind)
        return set(attrs), kind, site

    def _value_kind(self, v: ast.AST) -> str:
        """Lock-valued expression: fresh object, or an entry of a container that outlives the instance."""
        if isinstance(v, ast.Call) and last(call_name(v)) == "Lock":
            return "per-instance"
        if isinstance(v, ast.Call) and isinstance(v.func, ast.Attribute) and v.func.attr in ("setdefault", "get"):
            owner = v.func.value
            if _self_attr(owner) is not None and not self._class_level(_self_attr(owner)):
                return "per-instance"
            return "registry"
        if isinstance(v, ast.Subscript):
            owner = v.value
            if _self_attr(owner) is not None and not self._class_level(_self_attr(owner)):
                return "per-instance"
            return "registry"
        if isinstance(v, ast.Call):
            nm = call_name(v)
            if nm and "." not in nm and nm in self.m.functions:
                return "registry"  # module-level lock provider (one call deep, contains the Lock() constructor)
        raise AnchorError(f"C20: cannot classify the lock expression `{ast.unparse(v)[:80]}` of {self.name}")

    def _class_level(self, attr: str) -> bool:
        for st in self.node.body:
            if isinstance(st, ast.Assign) and any(isinstance(t, ast.Name) and t.id == attr for t in st.targets):
                return True
            if isinstance(st, ast.AnnAssign) and isinstance(st.target, ast.Name) and st.target.id == attr and st.value is not None:
                return True
        return False

    def _shared_container(self, owner: ast.AST, fn: ast.AST) -> bool:
        """``owner`` names a container that outlives one store object: a module-level name (not re-bound locally),
        an attribute of the class object (``Cls.X``, ``type(self).X``, ``cls.X``) or a class-level attribute read through self."""
        a = _self_attr(owner)
        if a is not None:
            return self._class_level(a)
        if isinstance(owner, ast.Name):
            local = any(isinstance(n, ast.Name) and n.id == owner.id and isinstance(n.ctx, ast.Store) for n in ast.walk(fn))
            return not local
        if isinstance(owner, ast.Attribute):
            base = owner.value
            if isinstance(base, ast.Name) and base.id in (self.name, "cls"):
                return True
            if isinstance(base, ast.Call) and call_name(base) == "type":
                return True
            if isinstance(base, ast.Attribute) and base.attr == "__class__":
                return True
        return False

    def _producer_kind(self, fn: ast.AST, depth: int = 1) -> str:
        """How the lock returned by this provider comes to exist.  Registry evidence: the provider stores into /
        looks up a container that outlives the instance (subscript store, setdefault, get, subscript load)."""
        rets = [n for n in walk_shallow(fn) if isinstance(n, ast.Return) and n.value is not None]
        if not rets:
            raise AnchorError(f"C20: lock provider {self.name}.{fn.name} returns nothing")
        registry = False
        for n in walk_shallow(fn):
            if isinstance(n, ast.Subscript) and self._shared_container(n.value, fn):
                registry = True
            if isinstance(n, ast.Call) and isinstance(n.func, ast.Attribute) and n.func.attr in ("setdefault", "get") and self._shared_container(n.func.value, fn):
                registry = True
            if isinstance(n, ast.Call) and depth > 0:
                nm = call_name(n)
                if nm and "." not in nm and nm in self.m.functions and self._contains_lock_ctor(self.m.functions[nm], 0):
                    if self._producer_kind(self.m.functions[nm], depth - 1) == "registry":
                        registry = True
        if registry:
            return "registry"
        if any(last(call_name(c)) == "Lock" for c in calls(fn)):
            return "per-instance"
        kinds = {self._value_kind(expand(r.value, r)) for r in rets}
        return "per-instance" if "per-instance" in kinds else sorted(kinds)[0]

    # ------------------------------------------------------------ state inventory
    def _state_fields(self) -> set[str]:
        out: set[str] = set()
        for name, fn in self.methods.items():
            if name == "__init__" or name in self.lock_attrs:
                continue
            for n in walk_shallow(fn):
                if isinstance(n, ast.Attribute) and isinstance(n.ctx, (ast.Store, ast.Del)) and _self_attr(n):
                    out.add(n.attr)
                if isinstance(n, ast.Call) and last(call_name(n)) in HELPERS and n.args and _self_attr(n.args[0]):
                    out.add(n.args[0].attr)
        return out - self.lock_attrs

    def touches_storage(self, name: str, depth: int = 3) -> bool:
        if name in self._touch:
            return self._touch[name]
        fn = self.methods.get(name)
        res = False
        if fn is not None and name not in self.lock_attrs:
            self._touch[name] = False
            for n in walk_shallow(fn):
                if isinstance(n, ast.Attribute) and _self_attr(n) in self.state_fields:
                    res = True
                if isinstance(n, ast.Call):
                    if isinstance(n.func, ast.Attribute) and n.func.attr in DB_CALLS and _self_call(n) is None:
                        res = True
                    sc = _self_call(n)
                    if sc and sc in self.methods and depth > 0 and self.touches_storage(sc, depth - 1):
                        res = True
        self._touch[name] = res
        return res

    # ------------------------------------------------------------ accesses and regions
    def accesses(self, fn: ast.AST) -> tuple[list[ast.AST], list[ast.Call]]:
        """(state accesses, delegations to public store operations) inside fn."""
        ops: list[ast.AST] = []
        dele: list[ast.Call] = []
        for n in walk_shallow(fn):
            if isinstance(n, ast.Attribute) and _self_attr(n) in self.state_fields:
                p = parent(n)
                type_only = (isinstance(p, ast.Attribute) and p.attr == "__class__") or (
                    isinstance(p, ast.Call) and call_name(p) == "type" and len(p.args) == 1)
                if not type_only:
                    ops.append(n)
            elif isinstance(n, ast.Call):
                sc = _self_call(n)
                if sc in PUBLIC_OPS:
                    dele.append(n)
                elif sc and sc in self.methods and self.touches_storage(sc):
                    ops.append(n)
                elif sc is None and isinstance(n.func, ast.Attribute) and n.func.attr in DB_CALLS:
                    ops.append(n)
        key = lambda x: (x.lineno, x.col_offset)
        return sorted(ops, key=key), sorted(dele, key=key)

    def lock_region(self, n: ast.AST) -> ast.AST | None:
        """Innermost `async with <store lock>` statement whose *body* contains n."""
        child = n
        for a in ancestors(n):
            if isinstance(a, FuncNode):
                return None
            if isinstance(a, ast.AsyncWith) and any(child is s for s in a.body) and any(self.is_lock_expr(i.context_expr, a) for i in a.items):
                return a
            child = a
        return None

    def is_lock_expr(self, e: ast.AST, at: ast.AST) -> bool:
        x = expand(e, at)
        if isinstance(x, ast.Call) and not x.args and not x.keywords:
            x = x.func
        return _self_attr(x) in self.lock_attrs

    def verdict(self, name: str) -> tuple[bool, str, ast.AST, list[str]]:
        fn = self.methods.get(name)
        if fn is None:
            raise AnchorError(f"{self.name}.{name} not found in {self.m.rel}")
        ops, dele = self.accesses(fn)
        if not ops:
            outside = [d for d in dele if self.lock_region(d) is None]
            if not dele:
                raise AnchorError(f"C20.R1: {self.name}.{name} neither touches the state nor delegates to a store operation (unrecognised idiom)")
            if len(outside) >= 2:
                return False, ("composed of %d separately locked store operations (%s): another writer can complete between them and is then overwritten"
                               % (len(outside), ", ".join(_self_call(d) for d in outside))), outside[1], []
            return True, "", fn, []
        regions = {id(r): r for r in (self.lock_region(o) for o in ops) if r is not None}
        unlocked = [o for o in ops if self.lock_region(o) is None]
        if unlocked:
            o = unlocked[0]
            why = "the class has no lock" if not self.lock_attrs else f"outside every `async with self.{'/'.join(sorted(self.lock_attrs))}` region"
            path = [f"{self.m.rel}:{x.lineno} {ast.unparse(x)[:60]}" for x in unlocked[:6]]
            return False, (f"{len(unlocked)} of {len(ops)} state accesses are {why}; an edit_state block suspended at its yield writes its stale copy back "
                           f"over a write completed here"), o, path
        if len(regions) > 1:
            second = sorted(regions.values(), key=lambda r: r.lineno)[1]
            return False, "state accesses are spread over %d separate lock regions: the lock is released between read and write-back" % len(regions), second, []
        return True, "", fn, []


# ----------------------------------------------------------------------------------------------- R2: factories


def _factories(repo: Repo, store: Store) -> list[tuple[Module, ast.ClassDef | None, ast.AST, list[ast.Call]]]:
    out = []
    for m in repo.by_rel.values():
        for q, fn in m.functions.items():
            if q.rsplit(".", 1)[-1] != FACTORY:
                continue
            ctor = [c for c in calls(fn, shallow=False) if _constructs(repo, m, c, store)]
            if ctor:
                cls = parent(fn) if isinstance(parent(fn), ast.ClassDef) else None
                out.append((m, cls, fn, sorted(ctor, key=lambda c: (c.lineno, c.col_offset))))
    return sorted(out, key=lambda t: t[0].rel)


def _constructs(repo: Repo, m: Module, c: ast.Call, store: Store) -> bool:
    f = c.func
    if isinstance(f, ast.Attribute) and f.attr in ("from_dict",):  # alternative constructor
        f = f.value
    if isinstance(f, ast.Subscript):
        f = f.value
    d = dotted(f)
    return bool(d) and repo.resolve_dotted(m, d) == store.ref


def _memoised(fn: ast.AST, ctor: ast.Call) -> tuple[bool, str]:
    """The constructed instance is kept under a run-id key of a container on self and is built only when that
    key is absent."""
    params = [a.arg for a in fn.args.args[1:]]
    if not params:
        return False, "factory has no run id parameter"
    run_key = params[0]
    st = enclosing_stmt(ctor)
    # setdefault(run_id, Store(...))
    p = parent(ctor)
    if isinstance(p, ast.Call) and isinstance(p.func, ast.Attribute) and p.func.attr == "setdefault" and _self_attr(p.func.value) and p.args and \
            any(isinstance(x, ast.Name) and x.id == run_key for x in ast.walk(p.args[0])):
        return True, ""
    container = None
    if isinstance(st, ast.Assign):
        names = set()
        for t in st.targets:
            if isinstance(t, ast.Subscript) and _self_attr(t.value) and any(isinstance(x, ast.Name) and x.id == run_key for x in ast.walk(t.slice)):
                container = _self_attr(t.value)
            elif isinstance(t, ast.Name):
                names.add(t.id)
        if container is None and names:
            # store = Store(...); ...; self.cache[run_id] = store
            for n in walk_shallow(fn):
                if isinstance(n, ast.Assign) and isinstance(n.value, ast.Name) and n.value.id in names:
                    for t in n.targets:
                        if isinstance(t, ast.Subscript) and _self_attr(t.value) and any(isinstance(x, ast.Name) and x.id == run_key for x in ast.walk(t.slice)):
                            container = _self_attr(t.value)
    if container is None:
        return False, f"the new instance is not kept under a `{run_key}` key of a container on the factory's object: every call returns a new store object"
    cfg = CFG(fn)
    guarded = False
    for n in cfg.nodes_of(st):
        for txt, pol in facts_at(cfg, n):
            if f"self.{container}" not in txt:
                continue
            is_none = txt.endswith(" is None") or txt.startswith("None is ")  # symmetric operands are sorted by astx
            if (" in " in txt and not pol) or (is_none and pol) or (" in " not in txt and " is " not in txt and not pol):
                guarded = True
    if not guarded:
        return False, f"the construction overwrites self.{container}[{run_key}] on every call (no `{run_key} not in self.{container}` / is-None guard)"
    return True, ""


# ----------------------------------------------------------------------------------------------- run


def run(chk) -> None:
    repo: Repo = chk.repo
    stores = [Store(repo, mod, name) for mod, name in STORES]

    # ---------------------------------------------------------------- R1
    n_mut = 0
    n_locked_regions = 0
    for st in stores:
        for name in MUTATORS + OBSERVED:
            ok, reason, node, path = st.verdict(name)
            fn = st.methods[name]
            # a pure delegation is only as good as its delegate
            ops, dele = st.accesses(fn)
            via = ""
            if ok and not ops and dele:
                tgt = _self_call(dele[0])
                if tgt in st.methods and tgt != name:
                    ok2, reason2, _n2, path2 = st.verdict(tgt)
                    via = f" (through {tgt})"
                    if not ok2:
                        ok, reason, node, path = False, f"delegates to {tgt}, which is not serialised: {reason2}", dele[0], path2
            if name in OBSERVED:
                if not ok:
                    chk.observe(f"C20 (outside the statement's operation list) {st.name}.{name}: {reason}")
                continue
            n_mut += 1
            if ops:
                n_locked_regions += sum(1 for o in ops if st.lock_region(o) is not None) > 0
            chk.ob("C20.R1", f"{st.name}.{name}: every access of the stored state lies in one `async with <store lock>` region{via}", ok,
                   m=st.m, node=node, fn=fn, instance=f"{st.name}.{name}", reason=reason, path=path)
    chk.floor("C20.R1", "mutators analysed (set, set_state, edit_state per store)", n_mut, 6)
    chk.floor("C20.R1", "mutators with state accesses inside a lock region", n_locked_regions, 3)
    for st in stores:
        fn = st.methods["edit_state"]
        ys = [n for n in walk_shallow(fn) if isinstance(n, (ast.Yield, ast.YieldFrom))]
        if not ys:
            raise AnchorError(f"C20.R1: {st.name}.edit_state does not yield (not a context manager any more)")
        for y in ys:
            inside = st.lock_region(y) is not None
            chk.ob("C20.R1", f"{st.name}.edit_state keeps the lock region open across its yield", inside, m=st.m, node=y, fn=fn,
                   instance=f"{st.name}.edit_state:yield", reason="the caller's block runs outside the lock: two blocks interleave and the later write-back wins")

    # ---------------------------------------------------------------- R2
    n_fact = 0
    for st in stores:
        if not st.lock_attrs:
            chk.ob("C20.R2", f"{st.name} has a lock shared by all store objects of a run", False, m=st.m, node=st.node, instance=f"{st.name}:no-lock",
                   reason="no lock attribute found on the class")
            continue
        facts = _factories(repo, st)
        if st.lock_kind in ("registry", "injected"):
            chk.ob("C20.R2", f"{st.name}: the lock is {st.lock_kind} (not created per store object)", True, m=st.m, node=st.lock_site, instance=f"{st.name}:lock-{st.lock_kind}")
            if st.lock_kind == "injected":
                chk.observe(f"C20.R2: {st.name} receives its lock through the constructor; that the factories pass one lock per run is not checked.")
            n_fact += len(facts)
            continue
        if not facts:
            raise AnchorError(f"C20.R2: no `{FACTORY}` factory constructs {st.name}; the per-instance lock cannot be related to a run")
        for m, cls, fn, ctors in facts:
            n_fact += 1
            bad = [(c, _memoised(fn, c)) for c in ctors]
            fails = [(c, why) for c, (ok, why) in bad if not ok]
            owner = cls.name if cls is not None else m.name
            path = [f"{st.m.rel}:{getattr(st.lock_site, 'lineno', 0)} {st.name} creates its lock per store object",
                    "workflows/runtime/types/step_function.py as_step_worker_function.wrapper -> Context._create_internal -> runtime.get_internal_adapter (per step invocation)",
                    f"adapter.get_state_store -> {owner}.{FACTORY} -> new {st.name}"]
            chk.ob("C20.R2", f"{owner}.{FACTORY} hands out one {st.name} (hence one lock) per run id", not fails, m=m, node=(fails[0][0] if fails else ctors[0]), fn=fn,
                   instance=f"{owner}.{FACTORY}->{st.name}", reason=(fails[0][1] + f"; {st.name}'s lock is created per object, so concurrent steps of one run "
                   "lock different locks and exclude nothing") if fails else "", path=path if fails else [])
    chk.floor("C20.R2", "create_state_store factories constructing an anchored store", n_fact, 2)

    # ---------------------------------------------------------------- observations: other stores, other construction sites
    for m in sorted(repo.by_rel.values(), key=lambda x: x.rel):
        for q, c in m.classes.items():
            if f"{m.name}:{q}" in {s.ref for s in stores}:
                continue
            names = {n.name for n in c.body if isinstance(n, FuncNode)}
            if not {"get_state", "set_state", "edit_state"} <= names:
                continue
            if any(isinstance(b, ast.Subscript) and dotted(b.value) == "Protocol" or dotted(b) == "Protocol" for b in c.bases):
                continue
            try:
                other = Store(repo, m.name, q)
                for name in ("set", "set_state", "clear", "edit_state"):
                    if name in other.methods:
                        ok, reason, _n, _p = other.verdict(name)
                        if ok:
                            ops, dele = other.accesses(other.methods[name])
                            if not ops and dele and _self_call(dele[0]) in other.methods and _self_call(dele[0]) != name:
                                ok, reason, _n, _p = other.verdict(_self_call(dele[0]))
                                reason = f"delegates to {_self_call(dele[0])}: {reason}" if not ok else ""
                        if not ok:
                            chk.observe(f"C20 (not gating, {m.rel}) {q}.{name}: {reason[:160]}")
                if other.lock_kind == "per-instance":
                    chk.observe(f"C20 (not gating, {m.rel}) {q}: lock is created per store object")
            except AnchorError as e:
                chk.observe(f"C20 (not gating, {m.rel}) {q}: not analysed ({e})")
    others = []
    for st in stores:
        for m in repo.by_rel.values():
            for c in calls(m.tree, shallow=False):
                if _constructs(repo, m, c, st):
                    fn = enclosing_function(c)
                    if fn is not None and fn.name != FACTORY and not (isinstance(parent(fn), ast.ClassDef) and parent(fn).name == st.name):
                        others.append(f"{m.rel}:{c.lineno} ({fn.name}) builds {st.name}")
    if others:
        chk.observe("C20.R2 construction sites outside create_state_store factories (not gating): " + "; ".join(sorted(others)))


# ----------------------------------------------------------------------------------------------- twins

_PM = "packages/llama-index-workflows/src/workflows/context/state_store.py"
_PS = "packages/llama-agents-server/src/llama_agents/server/_store/sqlite/sqlite_state_store.py"
_PF = "packages/llama-agents-server/src/llama_agents/server/_store/memory_workflow_store.py"

_SET_STATE_NOW = '        async with self._lock:\n            current_state = self._load_state()\n            merged = merge_state(current_state, state)\n            self._save_state(merged)  # type: ignore[arg-type]\n'
_SET_STATE_PRE_FIX = '        conn = self._connect()\n        try:\n            cursor = conn.cursor()\n            cursor.execute(\n                "SELECT state_json FROM workflow_state WHERE run_id = ?",\n                (self._run_id,),\n            )\n            row = cursor.fetchone()\n\n            if row is None:\n                self._save_state(state, conn)\n                conn.commit()\n                return\n\n            current_state = self._deserialize_state(row[0])\n            merged = merge_state(current_state, state)\n            self._save_state(merged, conn)  # type: ignore[arg-type]\n            conn.commit()\n        finally:\n            self._release(conn)\n'
_LOCK_NOW = "        key = (self._db_path, self._run_id)\n        lock = _RUN_LOCKS.get(key)\n        if lock is None:\n            lock = _RUN_LOCKS[key] = asyncio.Lock()\n        return lock\n"

TWINS = [
    # ---- R1 breaking
    Twin("memory set without the lock", _PM, "        async with self._lock:\n            set_by_path(self._state, path, value)", "        set_by_path(self._state, path, value)", "C20.R1"),
    Twin("memory set_state without the lock", _PM, "        async with self._lock:\n            self._state = merge_state(self._state, state)",
         "        self._state = merge_state(self._state, state)", "C20.R1"),
    Twin("sqlite edit_state releases the lock across the yield", _PS,
         "        async with self._lock:\n            state = self._load_state()\n            yield state\n            self._save_state(state)",
         "        async with self._lock:\n            state = self._load_state()\n        yield state\n        async with self._lock:\n            self._save_state(state)", "C20.R1"),
    Twin("sqlite set composed of get_state + set_state", _PS, "        async with self.edit_state() as state:\n            set_by_path(state, path, value)",
         "        state = await self.get_state()\n        set_by_path(state, path, value)\n        await self.set_state(state)", "C20.R1"),
    Twin("memory edit_state under a fresh lock", _PM, "        async with self._lock:\n            state = self._state", "        async with asyncio.Lock():\n            state = self._state", "C20.R1"),
    Twin("memory edit_state reads before taking the lock", _PM, "        async with self._lock:\n            state = self._state\n\n            yield state",
         "        state = self._state\n        async with self._lock:\n            yield state", "C20.R1"),
    # ---- R1 benign
    Twin("benign: memory set_state lock through a local", _PM, "        async with self._lock:\n            self._state = merge_state(self._state, state)",
         "        lock = self._lock\n        async with lock:\n            self._state = merge_state(self._state, state)", None),
    Twin("benign: sqlite set inlines the edit under the lock", _PS, "        async with self.edit_state() as state:\n            set_by_path(state, path, value)",
         "        async with self._lock:\n            state = self._load_state()\n            set_by_path(state, path, value)\n            self._save_state(state)", None),
    Twin("benign: memory clear via type()", _PM, "        await self.set_state(create_cleared_state(self._state.__class__))",
         "        kind = type(self._state)\n        await self.set_state(create_cleared_state(kind))", None),
    Twin("pre-fix: sqlite set_state reads and writes outside the lock", _PS, _SET_STATE_NOW, _SET_STATE_PRE_FIX, "C20.R1"),
    Twin("sqlite set_state loads before taking the lock", _PS, "        async with self._lock:\n            current_state = self._load_state()\n            merged",
         "        current_state = self._load_state()\n        async with self._lock:\n            merged", "C20.R1"),
    Twin("benign: sqlite set_state body in a private helper under the lock", _PS, _SET_STATE_NOW,
         "        async with self._lock:\n            self._set_state_locked(state)\n\n    def _set_state_locked(self, state: MODEL_T) -> None:\n"
         "        current_state = self._load_state()\n        merged = merge_state(current_state, state)\n        self._save_state(merged)\n", None),
    # ---- R2 breaking
    Twin("memory factory loses its memo guard", _PF, "        if run_id not in self.state_stores:", "        if True:", "C20.R2"),
    Twin("memory factory returns a fresh wrapper around the shared state", _PF, "        return self.state_stores[run_id]",
         "        return InMemoryStateStore(self.state_stores[run_id]._state)", "C20.R2"),
    # ---- R2 benign
    Twin("benign: memory factory guard via get() is None", _PF, "        if run_id not in self.state_stores:", "        if self.state_stores.get(run_id) is None:", None),
    Twin("benign: memory factory guard via local", _PF, "        if run_id not in self.state_stores:", "        missing = run_id not in self.state_stores\n        if missing:", None),
    Twin("pre-fix: sqlite lock created per store object", _PS, _LOCK_NOW, "        return asyncio.Lock()\n", "C20.R2"),
    Twin("sqlite lock registry owned by the instance", _PS, _LOCK_NOW,
         "        if not hasattr(self, \"_locks\"):\n            self._locks = {}\n        return self._locks.setdefault((self._db_path, self._run_id), asyncio.Lock())\n", "C20.R2"),
    Twin("benign: sqlite lock registry through setdefault", _PS, _LOCK_NOW, "        return _RUN_LOCKS.setdefault((self._db_path, self._run_id), asyncio.Lock())\n", None),
    Twin("benign: sqlite lock registry on the class", _PS, _LOCK_NOW,
         "        return SqliteStateStore._LOCKS.setdefault((self._db_path, self._run_id), asyncio.Lock())\n\n    _LOCKS: dict = {}\n", None),
]
