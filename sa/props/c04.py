"""C04 — every run ends once, and its stream ends with the matching terminal event.

Decided: (R1) in every reducer, an exit command is preceded in the same command list by the
publication of the matching terminal event; (R2) the terminal event classes are StopEvent
subclasses and both stream consumers stop right after yielding the first StopEvent; (R3) the
runner executes commands in list order and leaves at the first exit command, whose branch cancels
the workers first and then returns/raises on every path; (R4) calls into *user-supplied* retry
policy objects inside the reducer are exception-contained and lead to the failure path; (R6) when a
worker returns a StopEvent the other workers are cancelled before its tick is reduced.
Not decided: background tasks already writing when the cancel lands; engine-internal errors
("should not happen" raises) leave the run without a terminal event — reported as an observation.
"""

from __future__ import annotations

import ast
import re

from ..astx import atoms, reach_assuming, call_name, calls_named, dotted, enclosing_stmt, expand, kwarg, last
from ..cfg import CFG, exprs_in_node
from ..index import AnchorError, enclosing_function, parent, qualname_of, walk_shallow
from ..selftest import Twin
from ._engine import CL, CL_REL, RUNNER, branch_for, command_constructions, list_position, param, published_event_class

EXPLANATION = __doc__.split("\n\n", 1)[1]
TECHNIQUE = 'static analysis: command-list position/dominance pairing of exit commands with terminal events, stream-consumer CFG, user-code containment (exception edges)'
TRUSTED = ["CPython ast", "asyncio.Queue FIFO order of the publish queue"]

EXIT = ("CommandCompleteRun", "CommandFailWorkflow", "CommandHalt")
HALT_EVENT = {"WorkflowTimeoutError": "WorkflowTimedOutEvent", "WorkflowCancelledByUser": "WorkflowCancelledEvent"}
EVENTS = "workflows.events"


def _enclosing_iter(node: ast.AST) -> ast.AST:
    from ..index import ancestors
    for a in ancestors(node):
        if isinstance(a, (ast.For, ast.AsyncFor)):
            return a.iter
    return ast.Constant(value=None)


def _outermost_scan(i: ast.If) -> ast.AST:
    """the statement that scans the result: the If itself, or the For over tick_result.result that contains it"""
    from ..index import ancestors
    for a in ancestors(i):
        if isinstance(a, (ast.For, ast.AsyncFor)) and "tick_result" in ast.unparse(a.iter):
            return a
        if isinstance(a, (ast.FunctionDef, ast.AsyncFunctionDef)):
            break
    return i


def _publishes_before(fn: ast.AST, cfg: CFG, exit_call: ast.Call):
    """The CommandPublishEvent constructions that precede `exit_call` in its command list on every path."""
    pos = list_position(exit_call)
    if pos is None:
        return None, []
    kind, carrier = pos
    if kind == "literal":
        idx = next(i for i, e in enumerate(carrier.elts) if e is exit_call)
        return kind, [e for e in carrier.elts[:idx] if isinstance(e, ast.Call) and last(call_name(e)) == "CommandPublishEvent"]
    if kind == "append":
        lst = ast.unparse(carrier.func.value)
        target_nodes = cfg.nodes_of(enclosing_stmt(exit_call))
        out = []
        for c in command_constructions(fn, "CommandPublishEvent"):
            p = list_position(c)
            if p is None or p[0] != "append" or ast.unparse(p[1].func.value) != lst:
                continue
            cn = cfg.nodes_of(enclosing_stmt(c))
            # c dominates the exit command: the exit is unreachable when c's statement is removed
            if cn and target_nodes and all(t not in cfg.reach([cfg.entry], blocked=cn) for t in target_nodes):
                out.append(c)
        return kind, out
    return kind, []


def run(chk) -> None:
    repo = chk.repo
    from ._engine import engine_view
    chk.extra["helpers_inlined"] = engine_view(repo)
    m = repo.module(CL)

    # ---------------------------------------------------------------- R1 terminal pairing
    exits = []
    for q, fn in m.functions.items():
        if q.startswith("_ControlLoopRunner") or q in ("replay_ticks_stream",):
            continue
        for c in command_constructions(fn, *EXIT):
            if enclosing_function(c) is fn:
                exits.append((fn, c))
    chk.floor("C04.R1", "exit-command constructions in reducers", len(exits), 5)
    for fn, c in exits:
        cls = last(call_name(c))
        cfg = CFG(fn)
        kind, pubs = _publishes_before(fn, cfg, c)
        if kind is None:
            raise AnchorError(f"C04.R1: cannot see how `{cls}` enters a command list in {qualname_of(fn)} (line {c.lineno})")
        ok, reason, inst = False, "", cls
        if cls == "CommandCompleteRun":
            res = kwarg(c, "result", 0)
            if isinstance(res, ast.Call) and last(call_name(res)) == "IdleReleasedEvent":
                # listed exception: an idle release is not the end of the run (handled by C26)
                chk.ob("C04.R1", "CommandCompleteRun(IdleReleasedEvent()) is the idle-release hand-off, not a run outcome (exception with reason)", True, m=m, node=c, fn=fn, instance="complete:idle-release")
                continue
            want = ast.unparse(res) if res is not None else None
            ok = any(kwarg(p, "event", 0) is not None and ast.unparse(kwarg(p, "event", 0)) == want for p in pubs)
            reason = f"no CommandPublishEvent(event={want}) precedes the completion on every path"
            inst = "complete:stop-event"
        elif cls == "CommandFailWorkflow":
            exc = kwarg(c, "exception")
            cand = [p for p in pubs if published_event_class(p) == "WorkflowFailedEvent"]
            ok = bool(cand)
            reason = "no CommandPublishEvent(WorkflowFailedEvent) precedes CommandFailWorkflow on every path"
            if ok and exc is not None:
                same = any(kwarg(kwarg(p, "event", 0), "exception") is not None and ast.unparse(kwarg(kwarg(p, "event", 0), "exception")) == ast.unparse(exc) for p in cand)
                chk.ob("C04.R1", "WorkflowFailedEvent and CommandFailWorkflow carry the same exception", same, m=m, node=c, fn=fn, instance="fail:same-exception",
                       reason="the event and the raised exception differ")
            inst = "fail:failed-event"
        elif cls == "CommandHalt":
            exc = kwarg(c, "exception", 0)
            ecls = last(call_name(exc)) if isinstance(exc, ast.Call) else None
            want = HALT_EVENT.get(ecls or "")
            if want is None:
                chk.ob("C04.R1", "CommandHalt carries WorkflowTimeoutError or WorkflowCancelledByUser", False, m=m, node=c, fn=fn, instance=f"halt:{ecls}",
                       reason=f"halt with `{ast.unparse(exc) if exc is not None else None}` has no terminal event class")
                continue
            ok = any(published_event_class(p) == want for p in pubs)
            reason = f"no CommandPublishEvent({want}) precedes the halt"
            inst = f"halt:{ecls}"
        chk.ob("C04.R1", f"{cls} is preceded in its command list by the matching terminal event", ok, m=m, node=c, fn=fn, instance=inst, reason=reason)
        # exactly one terminal publication before the exit in a literal list / no StopEvent-class publication after it
        if kind == "literal":
            carrier = list_position(c)[1]
            idx = next(i for i, e in enumerate(carrier.elts) if e is c)
            after = [e for e in carrier.elts[idx + 1:] if isinstance(e, ast.Call) and last(call_name(e)) == "CommandPublishEvent"]
            chk.ob("C04.R3", "nothing is published after the exit command in the same list", not after, m=m, node=c, fn=fn, instance=f"{inst}:last", reason="a publication follows the exit command")

    # ---------------------------------------------------------------- R2 terminal classes and stream consumers
    me = repo.module(EVENTS)
    for cls in ("WorkflowFailedEvent", "WorkflowCancelledEvent", "WorkflowTimedOutEvent"):
        ref = f"{EVENTS}:{cls}"
        repo.cls(ref)
        ok = f"{EVENTS}:StopEvent" in repo.mro_names(ref)
        chk.ob("C04.R2", f"{cls} is a StopEvent (stream consumers stop on it)", ok, m=me, node=me.classes[cls], instance=f"terminal-class:{cls}", reason="not a StopEvent subclass")
    consumers = [
        ("workflows.plugins.basic:ExternalAsyncioAdapter.stream_published_events", "adapter"),
        ("workflows.handler:WorkflowHandler.stream_events", "handler"),
    ]
    for ref, label in consumers:
        mc, fc = repo.func(ref)
        cfg = CFG(fc)
        ys = [n for n in cfg.nodes if n.ast is not None and n.tag == "" and any(isinstance(x, ast.Yield) for x in exprs_in_node(n))]
        chk.floor("C04.R2", f"yield sites in {label} stream consumer", len(ys), 1)
        for y in ys:
            yv = next(x for x in exprs_in_node(y) if isinstance(x, ast.Yield)).value
            name = ast.unparse(yv) if yv is not None else ""
            stop_tests = [n for n in cfg.nodes if n.kind == "test" and " ".join(ast.unparse(n.ast.test).split()) == f"isinstance({name}, StopEvent)"]
            # knowing that the item just yielded is a StopEvent, no path leads to another yield (the test may be direct, or
            # stored in a flag that the loop condition reads)
            again = reach_assuming(cfg, y, {f"isinstance({name}, StopEvent)": True})
            mentions = any(f"isinstance({name}, StopEvent)" in " ".join(ast.unparse(x).split()) for x in ast.walk(fc))
            ok = mentions and y not in again and not any(z in again for z in ys)
            chk.ob("C04.R2", f"the {label} stream stops right after yielding the first StopEvent", ok, m=mc, node=y.ast, fn=fc, instance=f"consumer:{label}:stops",
                   reason="another item can be yielded after a StopEvent was yielded (no `isinstance(item, StopEvent)` exit between two yields)")
            # and the StopEvent itself is yielded (test happens after the yield, not before)
            from ..index import ancestors
            loop = next((a for a in ancestors(y.ast) if isinstance(a, (ast.For, ast.AsyncFor, ast.While))), None)
            heads = cfg.nodes_of(loop) if loop is not None else [cfg.entry]
            r = cfg.reach(heads, blocked=[y], labels_excluded=("exc", "cancel"))
            before = [t for t in stop_tests if t in r]
            chk.ob("C04.R2", f"the {label} stream yields the terminal event itself before stopping", not before, m=mc, node=y.ast, fn=fc, instance=f"consumer:{label}:yields-terminal",
                   reason="the StopEvent test can be reached in an iteration before the yield: the terminal event would be swallowed")

    # ---------------------------------------------------------------- R3 runner: in order, leave at first exit, cancel workers first
    mr, pt = repo.func(f"{RUNNER}._process_tick")
    cfgt = CFG(pt)
    loops = [n for n in walk_shallow(pt) if isinstance(n, ast.For) and ast.unparse(n.iter) == "commands"]
    chk.floor("C04.R3", "command execution loops in _process_tick", len(loops), 1)
    for lp in loops:
        pcs = [n for n in cfgt.nodes if n.ast is not None and any(isinstance(x, ast.Call) and (call_name(x) or "").endswith("process_command") for x in exprs_in_node(n)) and any(x is n.ast for x in ast.walk(lp))]
        heads = cfgt.nodes_of(lp)
        for n in pcs:
            tgt = n.ast.targets[0].id if isinstance(n.ast, ast.Assign) and isinstance(n.ast.targets[0], ast.Name) else None
            # tests of "the command produced a result": `<x> is not None` where x is (a copy of) the value returned by process_command
            def is_result_name(e: ast.AST, at: ast.AST) -> bool:
                x = expand(e, at, depth=3)
                return tgt is not None and isinstance(x, ast.Name) and x.id == tgt

            # tests of "the command produced a result": a test whose only atom is `<x> is None` (either polarity, either spelling),
            # x (a copy of) the value returned by process_command; `none_edge` = the branch taken when there is no result
            tests: list[tuple] = []
            for t in cfgt.nodes:
                if t.kind != "test":
                    continue
                tt = t.ast.test
                core = tt.operand if isinstance(tt, ast.UnaryOp) and isinstance(tt.op, ast.Not) else tt
                if isinstance(core, ast.Compare) and len(core.ops) == 1 and isinstance(core.ops[0], (ast.Is, ast.IsNot)) and isinstance(core.comparators[0], ast.Constant) and core.comparators[0].value is None \
                        and is_result_name(core.left, t.ast):
                    at = atoms(tt, True)
                    if len(at) == 1:
                        tests.append((t, "T" if at[0][1] else "F"))
            # from the command execution, the next iteration is reachable only through the no-result edge of such a test
            nxt = cfgt.reach([n], blocked_edges=[(t, lab) for t, lab in tests], labels_excluded=("exc", "cancel"), include_starts=False)
            ok = bool(tests) and not any(h in nxt for h in heads)
            chk.ob("C04.R3", "the runner stops executing commands at the first one that yields a result", ok, m=mr, node=n.ast, fn=pt, instance="process-tick:first-exit",
                   reason="the loop can continue after process_command returned a StopEvent")
            rets = []
            for t, none_lab in tests:
                for lab, s_ in cfgt.succ[t]:
                    if lab in ("T", "F") and lab != none_lab:
                        # on the result side, a `return <result>` is reached before the loop head
                        side = cfgt.reach([s_], blocked=heads, labels_excluded=("exc", "cancel"))
                        rets += [r_ for r_ in side if isinstance(r_.ast, ast.Return) and r_.ast.value is not None and is_result_name(r_.ast.value, r_.ast)]
            chk.ob("C04.R3", "that result is returned to run()", bool(rets), m=mr, node=n.ast, fn=pt, instance="process-tick:returns-result", reason="no `return result` on the non-None branch")
    _, pc = repo.func(f"{RUNNER}.process_command")
    cmd = param(pc, 1)
    cfgp = CFG(pc)
    for cls in EXIT:
        br = branch_for(pc, cmd, cls)
        first = cfgp.nodes_of(br.body[0])
        body_nodes = [n for n in cfgp.nodes if n.ast is not None and any(n.ast is x for s in br.body for x in ast.walk(s))]
        cleanup = [n for n in body_nodes if any(isinstance(x, ast.Await) and isinstance(x.value, ast.Call) and (call_name(x.value) or "").endswith("cleanup_tasks") for x in exprs_in_node(n))]
        leaves = [n for n in body_nodes if isinstance(n.ast, (ast.Return, ast.Raise))]
        bad = cfgp.must_pass(first, leaves, cleanup, labels_excluded=("exc", "cancel"))
        chk.ob("C04.R3", f"{cls}: worker tasks are cancelled (cleanup_tasks) before the run leaves", not bad and bool(cleanup), m=mr, node=br, fn=pc, instance=f"exit-branch:{cls}:cleanup",
               reason="the branch can return/raise without awaiting cleanup_tasks")
        if cls == "CommandCompleteRun":
            rets = [n for n in leaves if isinstance(n.ast, ast.Return)]
            ok = bool(rets) and all(n.ast.value is not None and ast.unparse(n.ast.value) == f"{cmd}.result" for n in rets)
            normal_out = [n for n in body_nodes if any(lab not in ("exc", "cancel") and (s not in body_nodes and not isinstance(n.ast, (ast.Return, ast.Raise))) for lab, s in cfgp.succ[n])]
            chk.ob("C04.R3", "CommandCompleteRun returns the command's StopEvent on every path", ok and not normal_out, m=mr, node=br, fn=pc, instance="exit-branch:complete:returns",
                   reason="a path through the branch does not return command.result")
        if cls == "CommandFailWorkflow":
            normal_out = [n for n in body_nodes if not isinstance(n.ast, ast.Raise) and any(lab not in ("exc", "cancel") and s not in body_nodes for lab, s in cfgp.succ[n])]
            chk.ob("C04.R3", "CommandFailWorkflow raises on every path", not normal_out and any(isinstance(n.ast, ast.Raise) for n in leaves), m=mr, node=br, fn=pc, instance="exit-branch:fail:raises",
                   reason="the branch can fall through without raising")
        if cls == "CommandHalt":
            raises = [n for n in leaves if isinstance(n.ast, ast.Raise) and n.ast.exc is not None and ast.unparse(n.ast.exc) == f"{cmd}.exception"]
            chk.ob("C04.R3", "CommandHalt raises the carried exception", bool(raises), m=mr, node=br, fn=pc, instance="exit-branch:halt:raises", reason="no `raise command.exception`")

    # ---------------------------------------------------------------- R4 user code inside the reducer
    ms, sr = repo.func(f"{CL}:_process_step_result_tick")
    cfgs = CFG(sr)
    policy_names = set()
    for s in walk_shallow(sr):
        if isinstance(s, ast.Assign) and len(s.targets) == 1 and isinstance(s.targets[0], ast.Name) and ast.unparse(s.value).endswith(".retry_policy"):
            policy_names.add(s.targets[0].id)
    user_calls = []
    for c in ast.walk(sr):
        if isinstance(c, ast.Call):
            ftxt = ast.unparse(c.func)
            atxts = [ast.unparse(a) for a in c.args] + [ast.unparse(k.value) for k in c.keywords]
            # a method of the policy is called, or the policy object (or one of its attributes) is handed to other code, which
            # may call it, hash it or inspect it (isinstance/type/id run no user code)
            handed = any(t.split(".")[0].split("(")[0] in policy_names for t in atxts) and ftxt not in ("isinstance", "type", "id")
            if (ftxt.split(".")[0] in policy_names and "." in ftxt) or ".retry_policy." in ftxt or handed:
                user_calls.append(c)
    chk.floor("C04.R4", "calls into the user-supplied retry policy inside the reducer", len(user_calls), 1)
    for c in user_calls:
        contained = False
        for n in cfgs.node_of_containing(c):
            hs = [s for lab, s in cfgs.succ[n] if lab == "exc" and s.kind == "handler"]
            for h in hs:
                t = h.ast.type
                names = [] if t is None else [ast.unparse(e).split(".")[-1] for e in (t.elts if isinstance(t, ast.Tuple) else [t])]
                if t is None or "Exception" in names or "BaseException" in names:
                    # the handler must not simply re-raise
                    if not (len(h.ast.body) == 1 and isinstance(h.ast.body[0], ast.Raise)):
                        contained = True
        what = ast.unparse(c.func)
        chk.ob("C04.R4", f"user retry-policy code `{what}(…)` inside the reducer is exception-contained (converted into the failure path)", contained, m=ms, node=c, fn=sr,
               instance=f"user-code:{what}",
               reason="an exception from user policy code escapes the reducer: no terminal event is published, stream consumers never terminate, the server handler stays `running`")

    # ---------------------------------------------------------------- R6 StopEvent result cancels other workers before reduction
    _, rn = repo.func(f"{RUNNER}.run")
    cfgr = CFG(rn)
    # the worker result tick, by role: the local bound to `<task>.result()` on the paths where <task> was taken out of
    # `self.worker_tasks` (the pull task's result is bound by the same call on the other branch)
    result_names = set()
    for a_ in ast.walk(rn):
        if isinstance(a_, ast.Assign) and isinstance(a_.value, ast.Call) and isinstance(a_.value.func, ast.Attribute) and a_.value.func.attr == "result" and not a_.value.args:
            recv = ast.unparse(a_.value.func.value)
            taken = [x_ for x_ in cfgr.nodes if x_.ast is not None and any(isinstance(y_, ast.Call) and (call_name(y_) or "") in ("self.worker_tasks.discard", "self.worker_tasks.remove")
                                                                           and y_.args and ast.unparse(y_.args[0]) == recv for y_ in exprs_in_node(x_))]
            an = cfgr.nodes_of(a_)
            if taken and an and all(x_ not in cfgr.reach([cfgr.entry], blocked=taken) for x_ in an):
                result_names |= {t_.id for t_ in a_.targets if isinstance(t_, ast.Name)}
    if not result_names:
        raise AnchorError("C04.R6: no local bound to `<task>.result()` in _ControlLoopRunner.run")
    appends = [n for n in cfgr.nodes if n.ast is not None and any(isinstance(x, ast.Call) and (call_name(x) or "") == "self.tick_buffer.append" and x.args and ast.unparse(x.args[0]) in result_names for x in exprs_in_node(n))]
    chk.floor("C04.R6", "sites buffering a worker result tick", len(appends), 1)
    for n in appends:
        # a test that recognises "this worker result carries a StopEvent" (directly, or through a boolean helper given the
        # result tick) whose true side awaits cleanup_tasks before the append, and which every path to the append passes
        from ..inline import implied_facts
        from ..index import enclosing_class as _ecls
        good = False
        cleanup_nodes = [x_ for x_ in cfgr.nodes if x_.ast is not None and any(isinstance(y_, ast.Await) and (call_name(y_.value) or "").endswith("cleanup_tasks") for y_ in exprs_in_node(x_))]
        for t in cfgr.nodes:
            if t.kind != "test" or not isinstance(t.ast, ast.If):
                continue
            i = t.ast
            _txt = ast.unparse(expand(i.test, i, depth=2)) + ast.unparse(_enclosing_iter(i))
            direct = "StopEvent" in ast.unparse(i.test) and any(re.search(rf"\b{re.escape(r_)}\b", _txt) for r_ in result_names)
            via_helper = False
            for c_ in ast.walk(i.test):
                if isinstance(c_, ast.Call) and any(isinstance(a_, ast.Name) and a_.id in result_names for a_ in c_.args):
                    imp = implied_facts(mr, c_, True, _ecls(rn), 2)
                    via_helper = via_helper or any("StopEvent" in a_ and pol_ for a_, pol_ in imp)
            if not (direct or via_helper):
                continue
            tsucc = [s_ for lab_, s_ in cfgr.succ[t] if lab_ == "T"]
            cleaned = bool(tsucc) and n not in cfgr.reach(tsucc, blocked=cleanup_nodes, labels_excluded=("exc", "cancel"))
            outer = _outermost_scan(i)
            on = cfgr.nodes_of(outer)
            dom = bool(on) and n not in cfgr.reach([cfgr.entry], blocked=on)
            good = good or (cleaned and dom)
        chk.ob("C04.R6", "a worker result containing a StopEvent cancels the other workers before its tick is buffered", good, m=mr, node=n.ast, fn=rn, instance="stop-result:cleanup-first",
               reason="other workers may still publish after the StopEvent")

    chk.observe("engine-internal errors (reducer `raise ValueError` for unknown tick/result/worker) leave run() with an exception and no terminal event; they are not among the statement's outcomes and are not gated")


_P = CL_REL
_B = "packages/llama-index-workflows/src/workflows/plugins/basic.py"
_H = "packages/llama-index-workflows/src/workflows/handler.py"
TWINS = [
    Twin("policy inspected outside the guard", _P, "            if retries is not None:\n                try:\n                    _next_params = inspect.signature(retries.next).parameters\n", "            if retries is not None:\n                _next_params = inspect.signature(retries.next).parameters\n                try:\n", "C04.R4"),
    Twin("policy handed to a helper outside the guard", _P, "            if retries is not None:\n                try:\n", "            if retries is not None:\n                _known = hash(retries)\n                try:\n", "C04.R4"),
    Twin("benign: adapter stream stops through a flag read by the loop", _B, "            while True:\n                item = await self._queues.publish_queue.get()\n                yield item\n                if isinstance(item, StopEvent):\n                    break", "            reached_stop = False\n            while not reached_stop:\n                item = await self._queues.publish_queue.get()\n                yield item\n                reached_stop = isinstance(item, StopEvent)", None),
    Twin("adapter stream flag is computed but the loop ignores it", _B, "            while True:\n                item = await self._queues.publish_queue.get()\n                yield item\n                if isinstance(item, StopEvent):\n                    break", "            reached_stop = False\n            while True:\n                item = await self._queues.publish_queue.get()\n                yield item\n                reached_stop = isinstance(item, StopEvent)", "C04.R2"),
    Twin("benign: stop scan through a predicate", _P, "                        for res in tick_result.result:\n                            if isinstance(res, StepWorkerResult) and isinstance(\n                                res.result, StopEvent\n                            ):\n                                await self.cleanup_tasks()\n                                break\n", "                        if any(isinstance(res, StepWorkerResult) and isinstance(res.result, StopEvent) for res in tick_result.result):\n                            await self.cleanup_tasks()\n", None),
    Twin("stop event not published", _P, "                commands.append(\n                    CommandPublishEvent(event=result.result)\n                )  # stop event always published to the stream\n", "", "C04.R1"),
    Twin("failed event dropped", _P, "                    commands.append(\n                        CommandPublishEvent(\n                            event=WorkflowFailedEvent(", "                    (\n                        CommandPublishEvent(\n                            event=WorkflowFailedEvent(", "C04.R1"),
    Twin("cancel publishes after halt", _P, "        CommandPublishEvent(event=WorkflowCancelledEvent()),\n        CommandHalt(exception=WorkflowCancelledByUser()),", "        CommandHalt(exception=WorkflowCancelledByUser()),\n        CommandPublishEvent(event=WorkflowCancelledEvent()),", "C04.R1"),
    Twin("timeout publishes cancelled", _P, "            event=WorkflowTimedOutEvent(\n                timeout=tick.timeout,\n                active_steps=active_steps,\n            )", "            event=WorkflowCancelledEvent()", "C04.R1"),
    Twin("failed event only conditionally", _P, "                    state.is_running = False\n                    commands.append(\n                        CommandPublishEvent(\n                            event=WorkflowFailedEvent(",
         "                    state.is_running = False\n                    if handler is None: commands.append(\n                        CommandPublishEvent(\n                            event=WorkflowFailedEvent(", "C04.R1"),
    Twin("adapter stream keeps going", _B, "                if isinstance(item, StopEvent):\n                    break", "                if type(item) is StopEvent:\n                    break", "C04.R2"),
    Twin("handler swallows terminal", _H, "            yield ev\n\n            if isinstance(ev, StopEvent):\n                self._all_events_consumed = True\n                break", "            if isinstance(ev, StopEvent):\n                self._all_events_consumed = True\n                break\n            yield ev", "C04.R2"),
    Twin("complete without cleanup", _P, "        elif isinstance(command, CommandCompleteRun):\n            await self.cleanup_tasks()\n            return command.result", "        elif isinstance(command, CommandCompleteRun):\n            return command.result", "C04.R3"),
    Twin("loop continues after result", _P, "            if result is not None:\n                return result\n\n        await self.adapter.after_tick(tick)", "            if result is not None:\n                final = result\n\n        await self.adapter.after_tick(tick)", "C04.R3"),
    Twin("stop result does not cancel others", _P, "                                await self.cleanup_tasks()\n                                break\n                        self.tick_buffer.append(tick_result)", "                                break\n                        self.tick_buffer.append(tick_result)", "C04.R6"),
    Twin("benign: failed event in a local", _P, "                    commands.append(\n                        CommandPublishEvent(\n                            event=WorkflowFailedEvent(\n                                step_name=tick.step_name,\n                                exception=exception,\n                                attempts=total_attempts,\n                                elapsed_seconds=elapsed,\n                            )\n                        )\n                    )",
         "                    commands.append(\n                        CommandPublishEvent(\n                            event=WorkflowFailedEvent(\n                                exception=exception,\n                                step_name=tick.step_name,\n                                attempts=total_attempts,\n                                elapsed_seconds=elapsed,\n                            )\n                        )\n                    )", None),
    Twin("benign: cancel list built stepwise", _P, "    return state, [\n        CommandPublishEvent(event=WorkflowCancelledEvent()),\n        CommandHalt(exception=WorkflowCancelledByUser()),\n    ]",
         "    commands: list[WorkflowCommand] = []\n    commands.append(CommandPublishEvent(event=WorkflowCancelledEvent()))\n    commands.append(CommandHalt(exception=WorkflowCancelledByUser()))\n    return state, commands", None),
]
