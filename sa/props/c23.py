"""C23 — Workflow.validate accepts exactly the well-formed graphs; the HITL flag is right.

Decided:
  R1  one classification predicate: inside representation/validate.py a boundary event class (StartEvent, StopEvent,
      InputRequiredEvent, HumanResponseEvent, StepFailedEvent) is only ever used as the class argument of
      issubclass/isinstance (or in type positions).  An exact-class use (membership, identity, equality, lookup)
      contradicts the module's own convention: user workflows always use *subclasses* of these classes.
  R2  clause <-> check inventory: every clause of the statement has an enforcing function, `_validate_workflow` runs
      all of them on every normal path and raises on their findings, each graph check is gated by its own name
      (Literal members <-> gates, both directions; per-step skips are consulted inside the gate of the same name and
      actually subtracted), the skip set and the HITL flag flow unchanged from/to `Workflow.validate`.
  R3  bounded-exhaustive agreement: the AST of the small deciders (`_ensure_start_event_class`,
      `_ensure_stop_event_class`, `_validate_event_connectivity`, `validate_catch_error_handlers`) is interpreted
      (sa.absint, nothing imported) on every step set of a small universe and compared with the statement's clauses
      transcribed below as set predicates.
  R4  bounded-exhaustive agreement of the graph checks: `validate_graph` (with `build_step_graph` and its traversal) is
      interpreted on every small step graph under every workflow-level and per-step skip setting and must report an
      error exactly when, by least-fixpoint reachability computed in the checker, some unskipped step is unreachable
      from an input, some unskipped event-producing step cannot reach an output event, or a non-output event has no
      consumer.
Also (R2) every @catch_error handler — also one that owns no step — seeds the reachability pass: `_collect_catch_error_handlers` and the
`catch_error_steps=` argument of validate_graph are evaluated from their ASTs on four small step tables.
Not decided: resource validation, step-signature validation, graphs outside the enumerated bound.
"""

from __future__ import annotations

import ast
import itertools

from ..absint import Interp, Raised, Record, Unsupported
from ..astx import atoms, call_name, calls_named, dotted, enclosing_stmt, expand, kwarg, last, stmt_list_of
from ..cfg import CFG, Node, exprs_in_node
from ..index import repo_root, Module, _set_parents, AnchorError, FuncNode, ancestors, enclosing_function, parent, qualname_of, walk_shallow
from ..report import VERIF
from ..selftest import Twin

EXPLANATION = (
    "R1 (contradiction, T13): every value use of a boundary event class imported from workflows.events into "
    "representation/validate.py must be the class argument of issubclass/isinstance (directly, in a tuple, or through a "
    "constant tuple only used that way), a type annotation, a cast() type or a base class.  A comparison / membership / "
    "set-algebra / lookup use (`InputRequiredEvent in produced_events`, `x is StopEvent`, `{StopEvent} & s`, `d[StopEvent]`, "
    "`x.__name__ == 'StopEvent'`) tests the exact class while every workflow uses subclasses; such a use is a violation. Any "
    "other value use is an unrecognised idiom (exit 2).  "
    "R2 (inventory, T4): `_validate_workflow` calls `_ensure_start_event_class`, `_ensure_stop_event_class`, "
    "`_validate_event_connectivity`, the @catch_error validation and `validate_graph` on every normal path; findings of "
    "`validate_graph` / `validate_catch_error_handlers` dominate a raise; every member of WorkflowGraphCheck has a gate "
    "`'<m>' not in skip_checks` around the error of the same name and every gate/error name is a member; per-step skip names are "
    "members of StepGraphCheck, are read inside the gate of the same name and the resulting set is removed from the candidates; "
    "the skip set flows Workflow.__init__ -> self._skip_graph_checks -> _validate_workflow -> validate_graph unchanged; the value "
    "returned by `_validate_event_connectivity` is the value `Workflow.validate()` returns; `validate()` forces validation.  "
    "R3 (bounded exhaustive, T10): the four small deciders are interpreted on all step sets of the stated universe and must "
    "agree with the transcribed clauses (exactly one start / stop class; no step accepts a StopEvent; consumed\\produced and "
    "produced\\consumed contain only the documented boundary classes; flag == some produced class is an InputRequiredEvent "
    "or some consumed class is a HumanResponseEvent, by subclass; handler set consistent).  "
    "R4 (bounded exhaustive, T10): `validate_graph` is interpreted on all 2-step graphs and on start->stop plus two inner steps "
    "(one accepted, <=2 returned classes per step; boundary classes by subclass), under every workflow-level skip, every per-step "
    "skip and with/without a @catch_error handler step, and its verdict (errors or none) is compared with forward/backward "
    "least-fixpoint reachability computed by the checker from the statement (inputs: the start class, HumanResponseEvent "
    "subclasses, handler steps; outputs: StopEvent / InputRequiredEvent subclasses; only event-producing steps can be dead ends).  "
    "Not decided: resource validation, step-signature validation, graphs beyond the bound."
)
TRUSTED = ["CPython ast", "sa.absint interpreter (statement subset; unsupported constructs are exit 2)", "Python issubclass semantics modelled on a finite class table"]
TECHNIQUE = "AST use-classification + CFG dominance + bounded exhaustive AST interpretation"
LEVEL_NOTE = "R3 is exhaustive only inside the enumerated universe (<=2 steps quick, see evidence `r3_domain`)"

VAL = "workflows.representation.validate"
WF = "workflows.workflow"
DEC = "workflows.decorators"
EVENTS = "workflows.events"
NOEXC = ("exc", "cancel")
REQUIRED_BOUNDARY = ("StartEvent", "StopEvent", "InputRequiredEvent", "HumanResponseEvent")
LOOKUP_METHODS = {"__contains__", "intersection", "isdisjoint", "issubset", "issuperset", "difference", "symmetric_difference", "union",
                  "count", "index", "get", "discard", "remove", "pop", "__getitem__"}
SET_OPS = (ast.BitAnd, ast.Sub, ast.BitOr, ast.BitXor)


# ------------------------------------------------------------------------------------------- R1


def _boundary_names(m) -> set[str]:
    names = {local for local, target in m.imports.items() if target.startswith(EVENTS + ".") and target.rsplit(".", 1)[1] != "Event"}
    missing = [b for b in REQUIRED_BOUNDARY if b not in {m.imports[n].rsplit(".", 1)[1] for n in names}]
    if missing:
        raise AnchorError(f"C23.R1: boundary classes {missing} are not imported from {EVENTS} into {m.rel}")
    return names


def _annotation_ids(tree: ast.AST) -> set[int]:
    ids: set[int] = set()
    for n in ast.walk(tree):
        roots = []
        if isinstance(n, ast.arg) and n.annotation is not None:
            roots.append(n.annotation)
        if isinstance(n, FuncNode) and n.returns is not None:
            roots.append(n.returns)
        if isinstance(n, ast.AnnAssign):
            roots.append(n.annotation)
        for r in roots:
            ids |= {id(x) for x in ast.walk(r)}
    return ids


def _classify_use(name: ast.Name, ann: set[int], m, depth: int = 0) -> tuple[str, str]:
    """('subclass' | 'type' | 'exact' | 'unknown', description)."""
    if id(name) in ann:
        return "type", "annotation"
    cur: ast.AST = name
    p = parent(cur)
    # climb through tuples / sets / lists / starred
    container = None
    while isinstance(p, (ast.Tuple, ast.Set, ast.List, ast.Starred)):
        container = p
        cur, p = p, parent(p)
    if isinstance(p, ast.Call):
        cn = last(call_name(p))
        if cn in ("issubclass", "isinstance") and len(p.args) >= 2 and p.args[1] is cur and not isinstance(container, (ast.Set, ast.List)):
            return "subclass", cn
        if cn == "cast" and p.args and p.args[0] is cur:
            return "type", "cast"
        if cn in ("frozenset", "set", "tuple", "list") and cur in p.args:
            # a collection built from boundary classes: classify the use of the collection
            return _classify_container(p, ann, m, depth)
        if isinstance(p.func, ast.Attribute) and p.func.attr in LOOKUP_METHODS and cur in p.args:
            return "exact", f"argument of .{p.func.attr}()"
    if isinstance(p, ast.ClassDef) and cur in p.bases:
        return "type", "base class"
    if isinstance(p, ast.Subscript):
        if p.slice is cur and id(p) in ann:
            return "type", "annotation"
        if p.slice is cur:
            if isinstance(p.value, ast.Name) and p.value.id in ("type", "Type", "set", "list", "dict", "tuple", "Iterable", "Sequence"):
                return "type", "generic alias"
            return "exact", "subscript key"
    if isinstance(p, ast.Compare):
        ops = "/".join(type(o).__name__ for o in p.ops)
        return "exact", f"operand of comparison ({ops})"
    if isinstance(p, ast.BinOp) and isinstance(p.op, SET_OPS):
        return "exact", f"operand of set operation ({type(p.op).__name__})"
    if isinstance(p, ast.MatchValue) or isinstance(p, ast.MatchClass):
        return "exact" if isinstance(p, ast.MatchValue) else "subclass", "match pattern"
    if container is not None and isinstance(p, (ast.Assign, ast.AnnAssign)):
        return _classify_container(container, ann, m, depth, assign=p)
    if isinstance(p, ast.comprehension) and p.iter is cur:
        return "unknown", "iterated collection of boundary classes"
    return "unknown", f"{type(p).__name__}"


def _classify_container(node: ast.AST, ann: set[int], m, depth: int, assign: ast.AST | None = None) -> tuple[str, str]:
    """A tuple/set of boundary classes bound to a name: how is that name used?"""
    if depth > 2:
        return "unknown", "nested constant"
    p = assign if assign is not None else parent(node)
    if isinstance(p, ast.Compare):
        return "exact", "collection operand of comparison"
    if isinstance(p, ast.BinOp) and isinstance(p.op, SET_OPS):
        return "exact", "collection operand of set operation"
    if isinstance(p, ast.Call) and isinstance(p.func, ast.Attribute) and p.func.attr in LOOKUP_METHODS:
        return "exact", f"collection argument of .{p.func.attr}()"
    if isinstance(p, ast.Call) and last(call_name(p)) in ("issubclass", "isinstance") and len(p.args) >= 2 and p.args[1] is node:
        return "subclass", "tuple"
    if isinstance(p, (ast.Assign, ast.AnnAssign)):
        tgt = p.targets[0] if isinstance(p, ast.Assign) and len(p.targets) == 1 else getattr(p, "target", None)
        if not isinstance(tgt, ast.Name):
            return "unknown", "constant bound to a non-name"
        scope = enclosing_function(p) or m.tree
        kinds = []
        for u in ast.walk(scope):
            if isinstance(u, ast.Name) and u.id == tgt.id and isinstance(u.ctx, ast.Load):
                kinds.append(_classify_use(u, ann, m, depth + 1))
        if not kinds:
            return "type", "unused constant"
        bad = [k for k in kinds if k[0] in ("exact", "unknown")]
        if bad:
            return bad[0][0], f"constant `{tgt.id}` used as {bad[0][1]}"
        return "subclass", f"constant `{tgt.id}` only used as issubclass class argument"
    return "unknown", f"collection in {type(p).__name__}"


def _scan_uses(m) -> tuple[list[tuple], list[tuple], int]:
    """(exact-class uses, class-name comparisons, number of conventional issubclass uses) in one module."""
    boundary = _boundary_names(m)
    ann = _annotation_ids(m.tree)
    exact, conv_sites = [], []
    uses = [n for n in ast.walk(m.tree) if isinstance(n, ast.Name) and n.id in boundary and isinstance(n.ctx, ast.Load)]
    for n in sorted(uses, key=lambda x: (x.lineno, x.col_offset)):
        kind, how = _classify_use(n, ann, m)
        real = m.imports[n.id].rsplit(".", 1)[1]
        if kind == "type":
            continue
        if kind == "unknown":
            raise AnchorError(f"C23.R1: value use of boundary class `{real}` at {m.rel}:{n.lineno} in a context the rule does not understand ({how})")
        (conv_sites if kind == "subclass" else exact).append((n, real, how))
    reals = {m.imports[b].rsplit(".", 1)[1] for b in boundary}
    named = []
    for c in ast.walk(m.tree):
        if isinstance(c, ast.Compare):
            for side in [c.left] + list(c.comparators):
                if isinstance(side, ast.Constant) and isinstance(side.value, str) and side.value in reals:
                    named.append((c, side.value))
    return exact, named, conv_sites


def _r1(chk, m) -> None:
    exact, named, conv_sites = _scan_uses(m)
    seen_ok: set[tuple[str, str]] = set()
    for n, real, how in conv_sites:
        fn = enclosing_function(n)
        k = (qualname_of(fn) if fn is not None else "<module>", real)
        if k not in seen_ok:
            seen_ok.add(k)
            chk.ob("C23.R1", f"`{real}` is tested by subclass ({how})", True, m=m, node=n, fn=fn, instance=f"subclass:{real}")
    for n, real, how in exact:
        st = enclosing_stmt(n)
        chk.ob("C23.R1", f"`{real}` is compared by subclass like everywhere else in this module, not by exact class", False, m=m, node=n, fn=enclosing_function(n),
               instance=f"exact:{real}",
               reason=f"`{real}` is used as {how} in `{' '.join(ast.unparse(st).split())[:150]}`: true only for the base class itself, while workflows "
                      f"declare subclasses (the module tests `issubclass(…, {real})` elsewhere)")
    for c, name in named:
        chk.ob("C23.R1", f"`{name}` is compared by subclass, not by class name", False, m=m, node=c, fn=enclosing_function(c),
               instance=f"exact-name:{name}", reason=f"class name string compared in `{ast.unparse(c)[:100]}`")
    chk.floor("C23.R1", "issubclass/isinstance uses of boundary classes (the module's convention)", len(conv_sites), 6)
    # planted positives: the exact-class detectors must report every construct of the fixture (they match nothing else today but the HITL flag)
    fx = VERIF / "fixtures" / "c23" / "exact_uses.py"
    if not fx.is_file():
        raise AnchorError(f"C23.R1: fixture {fx} missing")
    src = fx.read_text(encoding="utf-8")
    tree = ast.parse(src)
    _set_parents(tree)
    fm = Module("fixture.c23.exact_uses", fx, "fixtures/c23/exact_uses.py", src, tree)
    for node in ast.walk(tree):
        if isinstance(node, ast.ImportFrom):
            for a in node.names:
                fm.imports[a.asname or a.name] = f"{node.module}.{a.name}"
    fexact, fnamed, fconv = _scan_uses(fm)
    got = {qualname_of(enclosing_function(n)) for n, _r, _h in fexact} | {qualname_of(enclosing_function(c)) for c, _n in fnamed}
    want = {"by_identity", "by_membership", "by_set_algebra", "by_lookup", "by_name"}
    if got != want or len(fconv) != 2:
        raise AnchorError(f"C23.R1: planted exact-class uses not reported as expected (reported {sorted(got)}, conventional {len(fconv)})")
    chk.floor("C23.R1", "planted exact-class uses reported in fixtures/c23/exact_uses.py", len(got), 5)


# ------------------------------------------------------------------------------------------- R2


def _literal_members(repo, name: str) -> list[str]:
    m = repo.module(DEC)
    for s in m.tree.body:
        if isinstance(s, (ast.Assign, ast.AnnAssign)):
            tgt = s.targets[0] if isinstance(s, ast.Assign) else s.target
            if isinstance(tgt, ast.Name) and tgt.id == name and isinstance(s.value, ast.Subscript) and last(dotted(s.value.value)) == "Literal":
                sl = s.value.slice
                elts = sl.elts if isinstance(sl, ast.Tuple) else [sl]
                vals = [e.value for e in elts if isinstance(e, ast.Constant) and isinstance(e.value, str)]
                if len(vals) != len(elts):
                    raise AnchorError(f"C23.R2: `{name}` is not a Literal of string constants")
                return vals
    raise AnchorError(f"C23.R2: `{name} = Literal[...]` not found in {m.rel}")


def _unconditional(call: ast.AST) -> bool:
    """The call is evaluated whenever its statement is (not under a conditional expression, a short-circuit operand,
    a comprehension body or a lambda)."""
    cur = call
    p = parent(cur)
    while p is not None and not isinstance(p, ast.stmt):
        if isinstance(p, ast.IfExp) and cur is not p.test:
            return False
        if isinstance(p, ast.BoolOp) and cur is not p.values[0]:
            return False
        if isinstance(p, ast.Lambda):
            return False
        if isinstance(p, (ast.ListComp, ast.SetComp, ast.DictComp, ast.GeneratorExp)) and not (p.generators and cur is p.generators[0] ):
            return False
        if isinstance(p, ast.comprehension) and not (cur is p.iter):
            return False
        cur, p = p, parent(p)
    return True


def _call_nodes(cfg: CFG, callee: str) -> list[Node]:
    return [n for n in cfg.nodes if n.ast is not None
            and any(isinstance(x, ast.Call) and last(call_name(x)) == callee and _unconditional(x) for x in exprs_in_node(n))]


def _assigned_name_of_call(fn: ast.AST, callee: str) -> tuple[ast.AST, str | None, ast.Call] | None:
    for s in walk_shallow(fn):
        if isinstance(s, (ast.Assign, ast.AnnAssign, ast.NamedExpr)) and s.value is not None:
            c = next((x for x in ast.walk(s.value) if isinstance(x, ast.Call) and last(call_name(x)) == callee), None)
            if c is None:
                continue
            tgt = s.targets[0] if isinstance(s, ast.Assign) else s.target
            return s, (tgt.id if isinstance(tgt, ast.Name) else None), c
    return None


def _findings_raise(chk, m, fn, callee: str, rule_inst: str, clause: str) -> None:
    """The list returned by ``callee`` is tested, and a non-empty list raises before any normal exit."""
    got = _assigned_name_of_call(fn, callee)
    if got is None or got[1] is None:
        raise AnchorError(f"C23.R2: result of `{callee}` is not bound to a name in {qualname_of(fn)} (unrecognised idiom)")
    stmt, var, _c = got
    cfg = CFG(fn)
    starts = cfg.nodes_of(stmt) or cfg.node_of_containing(stmt)
    # edges on which the findings are known to be empty
    empty_edges = []
    for t in [n for n in cfg.nodes if n.kind == "test"]:
        for lab in ("T", "F"):
            for variant in (t.ast.test, expand(t.ast.test, t.ast)):
                if (var, False) in atoms(variant, lab == "T"):
                    empty_edges.append((t, lab))
    r = cfg.reach(starts, blocked_edges=empty_edges, labels_excluded=NOEXC, include_starts=False)
    ok = cfg.exit not in r
    p = cfg.path(starts[0], cfg.exit, labels_excluded=NOEXC) if (not ok and starts) else []
    chk.ob("C23.R2", f"{clause}: a non-empty result of `{callee}` always ends in a raise", ok, m=m, node=stmt, fn=fn, instance=rule_inst,
           reason=f"a normal return is reachable without `{var}` being known empty", path=[f"{n.kind}@{n.line}" for n in p if n.ast is not None][:10])


def _resolve(expr: ast.AST, at: ast.AST, depth: int = 5) -> ast.AST:
    """expand() plus `self.attr` read-after-write in the same statement list."""
    e = expand(expr, at)
    if depth <= 0:
        return e
    if isinstance(e, ast.Attribute) and isinstance(e.value, ast.Name) and e.value.id == "self":
        st = enclosing_stmt(at)
        locn = stmt_list_of(st) if st is not None else None
        if locn is not None:
            lst, i = locn
            for prev in reversed(lst[:i]):
                if isinstance(prev, ast.Assign) and len(prev.targets) == 1 and ast.unparse(prev.targets[0]) == ast.unparse(e):
                    return _resolve(prev.value, prev, depth - 1)
                if isinstance(prev, ast.AnnAssign) and prev.value is not None and ast.unparse(prev.target) == ast.unparse(e):
                    return _resolve(prev.value, prev, depth - 1)
    return e


def _r2(chk, repo, m) -> None:
    mv, vw = repo.func(f"{VAL}:_validate_workflow")
    cfg = CFG(vw)
    # ---- (a) every enforcing function is called on every normal path
    catch_fn_name = None
    for q, f in m.functions.items():
        if "." in q or q == "validate_catch_error_handlers":
            continue
        if calls_named(f, "validate_catch_error_handlers"):
            catch_fn_name = q
    if catch_fn_name is None:
        raise AnchorError("C23.R2: no module-level function calls `validate_catch_error_handlers`")
    clauses = [
        ("_ensure_start_event_class", "exactly one StartEvent type"),
        ("_ensure_stop_event_class", "exactly one StopEvent type"),
        ("_validate_event_connectivity", "no StopEvent consumer; consumed/produced agreement; HITL flag"),
        (catch_fn_name, "@catch_error handlers consistent"),
        ("validate_graph", "reachability / terminal / dead-end checks"),
    ]
    for callee, clause in clauses:
        if callee not in m.functions:
            raise AnchorError(f"C23.R2: enforcing function `{callee}` not found in {m.rel}")
        nodes = _call_nodes(cfg, callee)
        if callee == catch_fn_name and not nodes:
            nodes = _call_nodes(cfg, "validate_catch_error_handlers")
        missed = cfg.must_pass([cfg.entry], [cfg.exit], nodes, labels_excluded=NOEXC) if nodes else [cfg.exit]
        p = cfg.path(cfg.entry, cfg.exit, blocked=nodes, labels_excluded=NOEXC) if missed else []
        chk.ob("C23.R2", f"clause `{clause}` is enforced: `_validate_workflow` calls `{callee}` on every path to a normal return", not missed,
               m=mv, node=(nodes[0].ast if nodes else vw), fn=vw, instance=f"calls:{callee}",
               reason="a workflow can be accepted without this check having run", path=[f"{n.kind}@{n.line}" for n in p if n.ast is not None][:10])
    chk.floor("C23.R2", "clause -> enforcing function bindings", len(clauses), 5)
    # ---- (b) findings raise
    _findings_raise(chk, mv, vw, "validate_graph", "raises:validate_graph", "graph checks")
    mc, cfn = repo.func(f"{VAL}:{catch_fn_name}")
    _findings_raise(chk, mc, cfn, "validate_catch_error_handlers", "raises:validate_catch_error_handlers", "@catch_error consistency")

    # ---- (c) gates <-> Literal members
    wf_members = _literal_members(repo, "WorkflowGraphCheck")
    step_members = _literal_members(repo, "StepGraphCheck")
    mg, vg = repo.func(f"{VAL}:validate_graph")
    gcfg = CFG(vg)
    gparams = [a.arg for a in vg.args.posonlyargs + vg.args.args + vg.args.kwonlyargs]
    error_sites = calls_named(vg, "GraphValidationError")
    chk.floor("C23.R2", "GraphValidationError constructions in validate_graph", len(error_sites), 3)
    gated: dict[str, list[ast.AST]] = {}
    skip_param = None
    for c in error_sites:
        name = kwarg(c, "check", 0)
        if not (isinstance(name, ast.Constant) and isinstance(name.value, str)):
            raise AnchorError(f"C23.R2: GraphValidationError(check=…) at line {c.lineno} is not a string constant")
        k = name.value
        ok_member = k in wf_members
        gate_ok = False
        gate_stmt = None
        for n in gcfg.node_of_containing(c):
            for t, lab in gcfg.guards(n):
                if t.kind != "test":
                    continue
                for text, pol in atoms(t.ast.test, lab == "T"):
                    e = ast.parse(text, mode="eval").body
                    if isinstance(e, ast.Compare) and isinstance(e.ops[0], ast.In) and isinstance(e.left, ast.Constant) and e.left.value == k \
                            and isinstance(e.comparators[0], ast.Name) and e.comparators[0].id in gparams and not pol:
                        gate_ok = True
                        gate_stmt = t.ast
                        skip_param = e.comparators[0].id
        chk.ob("C23.R2", f"graph error `{k}` is a member of WorkflowGraphCheck and is raised only under `'{k}' not in <skip set>`", ok_member and gate_ok,
               m=mg, node=c, fn=vg, instance=f"gate:{k}",
               reason=(f"`{k}` is not a member of WorkflowGraphCheck {wf_members}" if not ok_member else f"error `{k}` is not gated by its own name in the skip set"))
        if gate_ok:
            gated.setdefault(k, []).append(gate_stmt)
    for k in wf_members:
        chk.ob("C23.R2", f"WorkflowGraphCheck member `{k}` has a gated check in validate_graph", k in gated, m=mg, node=vg, fn=vg, instance=f"member:{k}",
               reason=f"no GraphValidationError(check='{k}') under a `'{k}' not in skip` gate: the name can be skipped but nothing is checked")
    # per-step skips
    step_tests = []
    for c in ast.walk(vg):
        if isinstance(c, ast.Compare) and len(c.ops) == 1 and isinstance(c.ops[0], (ast.In, ast.NotIn)) and isinstance(c.left, ast.Constant) \
                and isinstance(c.comparators[0], ast.Attribute) and c.comparators[0].attr == "skip_graph_checks":
            step_tests.append(c)
    chk.floor("C23.R2", "per-step skip tests (`'<name>' in cfg.skip_graph_checks`)", len(step_tests), 2)
    seen_step = set()
    for c in step_tests:
        k = c.left.value
        inside = [g for g in gated.get(k, []) if any(a is g for a in ancestors(c))]
        st = enclosing_stmt(c)
        used = False
        if isinstance(st, (ast.Assign, ast.AnnAssign)):
            tgt = st.targets[0] if isinstance(st, ast.Assign) else st.target
            if isinstance(tgt, ast.Name) and inside:
                for u in ast.walk(inside[0]):
                    if isinstance(u, ast.Name) and u.id == tgt.id and isinstance(u.ctx, ast.Load) and u.lineno > st.lineno:
                        pu = parent(u)
                        if isinstance(pu, ast.BinOp) and isinstance(pu.op, ast.Sub) and pu.right is u:
                            used = True
                        if isinstance(pu, ast.Compare) and isinstance(pu.ops[0], ast.NotIn) and pu.comparators[0] is u:
                            used = True
        else:
            # inline form: `... if "<k>" not in cfg.skip_graph_checks` filter of the candidate comprehension
            used = isinstance(c.ops[0], ast.NotIn) and any(isinstance(a, ast.comprehension) for a in ancestors(c))
        # whether the skipping steps are really taken out of the candidates (and out of nothing else) is decided semantically by
        # R4, which runs every per-step skip setting against the oracle; here: the inventory and the gate
        ok = k in step_members and bool(inside)
        seen_step.add(k)
        chk.ob("C23.R2", f"per-step skip `{k}` is a StepGraphCheck member and is read inside the `{k}` gate (its effect on the candidates: C23.R4)", ok,
               m=mg, node=c, fn=vg, instance=f"step-skip:{k}",
               reason=(f"`{k}` is not a member of StepGraphCheck {step_members}" if k not in step_members else
                       (f"the test sits outside the `{k}` gate (skipping `{k}` on a step would silence a different check)" if not inside else
                        "the set of skipping steps is computed but not removed from the candidates")))
    for k in step_members:
        chk.ob("C23.R2", f"StepGraphCheck member `{k}` is honoured by validate_graph", k in seen_step, m=mg, node=vg, fn=vg, instance=f"step-member:{k}",
               reason=f"a step may declare skip_graph_checks=['{k}'] but validate_graph never reads it")

    # ---- (d) skip set flows unchanged
    if skip_param is None:
        raise AnchorError("C23.R2: could not bind the skip-set parameter of validate_graph")
    vw_params = [a.arg for a in vw.args.posonlyargs + vw.args.args + vw.args.kwonlyargs]
    vg_call = next((x for x in walk_shallow(vw) if isinstance(x, ast.Call) and last(call_name(x)) == "validate_graph"), None)
    if vg_call is None:
        raise AnchorError("C23.R2: `_validate_workflow` no longer calls validate_graph")
    passed = kwarg(vg_call, skip_param, gparams.index(skip_param))
    passed_x = expand(passed, vg_call) if passed is not None else None
    ok = isinstance(passed_x, ast.Name) and passed_x.id in vw_params
    vw_skip = passed_x.id if ok else None
    chk.ob("C23.R2", "the caller's skip set reaches validate_graph unchanged", ok, m=mv, node=vg_call, fn=vw, instance="skip-flow:validate_graph",
           reason=f"validate_graph receives `{ast.unparse(passed) if passed is not None else 'nothing'}` as its skip set, not the parameter of _validate_workflow")
    # ---- (d') every @catch_error handler is an entry point of the reachability pass, also one that currently owns no step (a
    # wildcard shadowed by scoped handlers, `for_steps=[]`): decided by evaluating `_collect_catch_error_handlers` and the
    # `catch_error_steps=` argument from their ASTs on four small step tables
    _catch_error_seed_rule(chk, repo, mv, vw, vg_call)
    mw, wv = repo.func(f"{WF}:Workflow._validate")
    wcfg = CFG(wv)
    vw_call = next((x for x in walk_shallow(wv) if isinstance(x, ast.Call) and last(call_name(x)) == "_validate_workflow"), None)
    if vw_call is None:
        raise AnchorError("C23.R2: `Workflow._validate` no longer calls _validate_workflow")
    attr_ok = False
    skip_attr = None
    if vw_skip is not None:
        arg = kwarg(vw_call, vw_skip, vw_params.index(vw_skip))
        if isinstance(arg, ast.Attribute) and isinstance(arg.value, ast.Name) and arg.value.id == "self":
            skip_attr = arg.attr
            attr_ok = True
        chk.ob("C23.R2", "Workflow._validate hands the instance's skip set to _validate_workflow", attr_ok, m=mw, node=vw_call, fn=wv,
               instance="skip-flow:_validate_workflow", reason=f"`{ast.unparse(arg) if arg is not None else 'nothing'}` is passed as the skip set")
    if skip_attr is not None:
        mi, init = repo.func(f"{WF}:Workflow.__init__")
        iparams = [a.arg for a in init.args.args + init.args.kwonlyargs]
        writes = [s for s in ast.walk(mi.tree) if isinstance(s, (ast.Assign, ast.AnnAssign)) for t in ([s.target] if isinstance(s, ast.AnnAssign) else s.targets)
                  if isinstance(t, ast.Attribute) and t.attr == skip_attr]
        chk.floor("C23.R2", f"writers of Workflow.{skip_attr}", len(writes), 1)
        for s in writes:
            f = enclosing_function(s)
            val = expand(s.value, s) if s.value is not None else None
            srcs = {x.id for x in ast.walk(val) if isinstance(x, ast.Name)} if val is not None else set()
            okw = f is init and bool(srcs & set(iparams)) and (isinstance(val, ast.Name) or (isinstance(val, ast.BoolOp) and isinstance(val.op, ast.Or) and isinstance(val.values[0], ast.Name)))
            chk.ob("C23.R2", f"`self.{skip_attr}` is the constructor's skip_graph_checks argument (or empty)", okw, m=mi, node=s, fn=f, instance=f"skip-flow:{skip_attr}",
                   reason=f"`self.{skip_attr}` is assigned `{ast.unparse(s.value)[:60] if s.value is not None else ''}` in {qualname_of(f) if f else '<module>'}")

    # ---- (e) HITL flag flows from the connectivity check to validate()
    rets = [n for n in cfg.nodes if n.kind == "stmt" and isinstance(n.ast, ast.Return)]
    chk.floor("C23.R2", "return statements of _validate_workflow", len(rets), 1)
    flag_kw = None
    for r in rets:
        v = expand(r.ast.value, r.ast) if r.ast.value is not None else None
        found = None
        if isinstance(v, ast.Call):
            for k in v.keywords:
                kv = expand(k.value, r.ast)
                if isinstance(kv, ast.Call) and last(call_name(kv)) == "_validate_event_connectivity":
                    found = k.arg
        chk.ob("C23.R2", "the result of _validate_workflow carries the value returned by _validate_event_connectivity (HITL flag)", found is not None,
               m=mv, node=r.ast, fn=vw, instance="hitl-flow:_validate_workflow", reason="no field of the returned record is the connectivity check's return value")
        flag_kw = flag_kw or found
    if flag_kw is not None:
        after = wcfg.reach([n for n in _call_nodes(wcfg, "_validate_workflow")], include_starts=False, labels_excluded=NOEXC)
        wrets = [n for n in wcfg.nodes if n.kind == "stmt" and isinstance(n.ast, ast.Return) and n in after]
        chk.floor("C23.R2", "returns of Workflow._validate after validation ran", len(wrets), 1)
        for r in wrets:
            v = _resolve(r.ast.value, r.ast) if r.ast.value is not None else None
            ok = isinstance(v, ast.Attribute) and v.attr == flag_kw and isinstance(expand(v.value, r.ast), ast.Call) and last(call_name(expand(v.value, r.ast))) == "_validate_workflow"
            chk.ob("C23.R2", f"Workflow._validate returns `<result>.{flag_kw}` of this validation run", ok, m=mw, node=r.ast, fn=wv, instance="hitl-flow:_validate",
                   reason=f"returns `{ast.unparse(v)[:60] if v is not None else 'None'}`")
    # validate() forces validation, and a forced validation always reaches _validate_workflow
    mval, val_fn = repo.func(f"{WF}:Workflow.validate")
    vret = [s for s in walk_shallow(val_fn) if isinstance(s, ast.Return)]
    okf = False
    for s in vret:
        c = s.value
        if isinstance(c, ast.Call) and last(call_name(c)) == "_validate":
            f = kwarg(c, "force")
            okf = isinstance(f, ast.Constant) and f.value is True
    chk.ob("C23.R2", "Workflow.validate() returns self._validate(force=True)", okf, m=mval, node=val_fn, fn=val_fn, instance="validate-forces",
           reason="validate() can return a cached / disabled result instead of validating")
    infeasible = []
    for t in [n for n in wcfg.nodes if n.kind == "test"]:
        for lab in ("T", "F"):
            if ("force", False) in atoms(t.ast.test, lab == "T"):
                infeasible.append((t, lab))
    calls = _call_nodes(wcfg, "_validate_workflow")
    r = wcfg.reach([wcfg.entry], blocked=calls, blocked_edges=infeasible, labels_excluded=NOEXC)
    chk.ob("C23.R2", "with force=True every normal return of Workflow._validate is preceded by _validate_workflow", wcfg.exit not in r, m=mw, node=wv, fn=wv,
           instance="forced-validation-runs", reason="a forced validation can return without calling _validate_workflow")


# ------------------------------------------------------------------------------------------- R3 (bounded exhaustive interpretation)


class _Cls(Record):
    pass


def _mk_classes() -> dict[str, Record]:
    """A finite class table; `mro` lists the names of all ancestors including the class itself."""
    t: dict[str, Record] = {}

    def c(name: str, *bases: str) -> None:
        mro = [name]
        for b in bases:
            mro += [x for x in t[b].mro if x not in mro]
        t[name] = Record("class", __name__=name, mro=mro)

    c("object")
    c("Event", "object")
    for b in ("StartEvent", "StopEvent", "InputRequiredEvent", "HumanResponseEvent", "StepFailedEvent"):
        c(b, "Event")
    c("MyStart", "StartEvent")
    c("MyStop", "StopEvent")
    c("MyInput", "InputRequiredEvent")
    c("MyResponse", "HumanResponseEvent")
    c("EvA", "Event")
    c("EvB", "Event")
    c("NoneType", "object")
    return t


def _issub(table):
    def issub(x, ys):
        ys = ys if isinstance(ys, tuple) else (ys,)
        if not isinstance(x, Record) or not hasattr(x, "mro"):
            raise Raised("TypeError", "issubclass() arg 1 must be a class")
        return any(isinstance(y, Record) and y.__name__ in x.mro for y in ys)
    return issub


def _env(m, table) -> tuple[dict, dict]:
    env: dict = {}
    for q, f in m.functions.items():
        if "." not in q and isinstance(f, ast.FunctionDef):
            env[q] = ("__fn__", f, env)
    for local, target in m.imports.items():
        real = target.rsplit(".", 1)[1]
        if target.startswith(EVENTS + ".") and real in table:
            env[local] = table[real]
    issub = _issub(table)

    def type_(x):
        if x is None:
            return table["NoneType"]
        raise Unsupported("type() of a non-None value")

    def isinst(x, ys):
        ys = ys if isinstance(ys, tuple) else (ys,)
        for y in ys:
            if y is int and isinstance(x, int) and not isinstance(x, bool):
                return True
            if y is str and isinstance(x, str):
                return True
            if y is type_ and isinstance(x, Record) and hasattr(x, "mro"):
                return True
        return False

    env["int"] = int
    env["str"] = str
    env["type"] = type_
    hooks = {"issubclass": issub, "type": type_, "isinstance": isinst}
    # module-level constants (tuples of boundary classes, names of checks …) the functions may refer to
    for st in m.tree.body:
        tg = st.targets[0] if isinstance(st, ast.Assign) and len(st.targets) == 1 else (st.target if isinstance(st, ast.AnnAssign) else None)
        if isinstance(tg, ast.Name) and getattr(st, "value", None) is not None and tg.id not in env:
            try:
                env[tg.id] = Interp(env, hooks).eval(st.value, dict(env))
            except (Unsupported, Raised):
                pass
    return env, hooks


def _step(acc, ret, **kw) -> Record:
    d = dict(accepted_events=list(acc), return_types=list(ret), skip_graph_checks=[], role="step", catch_error_for_steps=None, catch_error_max_recoveries=1)
    d.update(kw)
    return Record("StepConfig", **d)


def _run(m, env, hooks, fname: str, args: dict):
    fn = m.functions.get(fname)
    if fn is None:
        raise AnchorError(f"C23.R3: `{fname}` not found in {m.rel}")
    # bind by position: parameter names are not anchors
    params = [a.arg for a in fn.args.posonlyargs + fn.args.args]
    if len(params) < len(args):
        raise AnchorError(f"C23.R3: `{fname}` takes {len(params)} parameters, the rule supplies {len(args)}")
    args = dict(zip(params, args.values()))
    try:
        return ("ok", Interp(env, hooks).call_function(fn, args))
    except Raised as r:
        return ("raise", r.name)
    except Unsupported as e:
        raise AnchorError(f"C23.R3: `{fname}` uses a construct the interpreter does not support: {e}")


def _subsets(xs, kmax, kmin=0):
    for k in range(kmin, kmax + 1):
        yield from itertools.combinations(xs, k)


def _show(steps: dict) -> str:
    return "; ".join(f"{n}: ({', '.join(c.__name__ for c in s.accepted_events)}) -> ({', '.join(c.__name__ for c in s.return_types)})" for n, s in steps.items())


_R3_MEMO: dict = {}


def _r3_key(m, fname: str, thorough: bool) -> tuple:
    """Everything the interpretation of ``fname`` depends on: its AST, the ASTs of the module functions it (transitively)
    names, and the import table of the event classes.  Used only to avoid re-interpreting an unchanged function when the
    checker self-test re-runs the rules on variants that edit something else."""
    seen: list[str] = []
    todo = [fname]
    while todo:
        f = todo.pop()
        if f in seen or f not in m.functions:
            continue
        seen.append(f)
        todo += [x.id for x in ast.walk(m.functions[f]) if isinstance(x, ast.Name) and x.id in m.functions and "." not in x.id]
    return (fname, thorough, tuple(ast.dump(m.functions[f]) for f in sorted(seen)), tuple(sorted((k, v) for k, v in m.imports.items() if v.startswith(EVENTS + "."))))


def _r3(chk, m, thorough: bool = False) -> None:
    T = _mk_classes()
    env, hooks = _env(m, T)
    issub = _issub(T)
    runs = 0
    recording: list[tuple] = []

    def emit(fname, desc, ok, instance, reason):
        fn_ = m.functions.get(fname)
        chk.ob("C23.R3", desc, ok, m=m, node=fn_, fn=fn_, instance=instance, reason=reason)
        recording.append((fname, desc, ok, instance, reason))

    def replay(key) -> int | None:
        hit = _R3_MEMO.get(key)
        if hit is None:
            return None
        for args in hit[0]:
            emit(*args)
        return hit[1]

    # ---- exactly one start / stop class
    for fname, field, other, base, pool in (
        ("_ensure_start_event_class", "accepted_events", "return_types", "StartEvent", ["StartEvent", "MyStart", "EvA"]),
        ("_ensure_stop_event_class", "return_types", "accepted_events", "StopEvent", ["StopEvent", "MyStop", "EvA"]),
    ):
        if fname not in m.functions:
            raise AnchorError(f"C23.R3: `{fname}` not found in {m.rel}")
        key = _r3_key(m, fname, thorough)
        cached = replay(key)
        if cached is not None:
            runs += cached
            continue
        recording.clear()
        bad = None
        n_cases = 0
        distract = [T[pool[0]], T[pool[1]]]  # two matching classes in the *other* field: reading the wrong field is visible
        per_step = list(_subsets([T[x] for x in pool], 2))
        for k in (1, 2, 3):
            for combo in itertools.product(per_step, repeat=k):
                steps = {f"s{i}": _step(acc=(c if field == "accepted_events" else distract), ret=(c if field == "return_types" else distract))
                         for i, c in enumerate(combo)}
                found = {c.__name__ for s in steps.values() for c in getattr(s, field) if issub(c, T[base])}
                want = ("ok", found) if len(found) == 1 else ("raise", None)
                got = _run(m, env, hooks, fname, {"steps": steps, "workflow_cls_name": "W"})
                n_cases += 1
                good = (got[0] == "raise") if want[0] == "raise" else (got[0] == "ok" and isinstance(got[1], Record) and {got[1].__name__} == found)
                if not good and bad is None:
                    bad = f"steps [{_show(steps)}]: {len(found)} {base} class(es) {sorted(found)} but `{fname}` gives {got[0]} {getattr(got[1], '__name__', got[1])}"
        runs += n_cases
        emit(fname, f"`{fname}` raises iff the number of distinct {base} subclasses in `{field}` is not 1 and returns that class otherwise "
             f"(all {n_cases} step sets with <=3 steps over {pool}, <=2 classes per step)", bad is None, f"exactly-one:{base}", bad or "")
        _R3_MEMO[key] = (list(recording), n_cases)

    # ---- connectivity + HITL flag
    U = [T[x] for x in ("StartEvent", "StopEvent", "EvA", "EvB", "InputRequiredEvent", "MyInput", "MyResponse", "StepFailedEvent")]
    RET = U + [T["NoneType"]]
    IN_B = ("InputRequiredEvent", "HumanResponseEvent", "StopEvent", "StepFailedEvent")   # may be consumed without a producer
    OUT_B = ("InputRequiredEvent", "HumanResponseEvent", "StopEvent")                      # may be produced without a consumer

    def spec(steps, start):
        produced = {start} | {c for s in steps.values() for c in s.return_types if c is not T["NoneType"]}
        consumed = {c for s in steps.values() for c in s.accepted_events}
        if any(issub(c, T["StopEvent"]) for c in consumed):
            return ("raise", None)
        if any(not issub(c, tuple(T[b] for b in IN_B)) for c in consumed - produced):
            return ("raise", None)
        if any(not issub(c, tuple(T[b] for b in OUT_B)) for c in produced - consumed):
            return ("raise", None)
        return ("ok", any(issub(c, T["InputRequiredEvent"]) for c in produced) or any(issub(c, T["HumanResponseEvent"]) for c in consumed))

    def domain():
        one = [(a, r) for a in _subsets(U, 2, 1) for r in _subsets(RET, 2)]
        for a, r in one:
            yield {"s0": _step(a, r)}
        U2 = [c for c in U if c.__name__ not in ("InputRequiredEvent", "EvB")]
        R2 = U2 + [T["NoneType"]]
        small = [(a, r) for a in _subsets(U2, 1, 1) for r in _subsets(R2, 2 if thorough else 1)]
        for (a0, r0), (a1, r1) in itertools.product(small, repeat=2):
            yield {"s0": _step(a0, r0), "s1": _step(a1, r1)}

    if "_validate_event_connectivity" not in m.functions:
        raise AnchorError(f"C23.R3: `_validate_event_connectivity` not found in {m.rel}")
    key = _r3_key(m, "_validate_event_connectivity", thorough)
    cached = replay(key)
    recording.clear()
    bad_accept = None
    bad_flag: dict[str, str | None] = {"produced": None, "consumed": None, "neither": None}
    n_cases = n_flag = 0
    for steps in (domain() if cached is None else ()):
        want = spec(steps, T["StartEvent"])
        got = _run(m, env, hooks, "_validate_event_connectivity", {"steps": steps, "start_event_class": T["StartEvent"]})
        n_cases += 1
        if want[0] != got[0]:
            bad_accept = bad_accept or f"steps [{_show(steps)}]: statement says {'reject' if want[0] == 'raise' else 'accept'}, `_validate_event_connectivity` {'raises ' + str(got[1]) if got[0] == 'raise' else 'accepts'}"
        elif want[0] == "ok":
            n_flag += 1
            if bool(got[1]) != bool(want[1]):
                prod = any(issub(c, T["InputRequiredEvent"]) for s_ in steps.values() for c in s_.return_types)
                side = "produced" if prod else ("consumed" if want[1] else "neither")
                bad_flag[side] = bad_flag[side] or f"steps [{_show(steps)}]: HITL flag must be {want[1]} but the function returns {got[1]!r}"
    if cached is not None:
        runs += cached
    else:
        runs += n_cases
        cn = "_validate_event_connectivity"
        emit(cn, f"`_validate_event_connectivity` rejects exactly the step sets the statement rejects ({n_cases} step sets: 1 step with <=2 accepted and <=2 returned classes, "
             f"2 steps with 1 accepted and <={2 if thorough else 1} returned, over {[c.__name__ for c in U]})", bad_accept is None, "connectivity:accept", bad_accept or "")
        for side, text in (("produced", "true whenever a subclass of InputRequiredEvent is produced"), ("consumed", "true whenever a subclass of HumanResponseEvent is consumed"),
                           ("neither", "false when neither holds")):
            emit(cn, f"the HITL flag is {text} (all {n_flag} accepted step sets of the universe)", bad_flag[side] is None, f"hitl-flag:{side}", bad_flag[side] or "")
        _R3_MEMO[key] = (list(recording), n_cases)

    # ---- catch_error handler consistency
    names = ["a", "b", "h1", "h2"]
    choices = [None, [], ["a"], ["b"], ["a", "b"], ["h2"], ["h1"], ["zz"]]
    if "validate_catch_error_handlers" not in m.functions:
        raise AnchorError(f"C23.R3: `validate_catch_error_handlers` not found in {m.rel}")
    key = _r3_key(m, "validate_catch_error_handlers", thorough)
    cached = replay(key)
    recording.clear()
    bad = None
    n_cases = 0
    for k in ((0, 1, 2) if cached is None else ()):
        for fs in itertools.product(choices, repeat=k):
            hs = [Record("CatchErrorHandler", step_name=f"h{i + 1}", for_steps=f, max_recoveries=1) for i, f in enumerate(fs)]
            hnames = {h.step_name for h in hs}
            wild = sum(1 for h in hs if h.for_steps is None)
            claimed: dict[str, str] = {}
            incons = wild > 1
            for h in hs:
                for tgt in h.for_steps or []:
                    if tgt not in names or tgt in hnames or tgt in claimed:
                        incons = True
                    claimed.setdefault(tgt, h.step_name)
            got = _run(m, env, hooks, "validate_catch_error_handlers", {"handlers": hs, "step_names": set(names)})
            n_cases += 1
            if got[0] != "ok" or bool(got[1]) != incons:
                bad = bad or f"handlers {[(h.step_name, h.for_steps) for h in hs]} over steps {names}: inconsistent={incons} but the function returns {got[1]!r}"
    if cached is not None:
        runs += cached
    else:
        runs += n_cases
        emit("validate_catch_error_handlers", f"`validate_catch_error_handlers` reports an error iff there are two wildcards, an unknown / handler target, or a step claimed twice ({n_cases} handler sets, <=2 handlers)",
             bad is None, "catch-error:consistent", bad or "")
        _R3_MEMO[key] = (list(recording), n_cases)
    chk.extra["r3_domain"] = {"interpreted_runs": runs, "thorough": thorough}
    chk.exhaustive = True


# ------------------------------------------------------------------------------------------- R4 (graph checks vs. an independent oracle)


def _r4(chk, m, thorough: bool = False) -> None:
    """`validate_graph` (with build_step_graph and the traversal it uses) is interpreted on every small step graph and
    every skip setting and compared, check by check and step by step, with reachability computed here by fixpoint."""
    T = _mk_classes()
    env, hooks = _env(m, T)
    issub = _issub(T)
    hooks = dict(hooks)
    hooks["StepGraph"] = lambda **kw: Record("StepGraph", **kw)
    hooks["GraphValidationError"] = lambda **kw: Record("GraphValidationError", **kw)
    for need in ("validate_graph", "build_step_graph"):
        if need not in m.functions:
            raise AnchorError(f"C23.R4: `{need}` not found in {m.rel}")
    key = ("r4",) + _r3_key(m, "validate_graph", thorough)
    hit = _R3_MEMO.get(key)
    NONE = T["NoneType"]
    START = T["StartEvent"]
    OUT = (T["StopEvent"], T["InputRequiredEvent"])

    def oracle(steps, skip, catch):
        """{check: set of offending steps} by the statement: every step reachable from an input (the start class, a
        HumanResponseEvent, or — for @catch_error handlers — the runtime's failure routing), every step that produces
        events able to reach an output event (StopEvent / InputRequiredEvent), except where skipped."""
        produces = {n: [c for c in s.return_types if c is not NONE] for n, s in steps.items()}
        accepts = {n: list(s.accepted_events) for n, s in steps.items()}
        events = {c.__name__: c for n in steps for c in produces[n] + accepts[n]}
        # forward: least fixpoint
        live_ev = {START.__name__} | {k for k, c in events.items() if issub(c, T["HumanResponseEvent"])}
        live_st = set(catch or [])
        changed = True
        while changed:
            changed = False
            for n in steps:
                if n not in live_st and any(c.__name__ in live_ev for c in accepts[n]):
                    live_st.add(n); changed = True
                if n in live_st:
                    for c in produces[n]:
                        if c.__name__ not in live_ev:
                            live_ev.add(c.__name__); changed = True
        # backward: steps that can reach an output event
        good_ev = {k for k, c in events.items() if issub(c, OUT)}
        good_st: set[str] = set()
        changed = True
        while changed:
            changed = False
            for n in steps:
                if n not in good_st and any(c.__name__ in good_ev for c in produces[n]):
                    good_st.add(n); changed = True
                if n in good_st:
                    for c in accepts[n]:
                        if c.__name__ not in good_ev:
                            good_ev.add(c.__name__); changed = True
        out = {}
        if "reachability" not in skip:
            out["reachability"] = {n for n in steps if n not in live_st and "reachability" not in steps[n].skip_graph_checks}
        if "dead_end" not in skip:
            out["dead_end"] = {n for n in steps if produces[n] and n not in good_st and "dead_end" not in steps[n].skip_graph_checks}
        if "terminal_event" not in skip:
            consumed = {c.__name__ for n in steps for c in accepts[n]}
            out["terminal_event"] = {k for k, c in events.items() if k not in consumed and not issub(c, OUT)}
        return out

    def graphs():
        ACC = [T[x] for x in ("StartEvent", "EvA", "EvB", "MyResponse")]
        RET = [(), (T["MyStop"],), (T["EvA"],), (T["EvB"],), (T["MyInput"],), (NONE,), (T["EvA"], T["EvB"])]
        per = [(a, r) for a in ACC for r in RET]
        for (a0, r0), (a1, r1) in itertools.product(per, repeat=2):
            yield [((a0,), r0), ((a1,), r1)]
        # three steps: a complete start->stop step plus every pair of inner steps (detached cycles, tails, branches)
        inner = [(a, r) for a in ACC[1:] for r in RET]
        third = inner if thorough else [(a, r) for a in ACC[1:3] for r in RET[:4] + RET[5:6]]
        for x, y in itertools.product(third, repeat=2):
            yield [((START,), (T["MyStop"],)), ((x[0],), x[1]), ((y[0],), y[1])]

    def settings(n):
        yield set(), [[] for _ in range(n)], None
        for chk_ in ("reachability", "dead_end", "terminal_event"):
            yield {chk_}, [[] for _ in range(n)], None
        for i in range(n):
            for chk_ in ("reachability", "dead_end"):
                sk = [[] for _ in range(n)]
                sk[i] = [chk_]
                yield set(), sk, None
        yield set(), [[] for _ in range(n)], [f"s{n - 1}"]
        yield {"reachability"}, [[] for _ in range(n)], [f"s{n - 1}"]

    bad: dict[str, str | None] = {"accepts-bad": None, "rejects-good": None, "crash": None}
    n_cases = n_rej = 0
    if hit is None:
        for g in graphs():
            for skip, per_step, catch in settings(len(g)):
                steps = {f"s{i}": _step(a, r, skip_graph_checks=per_step[i]) for i, (a, r) in enumerate(g)}
                want = {k: v for k, v in oracle(steps, skip, catch).items() if v}
                got = _run(m, env, hooks, "validate_graph", {"steps": steps, "start_event_class": START, "skip_checks": set(skip), "catch_error_steps": catch})
                n_cases += 1
                n_rej += bool(want)
                desc = f"steps [{_show(steps)}], skip_checks={sorted(skip)}, per-step skips={per_step}, catch_error_steps={catch}"
                if got[0] != "ok" or not isinstance(got[1], list):
                    bad["crash"] = bad["crash"] or f"{desc}: validate_graph {got[0]} {got[1]!r}"
                    continue
                reported = sorted({e.check for e in got[1]})
                if want and not got[1]:
                    k = sorted(want)[0]
                    what = {"reachability": "not reachable from an input", "dead_end": "producing events but unable to reach an output event", "terminal_event": "(events) produced or accepted without a consumer and not output events"}[k]
                    bad["accepts-bad"] = bad["accepts-bad"] or f"{desc}: {sorted(want[k])} {what} and `{k}` is not skipped for them, yet validate_graph reports no error (the workflow validates)"
                elif got[1] and not want:
                    bad["rejects-good"] = bad["rejects-good"] or f"{desc}: every unskipped step is reachable and every unskipped event-producing step reaches an output event, yet validate_graph reports {reported}"
        _R3_MEMO[key] = (dict(bad), (n_cases, n_rej))
    else:
        bad, (n_cases, n_rej) = dict(hit[0]), hit[1]
    fn_ = m.functions["validate_graph"]
    dom = f"{n_cases} (graph, skip setting) pairs, {n_rej} of them ill-formed: all 2-step graphs and start→stop plus 2 inner steps, 1 accepted and ≤2 returned classes per step, every workflow-level and per-step skip, with/without a catch_error handler"
    chk.ob("C23.R4", f"validate_graph reports an error whenever an unskipped step is unreachable, an unskipped event-producing step cannot reach an output event, or a non-output event has no consumer ({dom})",
           bad["accepts-bad"] is None, m=m, node=fn_, fn=fn_, instance="graph:rejects-ill-formed", reason=bad["accepts-bad"] or "")
    chk.ob("C23.R4", "validate_graph reports nothing for a graph that is well-formed up to the skipped checks (same domain)", bad["rejects-good"] is None, m=m, node=fn_, fn=fn_, instance="graph:accepts-well-formed", reason=bad["rejects-good"] or "")
    chk.ob("C23.R4", "validate_graph returns a list of errors on every graph of the domain", bad["crash"] is None, m=m, node=fn_, fn=fn_, instance="graph:total", reason=bad["crash"] or "")
    chk.floor("C23.R4", "ill-formed graph/skip pairs in the domain", n_rej, 500)
    chk.floor("C23.R4", "graph/skip pairs interpreted", n_cases, 1000)
    chk.extra["r4_domain"] = {"interpreted_runs": n_cases, "thorough": thorough}


# ------------------------------------------------------------------------------------------- entry



def _catch_error_seed_rule(chk, repo, mv, vw, vg_call) -> None:
    cc = mv.functions.get("_collect_catch_error_handlers")
    seeds = kwarg(vg_call, "catch_error_steps")
    coll = next((s_ for s_ in walk_shallow(vw) if isinstance(s_, ast.Assign) and isinstance(s_.value, ast.Call) and last(call_name(s_.value)) == "_collect_catch_error_handlers"), None)
    if cc is None or seeds is None or coll is None:
        raise AnchorError("C23.R2: cannot bind _collect_catch_error_handlers / the catch_error_steps argument of validate_graph in _validate_workflow")

    def step(role="step", for_steps=None, mr=1):
        return Record("StepConfig", role=role, catch_error_max_recoveries=mr, catch_error_for_steps=for_steps)

    tables = {
        "wildcard shadowed by scoped handlers": {"a": step(), "b": step(), "h_a": step("catch_error", ["a"]), "h_b": step("catch_error", ["b"]), "h_any": step("catch_error", None)},
        "handler with for_steps=[]": {"a": step(), "h_none": step("catch_error", []), "h_any": step("catch_error", None)},
        "plain wildcard": {"a": step(), "b": step(), "h_any": step("catch_error", None)},
        "no handler": {"a": step(), "b": step()},
    }
    hooks = {"CatchErrorHandler": lambda **kw: Record("CatchErrorHandler", **kw), "validate_catch_error_handlers": lambda *a, **k: []}
    bad, rows = "", []
    try:
        for label, steps in tables.items():
            got = Interp({}, hooks).call_function(cc, {cc.args.args[0].arg: steps})
            env: dict = {}
            Interp({}, hooks).assign(coll.targets[0], got, env)
            # locals of _validate_workflow between the collection and the call (a renamed / pre-computed seed list)
            expr = expand(seeds, vg_call, depth=3)
            val = Interp(env, hooks).eval(expr, dict(env))
            names = sorted(set(val))
            want = sorted(n for n, c in steps.items() if c.role == "catch_error")
            rows.append({"table": label, "seeds": names})
            if names != want:
                bad = bad or f"{label}: reachability is seeded with {names}, the @catch_error handlers are {want} — a handler that owns no step (and what only it reaches) is reported unreachable, a well-formed workflow is rejected"
    except (Unsupported, Raised, TypeError) as e:
        raise AnchorError(f"C23.R2: cannot evaluate the catch_error seed flow: {e}")
    chk.extra["catch_error_seed_tables"] = rows
    chk.ob("C23.R2", "every @catch_error handler (also one owning no step) seeds the reachability pass of validate_graph", not bad, m=mv, node=vg_call, fn=vw, instance="seed-flow:catch-error-handlers", reason=bad)

def run(chk) -> None:
    repo = chk.repo
    m = repo.module(VAL)
    _r1(chk, m)
    _r2(chk, repo, m)
    _r3(chk, m, thorough=False)
    _r4(chk, m, thorough=False)


def run_thorough(chk) -> None:
    # the same comparison on the larger two-step universe (<=2 returned classes per step)
    m = chk.repo.module(VAL)
    before = len(chk.obligations)
    _r3(chk, m, thorough=True)
    _r4(chk, m, thorough=True)
    # keep one copy of each obligation key (the thorough one supersedes the quick one)
    new = chk.obligations[before:]
    keys = {o.key for o in new}
    chk.obligations = [o for o in chk.obligations[:before] if o.key not in keys] + new


# ------------------------------------------------------------------------------------------- twins

_V = "packages/llama-index-workflows/src/workflows/representation/validate.py"
_W = "packages/llama-index-workflows/src/workflows/workflow.py"
_D = "packages/llama-index-workflows/src/workflows/decorators.py"



def _hitl_return_text() -> str:
    """Source text of the statement that returns the HITL flag (last `return` of `_validate_event_connectivity`), read at
    import time with `ast` so that the twins of that statement follow reformatting instead of being skipped."""
    try:
        src = (repo_root() / _V).read_text(encoding="utf-8")
        tree = ast.parse(src)
    except (OSError, SyntaxError):
        return "\0validate.py unreadable"
    fn = next((n for n in tree.body if isinstance(n, ast.FunctionDef) and n.name == "_validate_event_connectivity"), None)
    rets = [n for n in ast.walk(fn) if isinstance(n, ast.Return)] if fn is not None else []
    if not rets:
        return "\0HITL return not located"
    r = max(rets, key=lambda n: n.lineno)
    lines = src.splitlines(keepends=True)
    return "".join(lines[r.lineno - 1: r.end_lineno])


_HITL_RET = _hitl_return_text()
_HITL_PINNED = "    return (\n        InputRequiredEvent in produced_events or HumanResponseEvent in consumed_events\n    )\n"

TWINS = [
    Twin("reachability seeded only with handlers that own a step", _V, "        catch_error_steps=list(catch_error_handlers.keys()),\n", "        catch_error_steps=sorted(set(handler_for_step.values())),\n", "C23.R2"),
    Twin("benign: seed list computed beforehand from the handler table", _V, "    graph_errors = validate_graph(\n        steps=steps,\n        start_event_class=start_event_class,\n        skip_checks=skip_graph_checks,\n        catch_error_steps=list(catch_error_handlers.keys()),\n",
         "    handler_names = sorted(h.step_name for h in catch_error_handlers.values())\n    graph_errors = validate_graph(\n        steps=steps,\n        start_event_class=start_event_class,\n        skip_checks=skip_graph_checks,\n        catch_error_steps=handler_names,\n", None),
    # R4
    Twin("dead-end check only over reachable steps", _V, "            for s in graph.step_names\n            if any(isinstance(t, type) for t in graph.outgoing.get(s, []))", "            for s in graph.step_names & graph.forward_reachable\n            if any(isinstance(t, type) for t in graph.outgoing.get(s, []))", "C23.R4"),
    Twin("per-step reachability skip exempts every step", _V, "            for name in graph.step_names - step_skip\n            if name not in graph.forward_reachable", "            for name in graph.step_names - step_skip\n            if name not in graph.forward_reachable and not step_skip", "C23.R4"),
    Twin("traversal stops after one hop", _V, "        for target in adjacency.get(node, []):\n            if target not in visited:\n                stack.append(target)", "        for target in adjacency.get(node, []):\n            if target not in visited and node in seeds:\n                stack.append(target)", "C23.R4"),
    Twin("handler steps are not seeds", _V, "    for handler_name in catch_error_steps or []:\n        if handler_name not in seeds:\n            seeds.append(handler_name)", "    for handler_name in catch_error_steps or []:\n        if handler_name in seeds:\n            seeds.append(handler_name)", "C23.R4"),
    Twin("benign: traversal with a visited test at push time only", _V, "        node = stack.pop()\n        if node in visited:\n            continue\n        visited.add(node)\n        for target in adjacency.get(node, []):\n            if target not in visited:\n                stack.append(target)", "        node = stack.pop()\n        if node not in visited:\n            visited.add(node)\n            stack.extend(t for t in adjacency.get(node, []) if t not in visited)", None),
    Twin("benign: dead ends as a set difference", _V, "            for name in steps_producing_events - step_skip\n            if name not in graph.reverse_reachable", "            for name in (steps_producing_events - step_skip) - {x for x in graph.reverse_reachable if isinstance(x, str)}", None),
    # R1
    Twin("revert of the repair: HITL flag by exact-class membership", _V, _HITL_RET, _HITL_PINNED, "C23.R1"),
    Twin("produced side by exact-class membership", _V, _HITL_RET,
         "    return InputRequiredEvent in produced_events or any(issubclass(x, HumanResponseEvent) for x in consumed_events)\n", "C23.R1"),
    Twin("consumed side through a set intersection", _V, _HITL_RET,
         "    return any(issubclass(x, InputRequiredEvent) for x in produced_events) or bool({HumanResponseEvent} & consumed_events)\n", "C23.R1"),
    Twin("benign: flag by subclass, generator form over both sets", _V, _HITL_RET,
         "    return (\n        any(issubclass(e, InputRequiredEvent) for e in produced_events)\n        or any(issubclass(e, HumanResponseEvent) for e in consumed_events)\n    )\n", None),
    Twin("benign: flag through constant tuples", _V, _HITL_RET,
         "    hitl_out = (InputRequiredEvent,)\n    hitl_in = (HumanResponseEvent,)\n    return any(issubclass(e, hitl_out) for e in produced_events) or any(issubclass(e, hitl_in) for e in consumed_events)\n", None),
    Twin("benign: flag computed by explicit loops", _V, _HITL_RET,
         "    for e in produced_events:\n        if issubclass(e, InputRequiredEvent):\n            return True\n    for e in consumed_events:\n        if issubclass(e, HumanResponseEvent):\n            return True\n    return False\n", None),
    Twin("input seeds by identity", _V, "        if issubclass(ev_type, HumanResponseEvent) and ev_type not in seeds:", "        if ev_type is HumanResponseEvent and ev_type not in seeds:", "C23.R1"),
    Twin("output seeds by set membership", _V, "        if issubclass(ev_type, (StopEvent, InputRequiredEvent))\n    ]", "        if ev_type in {StopEvent, InputRequiredEvent}\n    ]", "C23.R1"),
    Twin("stop consumer by equality", _V, "            if issubclass(event_type, StopEvent):\n                steps_accepting_stop_event.append(name)",
         "            if event_type == StopEvent:\n                steps_accepting_stop_event.append(name)", "C23.R1"),
    Twin("boundary exemption by set difference", _V,
         "        for x in produced_events - consumed_events\n        if not issubclass(x, (InputRequiredEvent, HumanResponseEvent, StopEvent))\n",
         "        for x in produced_events - consumed_events - {InputRequiredEvent, HumanResponseEvent, StopEvent}\n", "C23.R1"),
    Twin("start class by name", _V, "            if issubclass(event_type, StartEvent):\n                start_events_found.add(event_type)",
         "            if event_type.__name__ == \"StartEvent\":\n                start_events_found.add(event_type)", "C23.R1"),
    Twin("benign: isinstance-free reversed tuple order", _V, "        if issubclass(ev_type, (StopEvent, InputRequiredEvent))\n    ]", "        if issubclass(ev_type, (InputRequiredEvent, StopEvent))\n    ]", None),
    # R2
    Twin("stop-event check only without skips", _V, "    stop_event_class = _ensure_stop_event_class(steps, workflow_cls_name)\n\n    uses_hitl",
         "    stop_event_class = None\n    if not skip_graph_checks:\n        stop_event_class = _ensure_stop_event_class(steps, workflow_cls_name)\n\n    uses_hitl", "C23.R2"),
    Twin("graph checks only when something is skipped", _V, "    graph_errors = validate_graph(\n", "    graph_errors = [] if not skip_graph_checks else validate_graph(\n", "C23.R2"),
    Twin("graph findings only logged", _V, "    if graph_errors:\n        detail", "    if graph_errors and len(graph_errors) > 3:\n        detail", "C23.R2"),
    Twin("handler findings ignored for a single handler", _V, "    if handler_errors:\n", "    if handler_errors and len(handlers) > 1:\n", "C23.R2"),
    Twin("dead_end gate reads the wrong name", _V, "    if \"dead_end\" not in skip_checks:", "    if \"terminal_event\" not in skip_checks:", "C23.R2"),
    Twin("per-step dead_end skip reads reachability", _V, "name for name, cfg in steps.items() if \"dead_end\" in cfg.skip_graph_checks", "name for name, cfg in steps.items() if \"reachability\" in cfg.skip_graph_checks", "C23.R2"),
    Twin("per-step reachability skip computed but unused", _V, "            for name in graph.step_names - step_skip\n", "            for name in graph.step_names\n", "C23.R4"),
    Twin("new Literal member without a check", _D, "WorkflowGraphCheck = Literal[\"reachability\", \"terminal_event\", \"dead_end\"]", "WorkflowGraphCheck = Literal[\"reachability\", \"terminal_event\", \"dead_end\", \"cycle\"]", "C23.R2"),
    Twin("skip set not forwarded", _V, "        skip_checks=skip_graph_checks,\n", "        skip_checks=None,\n", "C23.R2"),
    Twin("validate() honours the cache", _W, "            force=True,  # Explicit validate() call should always run", "            force=False,", "C23.R2"),
    Twin("HITL flag replaced by a constant", _V, "        uses_hitl=uses_hitl,\n", "        uses_hitl=bool(catch_error_handlers),\n", "C23.R2"),
    Twin("forced validation still honours disable_validation", _W, "        if self._disable_validation and not force:\n            return False", "        if self._disable_validation:\n            return False", "C23.R2"),
    Twin("benign: early-return form of the graph error raise", _V, "    if graph_errors:\n        detail", "    if len(graph_errors) > 0:\n        detail", None),
    Twin("benign: positional skip set", _V, "        skip_checks=skip_graph_checks,\n        catch_error_steps=list(catch_error_handlers.keys()),\n", "        catch_error_steps=list(catch_error_handlers.keys()),\n        skip_checks=skip_graph_checks,\n", None),
    Twin("benign: gate with early skip variable", _V, "    if \"reachability\" not in skip_checks:\n        step_skip = {", "    if not (\"reachability\" in skip_checks):\n        step_skip = {", None),
    # R3
    Twin("two start classes tolerated", _V, "    if num_found > 1:\n        raise WorkflowConfigurationError(\n            f\"Only one type of StartEvent", "    if num_found > 2:\n        raise WorkflowConfigurationError(\n            f\"Only one type of StartEvent", "C23.R3"),
    Twin("stop classes read from accepted events", _V, "        for event_type in cfg.return_types:\n            if issubclass(event_type, StopEvent):", "        for event_type in cfg.accepted_events:\n            if issubclass(event_type, StopEvent):", "C23.R3"),
    Twin("StepFailedEvent no longer a consumable boundary", _V, "            (InputRequiredEvent, HumanResponseEvent, StopEvent, StepFailedEvent),\n", "            (InputRequiredEvent, HumanResponseEvent, StopEvent),\n", "C23.R3"),
    Twin("only the first accepted event is checked for StopEvent", _V, "            if issubclass(event_type, StopEvent):\n                steps_accepting_stop_event.append(name)\n                break\n",
         "            if issubclass(event_type, StopEvent):\n                steps_accepting_stop_event.append(name)\n            break\n", "C23.R3"),
    Twin("revert of the repair is also seen as a concrete graph", _V, _HITL_RET, _HITL_PINNED, "C23.R3"),
    Twin("any externally supplied event counts as human input", _V, _HITL_RET,
         "    return bool(consumed_events - produced_events) or any(issubclass(e, InputRequiredEvent) for e in produced_events)\n", "C23.R3"),
    Twin("flag only looks at produced events", _V, _HITL_RET, "    return any(issubclass(e, InputRequiredEvent) for e in produced_events)\n", "C23.R3"),
    Twin("flag swaps the two sets", _V, _HITL_RET,
         "    return any(issubclass(x, InputRequiredEvent) for x in consumed_events) or any(issubclass(x, HumanResponseEvent) for x in produced_events)\n", "C23.R3"),
    Twin("two wildcard handlers allowed", _V, "    if len(wildcard_handlers) > 1:", "    if len(wildcard_handlers) > 2:", "C23.R3"),
    Twin("double claim check dropped for the first handler", _V, "            if target in claim_owner:\n", "            if target in claim_owner and claim_owner[target] != \"h1\":\n", "C23.R3"),
    Twin("benign: count via != 1", _V, "    num_found = len(stop_events_found)\n    if num_found == 0:", "    num_found = len(stop_events_found)\n    if not stop_events_found:", None),
    Twin("benign: connectivity loop merged", _V, "        for event_type in cfg.accepted_events:\n            consumed_events.add(event_type)\n", "        consumed_events.update(cfg.accepted_events)\n", None),
]
