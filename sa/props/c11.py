"""C11 — replaying the recorded tick log reproduces the live run state.

Decided (structural induction over the log: live state = fold of one pure function over the same
ticks): (R1) the runner's state is assigned only from _reduce_tick / rewind_in_progress results
and is never mutated in place; (R2) every tick that is reduced is recorded (adapter.on_tick) after
the successful reduction and before any of its commands runs, and the runner reduces ticks only
through _process_tick; the asyncio adapter appends to the list replay() returns; (R3) every adapter
decorator base forwards every interface method (both directions); (R4) the rebuild/replay helpers
run the same pipeline (rewind, then _reduce_tick per tick, in log order); (R5) reducer purity: no
I/O, clock, randomness, await or mutation through the `init`/`tick` parameters in anything
_reduce_tick reaches, and the `now_seconds` argument influences timestamps only — it must not
reach a branch condition or an argument of user policy code; (R6) the log that replay() pairs with
init_state is this run's log: a new queues object starts with an empty log and records the
init_state it was created with, nothing but on_tick's append writes either, run_workflow can only
*create* queues (it refuses a run id that still has queues) and starts the loop from that same
init_state; (R7) the live handler's view (ExternalContext._state, behind ctx.to_dict() and
running_steps()) is rebuild_state_from_ticks(adapter.init_state, the adapter's whole log) and keeps
nothing between calls.
(R1) also follows locals that point into self.state (alias fixpoint over assignments, loops, dict views, next(generator)): a write
through such a local is a change outside _reduce_tick that no recorded tick reproduces.
Not decided: equality of concrete states (pydantic/dataclass copies are trusted).
"""

from __future__ import annotations

import ast

from ..astx import MUTATORS, call_name, calls_named, dotted, enclosing_stmt, expand, kwarg, last
from ..cfg import CFG, exprs_in_node
from ..index import AnchorError, FuncNode, enclosing_function, parent, qualname_of, walk_shallow
from ..selftest import Twin
from ._engine import CL, CL_REL, RUNNER, param

EXPLANATION = __doc__.split("\n\n", 1)[1]
TECHNIQUE = 'static analysis: ownership of runner state, record-before-commands dominance, interface-forwarding inventory, reducer purity/effect lint, now_seconds taint, log/init_state freshness per run (path facts + single-writer inventory)'
TRUSTED = ["CPython ast", "dataclass/pydantic copy semantics"]
PLUG = "workflows.runtime.types.plugin"
DEC = "workflows.runtime.runtime_decorators"
DEC_REL = "packages/llama-index-workflows/src/workflows/runtime/runtime_decorators.py"
BASIC_REL = "packages/llama-index-workflows/src/workflows/plugins/basic.py"
IMPURE = ("time.", "random.", "uuid.", "os.", "secrets.", "datetime.now", "datetime.utcnow", "asyncio.", "open", "print", "input")


def _reducer_closure(repo) -> dict[str, ast.AST]:
    m = repo.module(CL)
    seen: dict[str, ast.AST] = {}
    todo = ["_reduce_tick"]
    while todo:
        n = todo.pop()
        if n in seen or n not in m.functions:
            continue
        fn = m.functions[n]
        seen[n] = fn
        for c in ast.walk(fn):
            if isinstance(c, ast.Call) and isinstance(c.func, ast.Name) and c.func.id in m.functions:
                todo.append(c.func.id)
    return seen



_ELEMENT_PRESERVING = {"list", "tuple", "sorted", "reversed", "enumerate", "iter", "next", "filter"}
_VIEW_METHODS = {"values", "items", "get", "setdefault", "pop", "copy"}      # .copy() of a container is shallow: elements still shared


def _alias_root(e: ast.AST, aliases: set[str]) -> str | None:
    """Name of the alias (or "self.state") that expression e points into, following attribute / subscript chains, dict views,
    element-preserving wrappers and generator expressions drawing from such a place; None for anything that is a fresh value."""
    while True:
        if isinstance(e, (ast.Attribute, ast.Subscript)):
            if isinstance(e, ast.Attribute) and e.attr == "state" and isinstance(e.value, ast.Name) and e.value.id == "self":
                return "self.state"
            e = e.value
        elif isinstance(e, ast.Name):
            return e.id if e.id in aliases else None
        elif isinstance(e, ast.Call) and isinstance(e.func, ast.Attribute) and e.func.attr in _VIEW_METHODS:
            e = e.func.value
        elif isinstance(e, ast.Call) and isinstance(e.func, ast.Name) and e.func.id in _ELEMENT_PRESERVING and e.args:
            e = e.args[0]
        elif isinstance(e, (ast.GeneratorExp, ast.ListComp)):
            inner = {n.id for g in e.generators if _alias_root(g.iter, aliases) for n in ast.walk(g.target) if isinstance(n, ast.Name)}
            return _alias_root(e.elt, aliases | inner)
        elif isinstance(e, ast.IfExp):
            return _alias_root(e.body, aliases) or _alias_root(e.orelse, aliases)
        else:
            return None


def _state_aliases(fn: ast.AST) -> set[str]:
    """Locals of fn (nested functions included) that may point into self.state: fixpoint over assignments, loop targets, walrus."""
    al: set[str] = set()
    changed = True
    while changed:
        changed = False
        for st in ast.walk(fn):
            pairs: list[tuple[ast.AST, ast.AST]] = []
            if isinstance(st, ast.Assign):
                pairs = [(t, st.value) for t in st.targets]
            elif isinstance(st, ast.AnnAssign) and st.value is not None:
                pairs = [(st.target, st.value)]
            elif isinstance(st, ast.NamedExpr):
                pairs = [(st.target, st.value)]
            elif isinstance(st, (ast.For, ast.AsyncFor)):
                pairs = [(st.target, st.iter)]
            for tgt, val in pairs:
                if _alias_root(val, al) is None:
                    continue
                for n in ast.walk(tgt):
                    if isinstance(n, ast.Name) and isinstance(n.ctx, ast.Store) and n.id not in al:
                        al.add(n.id)
                        changed = True
    return al

def run(chk) -> None:
    repo = chk.repo
    from ._engine import engine_view
    chk.extra["helpers_inlined"] = engine_view(repo)
    # the replay at resume folds the whole recorded log (an idle release is exit-shaped but not an end)
    from ._engine import replay_consumes_whole_log
    replay_consumes_whole_log(chk, "C11.R4")
    m = repo.module(CL)
    methods = repo.methods(RUNNER)

    # ---------------------------------------------------------------- R1 state ownership
    writes = 0
    for name, fn in methods.items():
        for n in ast.walk(fn):
            # assignment to self.state
            if isinstance(n, ast.Attribute) and n.attr == "state" and isinstance(n.value, ast.Name) and n.value.id == "self" and isinstance(n.ctx, ast.Store):
                writes += 1
                st = enclosing_stmt(n)
                src = getattr(st, "value", None)
                ok = False
                if name == "__init__" and isinstance(src, ast.Name):
                    ok = src.id in [a.arg for a in fn.args.args]
                src_x = expand(src, st, depth=2) if isinstance(src, ast.Name) else src      # the reducer's result held in a local first
                if isinstance(src_x, ast.Await):
                    src_x = src_x.value
                if isinstance(src_x, ast.Call) and last(call_name(src_x)) in ("_reduce_tick", "rewind_in_progress"):
                    ok = True
                chk.ob("C11.R1", "the runner's state is assigned only from _reduce_tick / rewind_in_progress (or the constructor argument)", ok, m=m, node=st, fn=fn, instance=f"state-assign:{name}",
                       reason=f"self.state assigned from `{ast.unparse(src)[:60] if src is not None else None}`")
            # in-place mutation through self.state
            if isinstance(n, ast.Attribute) and isinstance(n.ctx, (ast.Store, ast.Del)) and ast.unparse(n).startswith("self.state."):
                chk.ob("C11.R1", "the runner never mutates its state in place", False, m=m, node=n, fn=fn, instance=f"state-mutation:{name}", reason=f"`{ast.unparse(n)}` is written outside the reducer")
            if isinstance(n, ast.Call) and isinstance(n.func, ast.Attribute) and n.func.attr in MUTATORS and ast.unparse(n.func.value).startswith("self.state"):
                chk.ob("C11.R1", "the runner never mutates its state in place", False, m=m, node=n, fn=fn, instance=f"state-mutation:{name}", reason=f"`{ast.unparse(n)[:60]}` mutates state outside the reducer")
            if isinstance(n, ast.Subscript) and isinstance(n.ctx, (ast.Store, ast.Del)) and ast.unparse(n.value).startswith("self.state"):
                chk.ob("C11.R1", "the runner never mutates its state in place", False, m=m, node=n, fn=fn, instance=f"state-mutation:{name}", reason=f"`{ast.unparse(n)[:60]}` written outside the reducer")
    chk.floor("C11.R1", "assignments to the runner's state", writes, 3)
    # … nor through a local that still points into it (`ws = self.state.workers[name]; ws.in_progress = […]`)
    aliased_reads = 0
    for name, fn in methods.items():
        al = _state_aliases(fn)
        aliased_reads += len(al)
        for n in ast.walk(fn):
            hit = None
            if isinstance(n, (ast.Attribute, ast.Subscript)) and isinstance(n.ctx, (ast.Store, ast.Del)) and _alias_root(n.value, al):
                hit = n
            elif isinstance(n, ast.Call) and isinstance(n.func, ast.Attribute) and n.func.attr in MUTATORS and _alias_root(n.func.value, al):
                hit = n
            elif isinstance(n, ast.AugAssign) and isinstance(n.target, (ast.Attribute, ast.Subscript)) and _alias_root(n.target.value, al):
                hit = n
            if hit is not None:
                chk.ob("C11.R1", "the runner never mutates its state in place", False, m=m, node=hit, fn=fn, instance=f"state-mutation:{name}",
                       reason=f"`{ast.unparse(hit)[:70]}` writes into the live state through the local `{_alias_root(hit.value if not isinstance(hit, (ast.Call, ast.AugAssign)) else (hit.func.value if isinstance(hit, ast.Call) else hit.target.value), al)}` "
                              f"(which points into self.state): a change made outside _reduce_tick is in no recorded tick, so rebuild_state_from_ticks / to_dict() no longer reproduce the live state")
    chk.floor("C11.R1", "locals of runner methods that point into self.state (read-only on the confirmed tree)", aliased_reads, 1)

    # ---------------------------------------------------------------- R2 recorded before commands run
    pt = methods.get("_process_tick")
    if pt is None:
        raise AnchorError("C11.R2: _ControlLoopRunner._process_tick not found")
    cfg = CFG(pt)
    red = [n for n in cfg.nodes if n.ast is not None and any(isinstance(x, ast.Call) and last(call_name(x)) == "_reduce_tick" for x in exprs_in_node(n))]
    ont = [n for n in cfg.nodes if n.ast is not None and any(isinstance(x, ast.Call) and (call_name(x) or "").endswith("adapter.on_tick") for x in exprs_in_node(n))]
    cmds = [n for n in cfg.nodes if n.ast is not None and any(isinstance(x, ast.Call) and (call_name(x) or "").endswith("process_command") for x in exprs_in_node(n))]
    chk.floor("C11.R2", "reduce / on_tick / process_command sites in _process_tick", min(len(red), len(ont), len(cmds)), 1)
    for n in ont:
        tick_arg = [x for x in exprs_in_node(n) if isinstance(x, ast.Call) and (call_name(x) or "").endswith("adapter.on_tick")][0]
        ok = tick_arg.args and ast.unparse(tick_arg.args[0]) == param(pt, 1)
        chk.ob("C11.R2", "the recorded tick is the tick that was reduced", bool(ok), m=m, node=tick_arg, fn=pt, instance="record:same-tick", reason=f"on_tick({ast.unparse(tick_arg.args[0]) if tick_arg.args else ''})")
        chk.ob("C11.R2", "a tick is recorded only after its reduction succeeded", n not in cfg.reach([cfg.entry], blocked=red), m=m, node=n.ast, fn=pt, instance="record:after-reduce", reason="on_tick reachable without passing _reduce_tick")
    for n in cmds:
        chk.ob("C11.R2", "the tick is recorded before any of its commands is executed", n not in cfg.reach([cfg.entry], blocked=ont), m=m, node=n.ast, fn=pt, instance="record:before-commands",
               reason="process_command reachable without passing adapter.on_tick: effects of an unrecorded tick could be observed")
    # normal paths from the reduction always reach on_tick
    bad = cfg.must_pass(red, [cfg.exit], ont, labels_excluded=("exc", "cancel"), include_starts=False)
    chk.ob("C11.R2", "every successfully reduced tick is recorded", not bad, m=m, node=pt, fn=pt, instance="record:always", reason="a normal path leaves _process_tick after the reduction without on_tick")
    others = [(n, f) for n, f in methods.items() if n != "_process_tick" for c in ast.walk(f) if isinstance(c, ast.Call) and last(call_name(c)) == "_reduce_tick"]
    chk.ob("C11.R2", "the runner reduces ticks only through _process_tick", not others, m=m, node=others[0][1] if others else pt, fn=others[0][1] if others else pt, instance="reduce:single-site", reason=f"_reduce_tick also called in {[n for n, _ in others]}")
    mb = repo.module("workflows.plugins.basic")
    ot = mb.functions.get("InternalAsyncioAdapter.on_tick")
    rp = mb.functions.get("InternalAsyncioAdapter.replay")
    if ot is None or rp is None:
        raise AnchorError("C11.R2: InternalAsyncioAdapter.on_tick/replay not found")
    app = [c for c in ast.walk(ot) if isinstance(c, ast.Call) and isinstance(c.func, ast.Attribute) and c.func.attr == "append" and c.args and ast.unparse(c.args[0]) == param(ot, 1)]
    tgt = ast.unparse(app[0].func.value) if app else None
    ret = [r.value for r in ast.walk(rp) if isinstance(r, ast.Return) and r.value is not None]
    chk.ob("C11.R2", "the asyncio adapter appends each tick to the list replay() returns", bool(app) and bool(ret) and ast.unparse(ret[0]) == tgt, m=mb, node=ot, fn=ot, instance="asyncio:on_tick-appends", reason=f"on_tick appends to {tgt}, replay returns {ast.unparse(ret[0]) if ret else None}")

    # ---------------------------------------------------------------- R6 the log replay() pairs with init_state is this run's log
    from ..astx import facts_at, has_fact
    qcls = mb.classes.get("AsyncioAdapterQueues")
    qinit = mb.functions.get("AsyncioAdapterQueues.__init__")
    rw = mb.functions.get("BasicRuntime.run_workflow")
    if qcls is None or qinit is None or rw is None:
        raise AnchorError("C11.R6: AsyncioAdapterQueues.__init__ / BasicRuntime.run_workflow not found")
    log_attr = tgt.split(".")[-1] if tgt else "ticks"
    inits = {ast.unparse(s_.targets[0]): s_.value for s_ in ast.walk(qinit) if isinstance(s_, ast.Assign) and len(s_.targets) == 1}
    inits.update({ast.unparse(s_.target): s_.value for s_ in ast.walk(qinit) if isinstance(s_, ast.AnnAssign) and s_.value is not None})
    lv = inits.get(f"self.{log_attr}")
    chk.ob("C11.R6", "a new queues object starts with an empty tick log", lv is not None and ast.unparse(lv) in ("[]", "list()"), m=mb, node=qinit, fn=qinit, instance="log:starts-empty",
           reason=f"self.{log_attr} initialised to {ast.unparse(lv) if lv is not None else None}")
    iv = inits.get("self.init_state")
    chk.ob("C11.R6", "… and records the init_state it was created with", iv is not None and isinstance(iv, ast.Name) and iv.id in [a.arg for a in qinit.args.args], m=mb, node=qinit, fn=qinit, instance="log:init-recorded",
           reason=f"self.init_state = {ast.unparse(iv) if iv is not None else None}")
    # who else writes the log or the recorded init_state
    writers = []
    for qn, f in mb.functions.items():
        if qn in ("AsyncioAdapterQueues.__init__",):
            continue
        for x in ast.walk(f):
            if isinstance(x, ast.Attribute) and x.attr in (log_attr, "init_state") and isinstance(x.ctx, (ast.Store, ast.Del)):
                writers.append((qn, x))
            if isinstance(x, ast.Call) and isinstance(x.func, ast.Attribute) and x.func.attr in MUTATORS and isinstance(x.func.value, ast.Attribute) and x.func.value.attr == log_attr and not (qn == "InternalAsyncioAdapter.on_tick" and x.func.attr == "append"):
                writers.append((qn, x))
    chk.ob("C11.R6", "nothing but on_tick's append changes the recorded log / init_state", not writers, m=mb, node=writers[0][1] if writers else qcls, instance="log:single-writer",
           reason=f"also written in {[q for q, _ in writers]}")
    # run_workflow: the queues of the run are new (never the object of an earlier run with the same id)
    cfr = CFG(rw)
    rid, ist = param(rw, 1), param(rw, 3)
    gets = [c for c in ast.walk(rw) if isinstance(c, ast.Call) and (last(call_name(c)) or "") in ("_get_or_create_queues", "AsyncioAdapterQueues")]
    chk.floor("C11.R6", "queues acquisition sites in BasicRuntime.run_workflow", len(gets), 1)
    for c in gets:
        if last(call_name(c)) == "AsyncioAdapterQueues":
            fresh = True
            a_init = kwarg(c, "init_state", 1)
        else:
            helper = mb.functions.get("BasicRuntime._get_or_create_queues")
            if helper is None:
                raise AnchorError("C11.R6: BasicRuntime._get_or_create_queues not found")
            stores = [x for x in ast.walk(helper) if isinstance(x, ast.Subscript) and isinstance(x.ctx, ast.Store)]
            container = ast.unparse(stores[0].value) if stores else "self._queues"
            fresh = False
            for n in cfr.nodes_of(enclosing_stmt(c)):
                f = facts_at(cfr, n, expand_locals=True)
                fresh = has_fact(f, f"{rid} in {container}", False) or has_fact(f, f"{container}.get({rid}) is None", True)
            a_init = kwarg(c, "init_state", 1)
        chk.ob("C11.R6", "a run gets queues of its own: run_workflow refuses a run id that still has queues, so the helper can only create", fresh, m=mb, node=c, fn=rw, instance="log:fresh-per-run",
               reason="the queues of an earlier run with the same id (its init_state and its recorded ticks) can be reused: replay() = old init_state + old ticks + new ticks, not the live state")
        chk.ob("C11.R6", "the queues record the init_state the run starts from", a_init is not None and ast.unparse(a_init) == ist, m=mb, node=c, fn=rw, instance="log:same-init-recorded", reason=f"init_state argument is {ast.unparse(a_init) if a_init is not None else None}")
    runs = [c for c in ast.walk(rw) if isinstance(c, ast.Call) and (call_name(c) or "").endswith("workflow_run_fn")]
    chk.floor("C11.R6", "workflow_run_fn calls in run_workflow", len(runs), 1)
    for c in runs:
        chk.ob("C11.R6", "the control loop is started from the same init_state the queues recorded", bool(c.args) and ast.unparse(c.args[0]) == ist, m=mb, node=c, fn=rw, instance="log:same-init-run", reason=f"workflow_run_fn({ast.unparse(c.args[0]) if c.args else ''})")

    # ---------------------------------------------------------------- R7 the live handler's view = rebuild(init_state, whole log)
    from ..astx import dep_slice
    mx = repo.module("workflows.context.external_context")
    stf = mx.functions.get("ExternalContext._state")
    if stf is None:
        raise AnchorError("C11.R7: ExternalContext._state not found")
    rebuilds = [c for c in ast.walk(stf) if isinstance(c, ast.Call) and (last(call_name(c)) or "").startswith("rebuild_state_from_ticks")]
    chk.floor("C11.R7", "rebuild calls in ExternalContext._state", len(rebuilds), 1)
    xcls = mx.classes.get("ExternalContext")
    props = {n.name: n for n in xcls.body if isinstance(n, FuncNode)} if xcls is not None else {}
    for c in rebuilds:
        a0 = c.args[0] if c.args else kwarg(c, "state")
        a1 = c.args[1] if len(c.args) > 1 else kwarg(c, "ticks")
        # where the start state may come from: every definition that can flow into it must be `<adapter>.init_state`
        s0 = dep_slice(stf, a0) if a0 is not None else None
        srcs0 = [e for e in (s0.exprs if s0 else []) if not isinstance(e, ast.Name)]
        ok0 = bool(srcs0) and all(isinstance(e, ast.Attribute) and e.attr == "init_state" or (isinstance(e, ast.Call)) for e in srcs0) and \
            any(isinstance(e, ast.Attribute) and e.attr == "init_state" for e in srcs0) and not any(isinstance(x, ast.Attribute) and isinstance(x.value, ast.Name) and x.value.id == "self" and x.attr.startswith("_") and x.attr not in props for e in srcs0 for x in ast.walk(e))
        chk.ob("C11.R7", "ExternalContext._state starts the rebuild from the adapter's init_state (never from a state computed earlier)", ok0, m=mx, node=c, fn=stf, instance="view:from-init-state",
               reason=f"the start state may be {[ast.unparse(e)[:50] for e in srcs0]}: rebuild_state_from_ticks rewinds in-progress work first, which is only valid on the run's initial state")
        s1 = dep_slice(stf, a1) if a1 is not None else None
        srcs1 = [e for e in (s1.exprs if s1 else []) if not isinstance(e, ast.Name)]
        whole = bool(srcs1) and not any(isinstance(x, ast.Subscript) for e in srcs1 for x in ast.walk(e))
        def _is_log(e: ast.AST) -> bool:
            if isinstance(e, ast.Call) and last(call_name(e)) == "replay":
                return True
            if isinstance(e, ast.Attribute) and isinstance(e.value, ast.Name) and e.value.id == "self" and e.attr in props:
                return any(isinstance(r, ast.Return) and r.value is not None and isinstance(r.value, ast.Call) and last(call_name(r.value)) == "replay" for r in ast.walk(props[e.attr]))
            return False
        ok1 = whole and any(_is_log(e) for e in srcs1) and all(_is_log(e) or isinstance(e, ast.Call) for e in srcs1)
        chk.ob("C11.R7", "… and replays the adapter's whole recorded log", ok1, m=mx, node=c, fn=stf, instance="view:whole-log", reason=f"the replayed ticks may be {[ast.unparse(e)[:50] for e in srcs1]}")
    stores = [x for x in ast.walk(stf) if isinstance(x, ast.Attribute) and isinstance(x.ctx, ast.Store) and isinstance(x.value, ast.Name) and x.value.id == "self"]
    chk.ob("C11.R7", "ExternalContext._state keeps nothing between calls", not stores, m=mx, node=stores[0] if stores else stf, fn=stf, instance="view:stateless", reason=f"writes self.{stores[0].attr if stores else ''}")

    # ---------------------------------------------------------------- R3 decorators forward the whole interface
    for iface, deco in (("InternalRunAdapter", "BaseInternalRunAdapterDecorator"), ("ExternalRunAdapter", "BaseExternalRunAdapterDecorator")):
        im = repo.methods(f"{PLUG}:{iface}")
        dm = repo.methods(f"{DEC}:{deco}")
        md = repo.module(DEC)
        names = [n for n in im if not n.startswith("__")]
        chk.floor("C11.R3", f"{iface} interface methods", len(names), 7)
        for n in names:
            f = dm.get(n)
            ok = False
            if f is not None:
                ok = any(isinstance(c, ast.Call) and ast.unparse(c.func) == f"self._decorated.{n}" for c in ast.walk(f)) or \
                     any(isinstance(a, ast.Attribute) and ast.unparse(a) == f"self._decorated.{n}" for a in ast.walk(f))
                # arguments forwarded unchanged
                for c in ast.walk(f):
                    if isinstance(c, ast.Call) and ast.unparse(c.func) == f"self._decorated.{n}":
                        params = [a.arg for a in f.args.args[1:]]
                        passed = [ast.unparse(a) for a in c.args] + [ast.unparse(k.value) for k in c.keywords]
                        ok = ok and passed == params
            chk.ob("C11.R3", f"{deco} forwards {iface}.{n} to the wrapped adapter with its arguments", ok, m=md, node=f or md.classes[deco], fn=f, instance=f"forward:{deco}.{n}",
                   reason="method missing or not forwarded: a decorated adapter would silently fall back to the base-class default")

    # ---------------------------------------------------------------- R4 the live loop rewinds exactly when the replay does: always
    # rebuild_state_from_ticks / replay_ticks_stream rewind the recorded init state unconditionally before folding the ticks, so
    # the live runner must rewind the same init state on *every* path into its loop (with or without a start event: a context
    # continued with new input can still hold work that was in flight when the previous run ended)
    rn_ = methods["run"]
    cfgr_ = CFG(rn_)
    rew_nodes = [n for n in cfgr_.nodes if n.ast is not None and any(isinstance(x, ast.Call) and last(call_name(x)) == "rewind_in_progress" for x in exprs_in_node(n))]
    chk.floor("C11.R4", "rewind_in_progress calls in _ControlLoopRunner.run", len(rew_nodes), 1)
    loop_heads = [n for n in cfgr_.nodes if n.kind == "test" and isinstance(n.ast, ast.While)]
    skipping = [h for h in loop_heads if h in cfgr_.reach([cfgr_.entry], blocked=rew_nodes, labels_excluded=("exc", "cancel"))]
    chk.ob("C11.R4", "the live loop rewinds the in-progress work of its init state on every path into the loop (as the replay of its log does)", not skipping and bool(loop_heads), m=m,
           node=rew_nodes[0].ast if rew_nodes else rn_, fn=rn_, instance="live:rewind-always",
           reason="the main loop of run() is reachable without rewind_in_progress: on that path the live state keeps the init state's in-progress entries as they were while "
                  "rebuild_state_from_ticks (to_dict(), running_steps()) rewinds them — live and replayed state differ from the first tick on")
    # ---------------------------------------------------------------- R4 rebuild helpers use the same pipeline
    for ref in ("rebuild_state_from_ticks", "replay_ticks_stream"):
        fn = m.functions.get(ref)
        if fn is None:
            raise AnchorError(f"C11.R4: {ref} not found")
        c2 = CFG(fn)
        rew = [n for n in c2.nodes if n.ast is not None and any(isinstance(x, ast.Call) and last(call_name(x)) == "rewind_in_progress" for x in exprs_in_node(n))]
        rd = [n for n in c2.nodes if n.ast is not None and any(isinstance(x, ast.Call) and last(call_name(x)) == "_reduce_tick" for x in exprs_in_node(n))]
        chk.ob("C11.R4", f"{ref} rewinds in-progress work before replaying (as run() does)", bool(rew) and all(x not in c2.reach([c2.entry], blocked=rew) for x in rd), m=m, node=fn, fn=fn, instance=f"replay:{ref}:rewind-first", reason="a _reduce_tick is reachable before rewind_in_progress")
        loops = [l for l in ast.walk(fn) if isinstance(l, (ast.For, ast.AsyncFor)) and any(isinstance(x, ast.Call) and last(call_name(x)) == "_reduce_tick" for x in ast.walk(l))]
        tp = param(fn, 1)
        ok = bool(loops) and all(ast.unparse(l.iter) == tp for l in loops)
        chk.ob("C11.R4", f"{ref} folds _reduce_tick over the ticks in log order", ok, m=m, node=fn, fn=fn, instance=f"replay:{ref}:log-order", reason=f"iterates `{ast.unparse(loops[0].iter) if loops else None}`")
        for l in loops:
            for c in ast.walk(l):
                if isinstance(c, ast.Call) and last(call_name(c)) == "_reduce_tick":
                    st = enclosing_stmt(c)
                    threads = isinstance(st, ast.Assign) and isinstance(st.targets[0], ast.Tuple) and ast.unparse(st.targets[0].elts[0]) == ast.unparse(c.args[1]) and ast.unparse(c.args[0]) == ast.unparse(l.target)
                    chk.ob("C11.R4", f"{ref} threads the state through the fold", threads, m=m, node=c, fn=fn, instance=f"replay:{ref}:threads-state", reason=ast.unparse(st)[:80])

    # ---------------------------------------------------------------- R5 reducer purity
    closure = _reducer_closure(repo)
    chk.floor("C11.R5", "functions reachable from _reduce_tick", len(closure), 8)
    for name, fn in sorted(closure.items()):
        bad = []
        for n in ast.walk(fn):
            if isinstance(n, (ast.Await, ast.AsyncFor, ast.AsyncWith, ast.Yield, ast.YieldFrom, ast.Global, ast.Nonlocal)):
                bad.append(type(n).__name__)
            if isinstance(n, ast.Call):
                cn = call_name(n) or ""
                if any(cn == p.rstrip(".") or cn.startswith(p) for p in IMPURE if p.endswith(".")) or cn in ("open", "print", "input"):
                    if not cn.startswith("datetime.fromtimestamp") and cn not in ("asyncio.iscoroutinefunction",):
                        bad.append(cn)
        chk.ob("C11.R5", f"{name} is pure (no clock, randomness, I/O or suspension)", not bad, m=m, node=fn, fn=fn, instance=f"pure:{name}", reason=f"impure constructs: {sorted(set(bad))}")
        # no mutation through the incoming state / tick parameters
        params = [a.arg for a in fn.args.args if a.arg in ("init", "tick")]
        muts = []
        for n in ast.walk(fn):
            for p in params:
                if isinstance(n, ast.Attribute) and isinstance(n.ctx, (ast.Store, ast.Del)) and (ast.unparse(n).startswith(p + ".")):
                    muts.append(ast.unparse(n))
                if isinstance(n, ast.Call) and isinstance(n.func, ast.Attribute) and n.func.attr in MUTATORS and ast.unparse(n.func.value).startswith(p + "."):
                    muts.append(ast.unparse(n)[:50])
        chk.ob("C11.R5", f"{name} does not mutate its input state or tick", not muts, m=m, node=fn, fn=fn, instance=f"no-input-mutation:{name}", reason=f"writes through parameters: {muts[:3]}")
        if "init" in [a.arg for a in fn.args.args]:
            returns_init = all(isinstance(r.value, ast.Tuple) and ast.unparse(r.value.elts[0]) in ("init", "state") for r in ast.walk(fn) if isinstance(r, ast.Return) and r.value is not None)
            copies = any(isinstance(s, ast.Assign) and ast.unparse(s.value) == "init.deepcopy()" for s in walk_shallow(fn))
            writes_state = any(isinstance(n, ast.Attribute) and isinstance(n.ctx, ast.Store) and ast.unparse(n).startswith("state.") for n in ast.walk(fn)) or any(
                isinstance(n, ast.Call) and last(call_name(n)) == "_add_or_enqueue_event" for n in ast.walk(fn))
            chk.ob("C11.R5", f"{name} works on a copy of the incoming state whenever it changes it", copies or not writes_state, m=m, node=fn, fn=fn, instance=f"copy-before-write:{name}", reason="state is modified without `init.deepcopy()`")

    # rewind_in_progress (the first stage of both the live start-up and every replay) must leave the state it is given untouched:
    # BasicRuntime records the very object the loop starts from as init_state, and replay() rewinds that object again
    rw_fn = m.functions.get("rewind_in_progress")
    if rw_fn is None:
        raise AnchorError("C11.R5: rewind_in_progress not found")
    p0 = param(rw_fn, 0)
    copies_first = any(isinstance(s_, ast.Assign) and isinstance(s_.value, ast.Call) and ast.unparse(s_.value.func) == f"{p0}.deepcopy" for s_ in rw_fn.body[:3])
    sites = [(qn_, c_) for mod_ in repo.by_rel.values() if mod_.name.startswith("workflows") or mod_.name.startswith("llama_agents") for qn_, f_ in mod_.functions.items() for c_ in ast.walk(f_)
             if isinstance(c_, ast.Call) and last(call_name(c_)) == "rewind_in_progress" and c_.args]
    not_copied = [(qn_, c_) for qn_, c_ in sites if not (isinstance(c_.args[0], ast.Call) and last(call_name(c_.args[0])) in ("deepcopy", "copy"))]
    chk.floor("C11.R5", "call sites of rewind_in_progress", len(sites), 2)
    chk.ob("C11.R5", "rewind_in_progress works on a copy of the state it is given (or every caller hands it a copy): the recorded init_state is never rewound in place", copies_first or not not_copied,
           m=m, node=rw_fn, fn=rw_fn, instance="copy-before-write:rewind_in_progress",
           reason=f"rewind_in_progress mutates its argument and {[q for q, _ in not_copied][:3]} pass their own state object: the live start-up rewinds the object that is also recorded as init_state, and every replay rewinds it again (worker ids swap)")
    # now_seconds may only become a timestamp
    add = m.functions.get("_add_or_enqueue_event")
    sr = m.functions.get("_process_step_result_tick")
    if add is None or sr is None:
        raise AnchorError("C11.R5: reducer helpers not found")
    tainted_fields = set()
    for c in ast.walk(add):
        if isinstance(c, ast.keyword) and any(isinstance(x, ast.Name) and x.id == "now_seconds" for x in ast.walk(c.value)):
            tainted_fields.add(c.arg)
    direct = []
    for name, fn in closure.items():
        for n in ast.walk(fn):
            if isinstance(n, (ast.If, ast.While, ast.IfExp)) and any(isinstance(x, ast.Name) and x.id == "now_seconds" for x in ast.walk(n.test)):
                direct.append(f"{name}:{n.lineno}")
    chk.ob("C11.R5", "now_seconds is not tested directly by any reducer", not direct, m=m, node=m.functions["_reduce_tick"], fn=m.functions["_reduce_tick"], instance="now-seconds:no-direct-test", reason=f"tested at {direct}")
    # flow through the timestamp field into policy code / decisions
    flows = []
    for n in ast.walk(sr):
        if isinstance(n, ast.Call) and isinstance(n.func, ast.Attribute) and n.func.attr == "next":
            for a in n.args:
                e = expand(a, n, depth=2, stop=("this_execution", "result"))
                if any(isinstance(x, ast.Attribute) and x.attr in tainted_fields for x in ast.walk(e)):
                    flows.append((n, ast.unparse(e)))
    for n, txt in flows:
        chk.ob("C11.R5", "a value derived from now_seconds does not reach the user's retry policy (whose answer decides retry vs. failure)", False, m=m, node=n, fn=sr, instance="now-seconds:reaches-policy",
               reason=f"`{txt}` (first_attempt_at ← now_seconds) is passed to retries.next; replay helpers pass time.time(), so a rebuilt state can differ from the live one for stop_after_delay-style policies (the code calls this a 'somewhat broken kludge')")
    if not flows:
        chk.ob("C11.R5", "no value derived from now_seconds reaches the user's retry policy", True, m=m, node=sr, fn=sr, instance="now-seconds:reaches-policy")


TWINS = [
    Twin("replay stops at the first exit-shaped command", CL_REL, "                exit_command = command\n    return ReplayResult(state=state, exit_command=exit_command)\n", "                exit_command = command\n        if exit_command is not None:\n            break\n    return ReplayResult(state=state, exit_command=exit_command)\n", "C11.R4"),
    Twin("live loop rewinds only when there is no start event", CL_REL, "        self.state, commands = rewind_in_progress(self.state, start)\n", "        commands: list[WorkflowCommand] = []\n        if start_event is None:\n            self.state, commands = rewind_in_progress(self.state, start)\n", "C11.R4"),
    Twin("benign: rewind result bound through a local pair", CL_REL, "        self.state, commands = rewind_in_progress(self.state, start)\n", "        rewound = rewind_in_progress(self.state, start)\n        self.state, commands = rewound\n", None),
    Twin("cancelled worker's slot freed in the live state through a local alias", CL_REL, "                    self._task_keys.pop(completed_task, None)\n",
         "                    _key = self._task_keys.pop(completed_task, None)\n                    if _key is not None and completed_task.cancelled():\n                        _ws = self.state.workers[_key[0]]\n                        _ws.in_progress = [w for w in _ws.in_progress if w.worker_id != _key[1]]\n", "C11.R1"),
    Twin("live state patched through a loop variable", CL_REL, "                    self._task_keys.pop(completed_task, None)\n",
         "                    self._task_keys.pop(completed_task, None)\n                    for _ws in self.state.workers.values():\n                        _ws.collected_waiters.clear()\n", "C11.R1"),
    Twin("benign: live state read through a local alias", CL_REL, "                    self._task_keys.pop(completed_task, None)\n",
         "                    _key = self._task_keys.pop(completed_task, None)\n                    if _key is not None:\n                        _ws = self.state.workers[_key[0]]\n                        logger.debug(\"%d in progress\", len(_ws.in_progress))\n", None),
    Twin("rewind mutates the state it is given", CL_REL, "    state = state.deepcopy()\n    commands: list[WorkflowCommand] = []\n    for step_name, step_state in sorted(state.workers.items(), key=lambda x: x[0]):", "    commands: list[WorkflowCommand] = []\n    for step_name, step_state in sorted(state.workers.items(), key=lambda x: x[0]):", "C11.R5"),
    Twin("live view replays incrementally on a cached state", "packages/llama-index-workflows/src/workflows/context/external_context.py", "        state = snapshottable.init_state\n        new_state = rebuild_state_from_ticks(state, ticks)\n        return new_state", "        applied, state = getattr(self, \"_replayed\", None) or (0, snapshottable.init_state)\n        new_state = rebuild_state_from_ticks(state, ticks[applied:])\n        self._replayed = (len(ticks), new_state)\n        return new_state", "C11.R7"),
    Twin("live view skips the first tick", "packages/llama-index-workflows/src/workflows/context/external_context.py", "        new_state = rebuild_state_from_ticks(state, ticks)", "        new_state = rebuild_state_from_ticks(state, ticks[1:])", "C11.R7"),
    Twin("benign: live view without temporaries", "packages/llama-index-workflows/src/workflows/context/external_context.py", "        ticks = self._tick_log\n        snapshottable = self._require_snapshottable()\n        state = snapshottable.init_state\n        new_state = rebuild_state_from_ticks(state, ticks)\n        return new_state", "        return rebuild_state_from_ticks(self._require_snapshottable().init_state, self._tick_log)", None),
    Twin("finished run id reusable", BASIC_REL, "        if run_id in self._queues:\n            # not supported", "        previous = self._queues.get(run_id)\n        if previous is not None and not previous.complete.done():\n            # not supported", "C11.R6"),
    Twin("log not fresh", BASIC_REL, "        self.ticks: list[WorkflowTick] = []", "        self.ticks: list[WorkflowTick] = _SHARED_TICKS", "C11.R6"),
    Twin("loop started from another state", BASIC_REL, "                return await registered.workflow_run_fn(\n                    init_state, start_event, captured_tags", "                return await registered.workflow_run_fn(\n                    init_state.deepcopy(), start_event, captured_tags", "C11.R6"),
    Twin("benign: guard via get", BASIC_REL, "        if run_id in self._queues:\n            # not supported", "        if self._queues.get(run_id) is not None:\n            # not supported", None),
    Twin("state patched outside reducer", CL_REL, "                completed_task = result.completed\n", "                completed_task = result.completed\n                self.state.is_running = True\n", "C11.R1"),
    Twin("state from a copy", CL_REL, "        self.state, commands = rewind_in_progress(self.state, start)", "        self.state, commands = rewind_in_progress(self.state, start)\n        self.state = self.state.deepcopy()", "C11.R1"),
    Twin("commands before record", CL_REL, "        await self.adapter.on_tick(tick)\n\n        for command in commands:", "        for command in commands[:1]:\n            await self.process_command(command)\n        await self.adapter.on_tick(tick)\n\n        for command in commands[1:]:", "C11.R2"),
    Twin("idle checks not recorded", CL_REL, "        await self.adapter.on_tick(tick)\n", "        if not isinstance(tick, TickIdleCheck):\n            await self.adapter.on_tick(tick)\n", "C11.R2"),
    Twin("decorator drops after_tick", DEC_REL, "    async def after_tick(self, tick: WorkflowTick) -> None:\n        await self._decorated.after_tick(tick)\n\n", "", "C11.R3"),
    Twin("decorator swallows on_tick", DEC_REL, "    async def on_tick(self, tick: WorkflowTick) -> None:\n        await self._decorated.on_tick(tick)", "    async def on_tick(self, tick: WorkflowTick) -> None:\n        return None", "C11.R3"),
    Twin("rebuild skips rewind", CL_REL, "    state, _ = rewind_in_progress(state, time.time())\n\n    # Replay ticks to rebuild state", "    # Replay ticks to rebuild state", "C11.R4"),
    Twin("replay reversed", CL_REL, "    for tick in ticks:\n        state, _ = _reduce_tick(", "    for tick in reversed(ticks):\n        state, _ = _reduce_tick(", "C11.R4"),
    Twin("reducer reads the clock", CL_REL, "    state = init.deepcopy()\n    state.is_running = False\n    active_steps = [", "    state = init.deepcopy()\n    state.is_running = time.time() < 0\n    active_steps = [", "C11.R5"),
    Twin("reducer mutates input", CL_REL, "def _process_cancel_run_tick(\n    tick: TickCancelRun, init: BrokerState\n) -> tuple[BrokerState, list[WorkflowCommand]]:\n    state = init.deepcopy()", "def _process_cancel_run_tick(\n    tick: TickCancelRun, init: BrokerState\n) -> tuple[BrokerState, list[WorkflowCommand]]:\n    init.is_running = False\n    state = init.deepcopy()", "C11.R5"),
    Twin("reducer skips copy", CL_REL, "    state = init.deepcopy()\n    commands: list[WorkflowCommand] = []\n    if tick.step_name not in state.workers:", "    state = init\n    commands: list[WorkflowCommand] = []\n    if tick.step_name not in state.workers:", "C11.R5"),
    Twin("benign: on_tick result ignored explicitly", CL_REL, "        await self.adapter.on_tick(tick)\n\n        for command in commands:", "        _ = await self.adapter.on_tick(tick)\n\n        for command in commands:", None),
]
