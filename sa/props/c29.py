"""C29 — stream merge and sorted-prefix utilities preserve items and order.

Decided (necessary conditions visible in the shape of the two generators):
  R1  debounced_sorted_prefix is a two-state machine (buffering -> flushed).  A passthrough `yield` is legal only
      in state *flushed*; the fact that guards it must be established by the flush branch of this very coroutine
      (a constant local flag set there, or control flow that reaches the yield only through the flush).
  R2  merge_generators: a value taken from a finished source task is collected and yielded without a conditional
      skip, the collection is fresh per round, and a stored source exception is re-raised after the cleanup.
  R3  the flush sorts the whole buffer by the caller's key, yields every buffered element, resets the buffer only
      afterwards, and every non-sentinel item of the merged stream is either buffered or yielded.
  R4  merge_generators, ownership of the pending-task table (the dict that holds one `anext` task per source): inside the
      round loop an entry leaves the table only (a) by a keyed removal whose key is derived from this round's
      `asyncio.wait` result (directly, or through the list the fetched values were collected in), or (b) by a removal
      that selects on the run state of the tasks (`.done()` / `.cancelled()`), and then only where no suspension point
      (`yield` / `await` other than the wait itself) lies between the wait and the removal.  After a suspension "done"
      no longer means "reported by the wait and examined": a task that finished while the consumer held the yielded item
      would be dropped with its item, its source's later items, or its error.
Not decided: the timing of the debounce window, fairness of asyncio.wait, behaviour when the consumer closes the
generator early, sources that raise BaseException.
"""

from __future__ import annotations

import ast

from ..astx import assigned_names, atoms, call_name, dep_slice, dotted, expand, facts_at, is_suspension, last
from ..cfg import CFG, Node, exprs_in_node
from ..index import repo_root, AnchorError, ancestors, walk_shallow
from ..selftest import Twin

EXPLANATION = (
    "Static typestate / value-flow rules over llama_agents/core/iter_utils.py.  "
    "R1 (typestate): in debounced_sorted_prefix every `yield` outside the flush loop (a passthrough) must be reachable only "
    "after the flush, either by control flow (every CFG path to it passes the sort/flush) or under a local boolean flag whose "
    "every assignment is a constant, which is initialised to the opposite value on every path, and whose passthrough value is "
    "assigned only in the flush branch.  A guard that reads state another task writes (e.g. `debouncer.is_complete`, set by "
    "Debouncer._loop before the sentinel travels through merge_generators) is not such a fact: an item that arrives in that "
    "window is yielded before the sorted burst.  "
    "R3: the flush loop iterates exactly the buffer (or sorted(buffer,…)), yields its loop variable on every iteration, the sort "
    "uses the caller's `key` and no reverse, a reset of the buffer is reachable only through the completed flush loop, and every "
    "path through the body of the merged-stream loop appends, yields or flushes.  "
    "R2: in merge_generators every normal path from `task.result()` reaches an append/yield of that value; the collecting list is "
    "re-created before the appends of each round, is iterated by a loop that yields on every iteration, and every path from an "
    "append to the function exit or the next round passes that loop (paths that exist only under an opt-in keyword parameter "
    "defaulting to False are reported as an observation); a handler that catches a source's exception leads to a `raise` on every "
    "normal path to the exit (path-sensitive on `<stored exception> is None`).  "
    "R4 (ownership of the pending-task table of merge_generators = the local dict whose entries are create_task(...) results and "
    "whose values are handed to asyncio.wait): every removal that lies inside the round loop (reachable from the wait and able to "
    "reach it again) is classified by what selects the removed entries.  A keyed removal (pop / del) must take its key from this "
    "round's wait result, directly or through the list the fetched values were collected in (may-dependence slice that stops at the "
    "table itself); a key that does not depend on which tasks finished removes a task whose outcome nobody took.  A removal that "
    "selects on the tasks' run state (`.done()` / `.cancelled()` in the filter of a rebinding comprehension, in the slice of the key, "
    "or in a test that guards the removal) must not be reachable from a suspension point (`yield`, `await`, async for/with other than "
    "the wait) without passing the wait again: between the wait and the first suspension `done()` equals membership in the wait's "
    "result, after a suspension it also covers tasks that finished meanwhile and were never examined, so their item, their source's "
    "later items, or their error are lost.  Other bulk removals inside the round loop are not understood (analysis error).  "
    "Not decided: timing of the window, which completion asyncio.wait reports first, early close by the consumer."
)
TRUSTED = ["CPython ast", "asyncio.wait / Task.result semantics", "sa.cfg statement CFG (finally bodies duplicated per continuation)"]
TECHNIQUE = "typestate over the statement CFG with path sensitivity on monotone local flags"
LEVEL_NOTE = "necessary conditions only; the window race itself is a schedule property confirmed dynamically (triage/t_srv.py::c29)"

MOD = "llama_agents.core.iter_utils"
NOEXC = ("exc", "cancel")


# ------------------------------------------------------------------------------------------- small helpers


def _yield_nodes(cfg: CFG) -> list[tuple[Node, ast.Yield]]:
    out = []
    for n in cfg.nodes:
        if n.ast is None:
            continue
        for x in exprs_in_node(n):
            if isinstance(x, ast.Yield):
                out.append((n, x))
    return out


def _calls_in(n: Node) -> list[ast.Call]:
    return [x for x in exprs_in_node(n) if isinstance(x, ast.Call)]


def _params(fn: ast.AST) -> set[str]:
    a = fn.args
    names = {p.arg for p in a.posonlyargs + a.args + a.kwonlyargs}
    if a.vararg:
        names.add(a.vararg.arg)
    if a.kwarg:
        names.add(a.kwarg.arg)
    return names


def _optin_params(fn: ast.AST) -> set[str]:
    """Keyword parameters whose default is the constant False (behaviour the caller must opt into)."""
    out = set()
    a = fn.args
    for p, d in zip(a.kwonlyargs, a.kw_defaults):
        if isinstance(d, ast.Constant) and d.value is False:
            out.add(p.arg)
    pos = a.posonlyargs + a.args
    for p, d in zip(pos[len(pos) - len(a.defaults):], a.defaults):
        if isinstance(d, ast.Constant) and d.value is False:
            out.add(p.arg)
    return out


def _inside(node: ast.AST, container: ast.AST) -> bool:
    return any(a is container for a in ancestors(node))


def _name_assignments(fn: ast.AST, name: str) -> list[ast.AST]:
    """Every statement / expression that (re)binds ``name`` in fn (nested defs excluded)."""
    out = []
    for s in walk_shallow(fn):
        if isinstance(s, (ast.Assign, ast.AnnAssign, ast.AugAssign, ast.For, ast.AsyncFor, ast.With, ast.AsyncWith, ast.NamedExpr, ast.Delete, ast.ExceptHandler)):
            if isinstance(s, ast.ExceptHandler):
                if s.name == name:
                    out.append(s)
                continue
            targets: list[ast.AST] = []
            if isinstance(s, ast.Assign):
                targets = list(s.targets)
            elif isinstance(s, (ast.AnnAssign, ast.AugAssign, ast.NamedExpr)):
                if isinstance(s, ast.AnnAssign) and s.value is None:
                    continue
                targets = [s.target]
            elif isinstance(s, (ast.For, ast.AsyncFor)):
                targets = [s.target]
            elif isinstance(s, (ast.With, ast.AsyncWith)):
                targets = [i.optional_vars for i in s.items if i.optional_vars is not None]
            elif isinstance(s, ast.Delete):
                targets = list(s.targets)
            for t in targets:
                if any(isinstance(x, ast.Name) and x.id == name for x in ast.walk(t)):
                    out.append(s)
                    break
    return out


def _const_bool_assign(s: ast.AST, name: str) -> bool | None:
    """Value of `name = True/False` (plain or annotated, single target); None for any other binding."""
    if isinstance(s, ast.Assign) and len(s.targets) == 1 and isinstance(s.targets[0], ast.Name) and s.targets[0].id == name:
        v = s.value
    elif isinstance(s, ast.AnnAssign) and isinstance(s.target, ast.Name) and s.target.id == name:
        v = s.value
    else:
        return None
    if isinstance(v, ast.Constant) and isinstance(v.value, bool):
        return v.value
    return None


def _fact_edges(cfg: CFG, text: str, polarity: bool = True) -> list[tuple[Node, str]]:
    """Branch edges on which the normalised atom ``text`` is known with ``polarity``."""
    want = atoms(ast.parse(text, mode="eval").body, polarity)
    out = []
    for n in cfg.nodes:
        if n.kind != "test":
            continue
        for lab in ("T", "F"):
            got = atoms(n.ast.test, lab == "T")
            if all(w in got for w in want):
                out.append((n, lab))
    return out


def _lines(path: list[Node]) -> list[str]:
    return [f"{n.kind}@{n.line}{n.tag}" for n in path if n.ast is not None][:14]


# ------------------------------------------------------------------------------------------- R1 + R3


def _bind_buffer(fn: ast.AST) -> str:
    appended, sorted_ = set(), set()
    for c in walk_shallow(fn):
        if not isinstance(c, ast.Call):
            continue
        if isinstance(c.func, ast.Attribute) and isinstance(c.func.value, ast.Name):
            if c.func.attr in ("append", "extend", "insert"):
                appended.add(c.func.value.id)
            if c.func.attr == "sort":
                sorted_.add(c.func.value.id)
        if call_name(c) == "sorted" and c.args and isinstance(c.args[0], ast.Name):
            sorted_.add(c.args[0].id)
    cands = sorted(appended & sorted_)
    if len(cands) != 1:
        raise AnchorError(f"C29: cannot bind the burst buffer of debounced_sorted_prefix (locals both appended to and sorted: {cands})")
    return cands[0]


def _flag_status(fn: ast.AST, cfg: CFG, name: str, want: bool, flush_nodes: list[Node], ynode: Node, loop_heads: list[Node]) -> tuple[bool, str, str]:
    """Is local ``name`` a monotone flag that takes value ``want`` only in the flush branch?"""
    if name in _params(fn):
        return False, "guard-is-a-parameter", f"`{name}` is a parameter, not a fact established by the flush branch"
    binds = _name_assignments(fn, name)
    if not binds:
        return False, "guard-reads-foreign-state", f"`{name}` is not a local of this coroutine"
    vals = []
    for s in binds:
        v = _const_bool_assign(s, name)
        if v is None:
            return False, "flag-not-constant", f"flag `{name}` is assigned a non-constant value (`{ast.unparse(s)[:70]}`): it mirrors state written elsewhere"
        vals.append((s, v))
    sets = [(s, n) for s, v in vals if v is want for n in cfg.nodes_of(s)]
    if not sets:
        return False, "flag-never-set", f"flag `{name}` never becomes {want}: items after the flush would be buffered forever"
    for s, n in sets:
        dominated = not cfg.must_pass([cfg.entry], [n], flush_nodes)
        tied = not cfg.must_pass([n], loop_heads + [cfg.exit], flush_nodes, labels_excluded=NOEXC, include_starts=False)
        if not (dominated or tied):
            return False, "flag-set-outside-flush", f"`{name} = {want}` at line {n.line} is reachable without passing the flush of the buffer"
    inits = [n for s, v in vals if v is (not want) for n in cfg.nodes_of(s)]
    if not inits or cfg.must_pass([cfg.entry], [ynode], inits):
        return False, "flag-uninitialised", f"flag `{name}` is not initialised to {not want} on every path to the passthrough"
    return True, "", ""


def _r1_r3(chk, m, fn) -> None:
    if not isinstance(fn, ast.AsyncFunctionDef):
        raise AnchorError("C29: debounced_sorted_prefix is no longer an async generator function")
    cfg = CFG(fn)
    buf = _bind_buffer(fn)
    # merged-stream loops: async for <item> in <merge_generators(...)>
    merged_loops = []
    for s in walk_shallow(fn):
        if isinstance(s, ast.AsyncFor):
            it = expand(s.iter, s)
            if any(isinstance(c, ast.Call) and last(call_name(c)) == "merge_generators" for c in ast.walk(it)):
                merged_loops.append(s)
    chk.floor("C29.R1", "loops over the merged (inner + debouncer) stream", len(merged_loops), 1)
    loop_heads = [n for s in merged_loops for n in cfg.nodes_of(s)]
    item_names = {x.id for s in merged_loops for x in ast.walk(s.target) if isinstance(x, ast.Name)}

    # flush: the sort of the buffer, the loop that yields it
    sort_calls = []
    for c in walk_shallow(fn):
        if isinstance(c, ast.Call):
            if isinstance(c.func, ast.Attribute) and c.func.attr == "sort" and dotted(c.func.value) == buf:
                sort_calls.append(c)
            elif call_name(c) == "sorted" and c.args and dotted(c.args[0]) == buf:
                sort_calls.append(c)
    flush_nodes = [n for c in sort_calls for n in cfg.node_of_containing(c)]
    if not flush_nodes:
        raise AnchorError("C29: sort of the burst buffer not found on the CFG")
    flush_loops = [s for s in walk_shallow(fn) if isinstance(s, (ast.For, ast.AsyncFor)) and s not in merged_loops
                   and any(isinstance(x, ast.Name) and x.id == buf for e in (s.iter, expand(s.iter, s, depth=1)) for x in ast.walk(e))
                   and any(isinstance(x, ast.Yield) for b in s.body for x in ast.walk(b))]
    chk.floor("C29.R3", "flush loops (iterate the buffer and yield)", len(flush_loops), 1)

    ynodes = _yield_nodes(cfg)
    passthrough = [(n, y) for n, y in ynodes if not any(_inside(y, fl) for fl in flush_loops)]
    chk.floor("C29.R1", "passthrough yields", len(passthrough), 1)

    # ------------------------------------------------------------ R1
    for n, y in passthrough:
        off = cfg.must_pass([cfg.entry], [n], flush_nodes)
        if not off:
            chk.ob("C29.R1", "passthrough yield is reachable only through the flush of the sorted burst (control flow)", True,
                   m=m, node=y, fn=fn, instance="passthrough")
            continue
        raw = facts_at(cfg, n, expand_locals=False)
        flag_results = []
        foreign = []
        mixed = []
        for text, pol in sorted(raw):
            e = ast.parse(text, mode="eval").body
            names = {x.id for x in ast.walk(e) if isinstance(x, ast.Name)}
            if isinstance(e, ast.Constant):
                continue
            if isinstance(e, ast.Name):
                flag_results.append((text, pol) + _flag_status(fn, cfg, text, pol, flush_nodes, n, loop_heads))
                continue
            if isinstance(e, ast.BoolOp) and any(isinstance(v, ast.Name) and _name_assignments(fn, v.id) for v in ast.walk(e)):
                mixed.append(("" if pol else "not ") + text)
                continue
            if isinstance(e, ast.Compare) and len(e.ops) == 1 and isinstance(e.ops[0], (ast.Is, ast.Eq)) and isinstance(e.left, ast.Name) \
                    and isinstance(e.comparators[0], ast.Constant) and isinstance(e.comparators[0].value, bool):
                v = e.comparators[0].value if pol else not e.comparators[0].value
                flag_results.append((e.left.id, v) + _flag_status(fn, cfg, e.left.id, v, flush_nodes, n, loop_heads))
                continue
            # atoms over the stream item and constants only (the sentinel test) say nothing about the state
            if names and names <= item_names and not any(isinstance(x, (ast.Attribute, ast.Call)) for x in ast.walk(e)):
                continue
            foreign.append(("" if pol else "not ") + text)
        good = [r for r in flag_results if r[2]]
        if good:
            chk.ob("C29.R1", f"passthrough yield is guarded by the local flag `{good[0][0]}` that only the flush branch sets to {good[0][1]}", True,
                   m=m, node=y, fn=fn, instance="passthrough")
            continue
        if flag_results:
            mode, reason = flag_results[0][3], flag_results[0][4]
        elif mixed:
            mode = "flag-or-foreign-state"
            reason = f"the guard `{mixed[0][:100]}` lets the passthrough happen on foreign state alone (a disjunction with the local flag)"
        elif foreign:
            mode = "guard-reads-foreign-state"
            reason = (f"the only guard is `{'; '.join(foreign)[:120]}`: state that another task sets (not a fact established by the flush branch), "
                      "so an item arriving after it is set but before the sentinel is delivered is yielded before the sorted burst")
        else:
            mode, reason = "unguarded", "a stream item can be yielded while the burst is still being buffered"
        p = cfg.path(cfg.entry, n, blocked=flush_nodes)
        chk.ob("C29.R1", "passthrough yield happens only in state `flushed` (fact established by the flush branch of this coroutine)", False,
               m=m, node=y, fn=fn, instance=f"passthrough:{mode}", reason=reason, path=_lines(p))

    # ------------------------------------------------------------ R3
    # the caller's key function: a parameter of the generator other than the stream and the two window lengths
    key_params = {p.arg for p in fn.args.kwonlyargs + fn.args.args if "Callable" in (ast.unparse(p.annotation) if p.annotation is not None else "") or p.arg == "key"}
    if not key_params:
        raise AnchorError("C29.R3: debounced_sorted_prefix has no key-function parameter")
    for c in sort_calls:
        kv = next((k.value for k in c.keywords if k.arg == "key"), None)
        rev = next((k.value for k in c.keywords if k.arg == "reverse"), None)
        ok = isinstance(kv, ast.Name) and kv.id in key_params and (rev is None or (isinstance(rev, ast.Constant) and not rev.value))
        chk.ob("C29.R3", "the burst is sorted ascending by the caller's key", ok, m=m, node=c, fn=fn, instance="sort-key",
               reason=f"sort call `{ast.unparse(c)[:80]}` does not sort ascending by the caller's key function {sorted(key_params)}")
    for fl in flush_loops:
        it = fl.iter
        whole = (isinstance(it, ast.Name) and it.id == buf) or (isinstance(it, ast.Call) and call_name(it) == "sorted" and it.args and dotted(it.args[0]) == buf)
        if not whole:
            ex = expand(it, fl)
            whole = (isinstance(ex, ast.Call) and call_name(ex) == "sorted" and ex.args and dotted(ex.args[0]) == buf)
        chk.ob("C29.R3", "the flush loop iterates the whole buffer", bool(whole), m=m, node=fl, fn=fn, instance="flush-iter",
               reason=f"flush iterates `{ast.unparse(it)[:60]}`, not the whole buffer")
        heads = cfg.nodes_of(fl)
        tgt_names = {x.id for x in ast.walk(fl.target) if isinstance(x, ast.Name)}
        ys = [n for n, y in ynodes if _inside(y, fl) and isinstance(y.value, ast.Name) and y.value.id in tgt_names]
        for h in heads:
            starts = [t for lab, t in cfg.succ[h] if lab == "loop"]
            skip = cfg.must_pass(starts, [h], ys, labels_excluded=NOEXC) if ys else [h]
            chk.ob("C29.R3", "every buffered element is yielded by the flush loop (no conditional skip)", not skip, m=m, node=fl, fn=fn,
                   instance="flush-yield", reason="an iteration of the flush loop can complete without yielding its element")
        # sort precedes the flush loop
        for h in heads:
            inline = any(isinstance(x, ast.Call) and call_name(x) == "sorted" for x in ast.walk(fl.iter))
            unsorted = [] if inline else cfg.must_pass([cfg.entry], [h], flush_nodes)
            chk.ob("C29.R3", "the buffer is sorted before it is flushed", not unsorted, m=m, node=fl, fn=fn, instance="sort-before-flush",
                   reason="the flush loop is reachable without passing the sort")
    # resets of the buffer only after the completed flush loop
    append_nodes = [n for n in cfg.nodes for c in _calls_in(n)
                    if isinstance(c.func, ast.Attribute) and c.func.attr in ("append", "extend", "insert") and dotted(c.func.value) == buf]
    chk.floor("C29.R3", "buffering sites (append to the buffer)", len(append_nodes), 1)
    after_append = cfg.reach(append_nodes, include_starts=False)
    resets = []
    for n in cfg.nodes:
        if n.ast is None or n.kind != "stmt":
            continue
        s = n.ast
        is_reset = False
        if isinstance(s, (ast.Assign, ast.AnnAssign)) and buf in assigned_names(s) and getattr(s, "value", None) is not None:
            is_reset = True
        if isinstance(s, ast.Delete) and any(isinstance(x, ast.Name) and x.id == buf for x in ast.walk(s)):
            is_reset = True
        for c in _calls_in(n):
            if isinstance(c.func, ast.Attribute) and c.func.attr in ("clear", "pop", "remove", "popleft") and dotted(c.func.value) == buf:
                is_reset = True
        if is_reset and n in after_append:
            resets.append(n)
    done_edges = [(h, "done") for fl in flush_loops for h in cfg.nodes_of(fl)]
    for r in resets:
        early = r in cfg.reach([cfg.entry], blocked_edges=done_edges)
        chk.ob("C29.R3", "the buffer is reset only after the flush loop has yielded all of it", not early, m=m, node=r.ast, fn=fn,
               instance="buffer-reset", reason="the buffer can be emptied before its elements were yielded (burst lost)")
    # every merged item is buffered, yielded or the sentinel
    consume = append_nodes + [n for n, _y in passthrough] + flush_nodes
    sentinel_edges: list[tuple[Node, str]] = []
    for t in [n for n in cfg.nodes if n.kind == "test"]:
        for lab in ("T", "F"):
            for text, pol in atoms(t.ast.test, lab == "T"):
                e = ast.parse(text, mode="eval").body
                if pol and isinstance(e, ast.Compare) and len(e.ops) == 1 and isinstance(e.ops[0], (ast.Eq, ast.Is)):
                    sides = [e.left, e.comparators[0]]
                    if any(isinstance(x, ast.Name) and x.id in item_names for x in sides) and any(isinstance(x, ast.Constant) or (isinstance(x, ast.Name) and x.id.isupper()) for x in sides):
                        sentinel_edges.append((t, lab))
    for s in merged_loops:
        for h in cfg.nodes_of(s):
            starts = [t for lab, t in cfg.succ[h] if lab == "loop"]
            dropped = [h] if h in cfg.reach(starts, blocked=consume, blocked_edges=sentinel_edges, labels_excluded=NOEXC) else []
            p = cfg.path(starts[0], h, blocked=consume, labels_excluded=NOEXC) if dropped and starts else []
            chk.ob("C29.R3", "every item of the merged stream is buffered, yielded, or the flush sentinel", not dropped, m=m, node=s, fn=fn,
                   instance="item-consumed", reason="an iteration of the stream loop can complete without buffering or yielding its item", path=_lines(p))


# ------------------------------------------------------------------------------------------- R2


def _r2(chk, m, fn) -> None:
    if not isinstance(fn, ast.AsyncFunctionDef):
        raise AnchorError("C29: merge_generators is no longer an async generator function")
    cfg = CFG(fn)
    ynodes = _yield_nodes(cfg)
    # values taken from finished tasks
    results = []
    for n in cfg.nodes:
        if n.kind != "stmt" or not isinstance(n.ast, (ast.Assign, ast.AnnAssign)):
            continue
        v = n.ast.value
        if isinstance(v, ast.Call) and isinstance(v.func, ast.Attribute) and v.func.attr == "result" and not v.args:
            tgt = n.ast.targets[0] if isinstance(n.ast, ast.Assign) else n.ast.target
            if isinstance(tgt, ast.Name):
                results.append((n, tgt.id))
    chk.floor("C29.R2", "`<task>.result()` fetches", len(results), 1)

    loops = [n for n in cfg.nodes if n.kind in ("iter", "test") and isinstance(n.ast, (ast.For, ast.AsyncFor, ast.While))]
    # paths that exist only when the caller opts in (keyword parameter defaulting to False, or a local flag set True only under it)
    optin = _optin_params(fn)
    optin_edges: list[tuple[Node, str]] = []
    optin_flags: list[str] = []
    for t in [n for n in cfg.nodes if n.kind == "test"]:
        for lab in ("T", "F"):
            for text, pol in atoms(t.ast.test, lab == "T"):
                if not pol or not text.isidentifier():
                    continue
                if text in optin:
                    optin_edges.append((t, lab))
                elif _is_optin_flag(fn, cfg, text, optin):
                    optin_edges.append((t, lab))
                    optin_flags.append(text)
    collectors: dict[str, list[Node]] = {}
    for rn, var in results:
        takes = []
        for n in cfg.nodes:
            for c in _calls_in(n):
                if isinstance(c.func, ast.Attribute) and c.func.attr in ("append", "put_nowait", "appendleft") and isinstance(c.func.value, ast.Name) \
                        and any(isinstance(x, ast.Name) and x.id == var for a in c.args for x in ast.walk(a)):
                    takes.append(n)
                    collectors.setdefault(c.func.value.id, []).append(n)
        direct = [n for n, y in ynodes if y.value is not None and any(isinstance(x, ast.Name) and x.id == var for x in ast.walk(y.value))
                  and not any(isinstance(a, (ast.For, ast.AsyncFor)) and var in {x.id for x in ast.walk(a.target) if isinstance(x, ast.Name)} for a in ancestors(y))]
        starts = [t for lab, t in cfg.succ[rn] if lab not in NOEXC]
        r = cfg.reach(starts, blocked=takes + direct, blocked_edges=optin_edges, labels_excluded=NOEXC)
        lost = [t for t in loops + [cfg.exit] if t in r]
        lost = [t for t in lost if t is not rn]
        p = cfg.path(starts[0], lost[0], blocked=takes + direct, labels_excluded=NOEXC) if lost and starts else []
        chk.ob("C29.R2", f"a value obtained from `.result()` (`{var}`) is collected or yielded on every normal path", not lost, m=m, node=rn.ast, fn=fn,
               instance="result-collected", reason="the item of a finished source task can be dropped", path=_lines(p))

    for lst, app_nodes in sorted(collectors.items()):
        # the loop that yields the collected values
        yloops = [s for s in walk_shallow(fn) if isinstance(s, (ast.For, ast.AsyncFor)) and isinstance(s.iter, ast.Name) and s.iter.id == lst
                  and any(isinstance(x, ast.Yield) for b in s.body for x in ast.walk(b))]
        if not yloops:
            raise AnchorError(f"C29.R2: values are collected in `{lst}` but no loop over it yields them (unrecognised hand-over idiom)")
        heads = [h for s in yloops for h in cfg.nodes_of(s)]
        for s in yloops:
            tn = {x.id for x in ast.walk(s.target) if isinstance(x, ast.Name)}
            ys = [n for n, y in ynodes if _inside(y, s) and y.value is not None and any(isinstance(x, ast.Name) and x.id in tn for x in ast.walk(y.value))]
            for h in cfg.nodes_of(s):
                starts = [t for lab, t in cfg.succ[h] if lab == "loop"]
                skip = cfg.must_pass(starts, [h], ys, labels_excluded=NOEXC) if ys else [h]
                chk.ob("C29.R2", f"every collected value in `{lst}` is yielded (no conditional skip in the yield loop)", not skip, m=m, node=s, fn=fn,
                       instance="collected-yielded", reason="an iteration over the collected values can complete without yielding")
        outer_heads = [n for n in loops if any(_inside(s, n.ast) for s in yloops)]
        targets = [cfg.exit] + outer_heads
        for a in app_nodes:
            r_all = cfg.reach([a], blocked=heads, labels_excluded=NOEXC, include_starts=False)
            r_def = cfg.reach([a], blocked=heads, blocked_edges=optin_edges, labels_excluded=NOEXC, include_starts=False)
            bypass_def = [t for t in targets if t in r_def]
            bypass_all = [t for t in targets if t in r_all]
            p = cfg.path(a, bypass_def[0], blocked=heads, labels_excluded=NOEXC) if bypass_def else []
            chk.ob("C29.R2", f"a value appended to `{lst}` reaches the yield loop before the round ends or the generator returns", not bypass_def,
                   m=m, node=a.ast, fn=fn, instance="collected-reaches-yield", reason="collected values can be discarded without being yielded", path=_lines(p))
            if bypass_all and not bypass_def:
                chk.observe(f"C29.R2: values already collected in `{lst}` are discarded when a source ends in the same round and the caller passed "
                            f"{sorted(optin)}=True (flag(s) {sorted(set(optin_flags))}); outside the statement, which is about the default merge")
        # fresh per round
        fresh_init = [n for n in cfg.nodes if n.kind == "stmt" and isinstance(n.ast, (ast.Assign, ast.AnnAssign)) and lst in assigned_names(n.ast)]
        fresh_init += [n for n in cfg.nodes for c in _calls_in(n) if isinstance(c.func, ast.Attribute) and c.func.attr == "clear" and dotted(c.func.value) == lst]
        for s in yloops:
            for h in cfg.nodes_of(s):
                starts = [t for lab, t in cfg.succ[h] if lab == "done"]
                stale = cfg.must_pass(starts, app_nodes, fresh_init, labels_excluded=NOEXC)
                chk.ob("C29.R2", f"`{lst}` is re-created before the next round appends to it (no value is yielded twice)", not stale, m=m, node=s, fn=fn,
                       instance="collected-fresh", reason="values yielded in one round are still in the list in the next round and are yielded again")

    # stored exception is re-raised
    handlers = []
    for s in walk_shallow(fn):
        if isinstance(s, ast.Try) and any(rn.ast is b or _inside(rn.ast, b) for rn, _v in results for b in s.body):
            for h in s.handlers:
                names = [ast.unparse(e).split(".")[-1] for e in (h.type.elts if isinstance(h.type, ast.Tuple) else [h.type])] if h.type is not None else ["BaseException"]
                if set(names) <= {"StopAsyncIteration", "StopIteration"}:
                    continue
                handlers.append(h)
    chk.floor("C29.R2", "handlers that catch a source's exception", len(handlers), 0)
    raises = [n for n in cfg.nodes if n.kind == "stmt" and isinstance(n.ast, ast.Raise)]
    for h in handlers:
        stored = []
        if h.name:
            for s in h.body:
                for x in ast.walk(s):
                    if isinstance(x, ast.Assign) and len(x.targets) == 1 and isinstance(x.targets[0], ast.Name) and isinstance(x.value, ast.Name) and x.value.id == h.name:
                        stored.append(x.targets[0].id)
        blocked_edges: list[tuple[Node, str]] = []
        for var in stored:
            others = [s for s in _name_assignments(fn, var) if not (isinstance(s, (ast.Assign, ast.AnnAssign)) and isinstance(s.value, ast.Constant) and s.value.value is None)
                      and not _inside(s, h)]
            if others:
                raise AnchorError(f"C29.R2: `{var}` (stored source exception) has assignments the rule does not understand: {ast.unparse(others[0])[:60]}")
            blocked_edges += _fact_edges(cfg, f"{var} is None", True)
        good_raises = [n for n in raises if n.ast.exc is None and _inside(n.ast, h)] + \
                      [n for n in raises if isinstance(n.ast.exc, ast.Name) and (n.ast.exc.id in stored or n.ast.exc.id == h.name)]
        for hn in cfg.nodes_of(h):
            r = cfg.reach([hn], blocked=good_raises, blocked_edges=blocked_edges, labels_excluded=NOEXC)
            swallowed = cfg.exit in r
            p = cfg.path(hn, cfg.exit, blocked=good_raises, labels_excluded=NOEXC) if swallowed else []
            chk.ob("C29.R2", "an exception raised by a source is re-raised to the consumer after cleanup", not swallowed, m=m, node=h, fn=fn,
                   instance="source-error-reraised", reason="the generator can finish normally after a source raised (error swallowed)", path=_lines(p))


# ------------------------------------------------------------------------------------------- R4

_TASK_SPAWN = ("create_task", "ensure_future")
_STATE_READS = ("done", "cancelled")
_FILL = ("append", "appendleft", "add", "put_nowait", "insert", "extend")


def _spawns(v: ast.AST | None) -> bool:
    return isinstance(v, ast.Call) and last(call_name(v)) in _TASK_SPAWN


def _task_tables(fn: ast.AST) -> list[str]:
    """Locals that hold the pending tasks: `T[k] = create_task(...)` or `T = {k: create_task(...) for ...}`."""
    names: set[str] = set()
    for s in walk_shallow(fn):
        if isinstance(s, ast.Assign):
            tgts, v = list(s.targets), s.value
        elif isinstance(s, ast.AnnAssign) and s.value is not None:
            tgts, v = [s.target], s.value
        else:
            continue
        for t in tgts:
            if isinstance(t, ast.Subscript) and isinstance(t.value, ast.Name) and _spawns(v):
                names.add(t.value.id)
            if isinstance(t, ast.Name) and isinstance(v, ast.DictComp) and _spawns(v.value):
                names.add(t.id)
    return sorted(names)


def _flow_slice(fn: ast.AST, starts: list[ast.AST], stop: set[str]) -> list[ast.AST]:
    """May-dependence of the start expressions: dep_slice, continued through in-place fills (`L.append(x)` makes L depend on x)."""
    fills: dict[str, list[ast.AST]] = {}
    for c in walk_shallow(fn):
        if isinstance(c, ast.Call) and isinstance(c.func, ast.Attribute) and isinstance(c.func.value, ast.Name) and c.func.attr in _FILL:
            fills.setdefault(c.func.value.id, []).extend(c.args)
    exprs: list[ast.AST] = []
    seen_e: set[int] = set()
    seen_n: set[str] = set()
    todo = list(starts)
    while todo:
        sl = dep_slice(fn, todo.pop(), stop=stop)
        for x in sl.exprs:
            if id(x) not in seen_e:
                seen_e.add(id(x))
                exprs.append(x)
        for nm in sorted(sl.locals | sl.leaves):
            if nm not in seen_n and nm not in stop:
                seen_n.add(nm)
                todo.extend(fills.get(nm, []))
    return exprs


def _reads_task_state(exprs: list[ast.AST]) -> ast.Call | None:
    for e in exprs:
        for c in ast.walk(e):
            if isinstance(c, ast.Call) and isinstance(c.func, ast.Attribute) and c.func.attr in _STATE_READS and not c.args:
                return c
    return None


def _r4(chk, m, fn) -> None:
    cfg = CFG(fn)
    tables = _task_tables(fn)
    if len(tables) != 1:
        raise AnchorError(f"C29.R4: cannot bind the pending-task table of merge_generators (locals filled with create_task results: {tables})")
    tab = tables[0]
    chk.floor("C29.R4", "pending-task tables (local dict of create_task results)", len(tables), 1)
    waits = [c for c in walk_shallow(fn) if isinstance(c, ast.Call) and last(call_name(c)) == "wait"
             and any(isinstance(x, ast.Name) and x.id == tab for a in list(c.args) + [k.value for k in c.keywords] for x in ast.walk(expand(a, c)))]
    wait_nodes = [n for c in waits for n in cfg.node_of_containing(c)]
    chk.floor("C29.R4", "waits on the values of the pending-task table", len(wait_nodes), 1)
    after_wait = cfg.reach(wait_nodes, include_starts=False)

    def in_round(n: Node) -> bool:
        return n in after_wait and any(w in cfg.reach([n], include_starts=False) for w in wait_nodes)

    susp = [n for n in cfg.nodes if n.ast is not None and n not in wait_nodes and in_round(n)
            and (isinstance(n.ast, (ast.AsyncFor, ast.AsyncWith)) or any(is_suspension(x) for x in exprs_in_node(n)))]
    chk.floor("C29.R4", "suspension points inside the round loop other than the wait (yield of a merged item)", len(susp), 1)

    # every way an entry can leave the table inside the round loop: (node, kind, key expression | None, selecting expression | None)
    exits: list[tuple[Node, str, ast.AST | None, ast.AST | None]] = []
    for n in cfg.nodes:
        if n.ast is None:
            continue
        found: list[tuple[str, ast.AST | None, ast.AST | None]] = []
        for c in _calls_in(n):
            if isinstance(c.func, ast.Attribute) and dotted(c.func.value) == tab:
                if c.func.attr == "pop" and c.args:
                    found.append(("keyed", c.args[0], None))
                elif c.func.attr in ("pop", "popitem", "clear"):
                    found.append(("bulk", None, None))
        if n.kind == "stmt" and isinstance(n.ast, ast.Delete):
            for t in n.ast.targets:
                if isinstance(t, ast.Subscript) and dotted(t.value) == tab:
                    found.append(("keyed", t.slice, None))
                elif isinstance(t, ast.Name) and t.id == tab:
                    found.append(("bulk", None, None))
        if n.kind == "stmt" and isinstance(n.ast, (ast.Assign, ast.AnnAssign, ast.AugAssign)) and getattr(n.ast, "value", None) is not None:
            tg = n.ast.targets if isinstance(n.ast, ast.Assign) else [n.ast.target]
            if any(isinstance(x, ast.Name) and x.id == tab for t in tg for x in ([t] if isinstance(t, ast.Name) else (t.elts if isinstance(t, (ast.Tuple, ast.List)) else []))):
                found.append(("bulk", None, n.ast.value))
        if found and in_round(n):
            exits += [(n, k, key, sel) for k, key, sel in found]
    chk.floor("C29.R4", "removals from the pending-task table inside the round loop", len(exits), 1)

    for n, kind, key, sel in exits:
        guard_exprs = [ast.parse(text, mode="eval").body for text, _pol in sorted(facts_at(cfg, n, expand_locals=False))]
        starts = [x for x in (key, sel) if x is not None]
        sl = _flow_slice(fn, starts, {tab}) if starts else []
        state = _reads_task_state(sl + guard_exprs)
        what = ast.unparse(n.ast if n.kind == "stmt" else (key or n.ast))[:90].replace("\n", " ")
        if state is not None:
            offenders = [s for s in susp if n in cfg.reach([s], blocked=wait_nodes, include_starts=False)]
            p = cfg.path(offenders[0], n, blocked=wait_nodes) if offenders else []
            chk.ob("C29.R4", f"entries are removed from `{tab}` on `{ast.unparse(state)}` only before the first suspension point that follows the wait",
                   not offenders, m=m, node=n.ast, fn=fn, instance="prune-on-done-after-suspension" if offenders else "prune-on-done",
                   reason=(f"`{what}` drops every finished task and is reachable from the suspension at line {offenders[0].line if offenders else 0} without "
                           f"passing the wait again: a task that finishes while the consumer holds the yielded item is `done()` here although this round's "
                           f"wait did not report it and nothing read its `.result()`; its item, its source's later items (no new task is scheduled), or its "
                           f"error are lost.  Remove an entry where its own outcome is taken, or prune before the first yield/await after the wait"),
                   path=_lines(p))
            continue
        if kind == "bulk":
            raise AnchorError(f"C29.R4: `{what}` empties or rebinds the pending-task table inside the round loop without selecting on the tasks' state "
                              "(unrecognised removal idiom)")
        from_wait = any(c is w for e in sl for c in ast.walk(e) for w in waits)
        chk.ob("C29.R4", f"a keyed removal from `{tab}` names a task that this round's wait reported finished", from_wait, m=m, node=n.ast, fn=fn,
               instance="removal-key" if from_wait else "removal-key-not-from-wait",
               reason=(f"the key of `{what}` does not depend on the result of the wait (nor on the list the fetched values were collected in): the removed entry "
                       "is a task whose outcome nobody has taken, so its item or error is lost and its source is never polled again"))


def _is_optin_flag(fn: ast.AST, cfg: CFG, name: str, optin: set[str]) -> bool:
    if not optin or name in _params(fn):
        return False
    binds = _name_assignments(fn, name)
    if not binds:
        return False
    for s in binds:
        v = _const_bool_assign(s, name)
        if v is None:
            return False
        if v is True:
            for n in cfg.nodes_of(s):
                facts = facts_at(cfg, n, expand_locals=False)
                if not any(pol and text in optin for text, pol in facts):
                    return False
    return True


# ------------------------------------------------------------------------------------------- entry


def run(chk) -> None:
    repo = chk.repo
    m, fn = repo.func(f"{MOD}:debounced_sorted_prefix")
    _r1_r3(chk, m, fn)
    m2, mg = repo.func(f"{MOD}:merge_generators")
    _r2(chk, m2, mg)
    _r4(chk, m2, mg)
    # the foreign fact R1 talks about: who sets it
    try:
        _mm, loop_fn = repo.func(f"{MOD}:Debouncer._loop")
        setters = [c for c in ast.walk(loop_fn) if isinstance(c, ast.Call) and isinstance(c.func, ast.Attribute) and c.func.attr == "set"]
        if setters:
            chk.observe("Debouncer._loop (a separate task) sets complete_signal before Debouncer.aiter() resumes and before merge_generators "
                        "hands the sentinel to debounced_sorted_prefix; `is_complete` is therefore true strictly earlier than the flush.")
    except AnchorError:
        pass


# ------------------------------------------------------------------------------------------- twins

_P = "packages/llama-agents-core/src/llama_agents/core/iter_utils.py"

def _body_text() -> str:
    """Current text of the buffering/flush part of debounced_sorted_prefix (everything after the merged stream is built),
    read at import time so that the whole-block twins follow the source instead of being skipped when it is reformatted."""
    try:
        src = (repo_root() / _P).read_text(encoding="utf-8")
    except OSError:
        return "\0iter_utils.py missing"
    marker = "    merged = merge_generators(inner, debouncer.aiter())\n"
    i = src.find(marker)
    j = src.find("\n\nCOMPLETE = ", i)
    if i < 0 or j < 0:
        return "\0debounced_sorted_prefix body not located"
    return src[i + len(marker): j + 1]


_BODY_OLD = _body_text()

# the shape before the repair (guard reads the debouncer's flag, which another task sets before the sentinel arrives)
_PINNED = '''    async for item in merged:
        if item == "__COMPLETE__":
            buffer.sort(key=key)
            for buffered_item in buffer:
                yield buffered_item
            buffer = []
        else:
            # item is T after checking != "__COMPLETE__"
            actual_item = cast(T, item)
            if debouncer.is_complete:
                yield actual_item
            else:
                debouncer.extend_window()
                buffer.append(actual_item)
'''

_FIXED = '''    flushed = False
    async for item in merged:
        if item == "__COMPLETE__":
            flushed = True
            buffer.sort(key=key)
            for buffered_item in buffer:
                yield buffered_item
            buffer = []
        else:
            actual_item = cast(T, item)
            if flushed:
                yield actual_item
            else:
                debouncer.extend_window()
                buffer.append(actual_item)
'''

_FIXED_EARLY_CONTINUE = '''    buffering = True
    async for item in merged:
        if item != "__COMPLETE__":
            actual_item = cast(T, item)
            if buffering:
                debouncer.extend_window()
                buffer.append(actual_item)
                continue
            yield actual_item
            continue
        buffer.sort(key=key)
        for buffered_item in buffer:
            yield buffered_item
        buffer = []
        buffering = False
'''

_FIXED_TWO_LOOPS = '''    async for item in merged:
        if item == "__COMPLETE__":
            break
        debouncer.extend_window()
        buffer.append(cast(T, item))
    for buffered_item in sorted(buffer, key=key):
        yield buffered_item
    buffer = []
    async for item in merged:
        if item != "__COMPLETE__":
            yield cast(T, item)
'''

_BROKEN_REFRESH = _FIXED.replace("            actual_item = cast(T, item)\n", "            actual_item = cast(T, item)\n            flushed = debouncer.is_complete\n")
_BROKEN_SET_OUTSIDE = _FIXED.replace("            actual_item = cast(T, item)\n", "            actual_item = cast(T, item)\n            if debouncer.is_complete:\n                flushed = True\n")
_BROKEN_OR = _FIXED.replace("            if flushed:\n", "            if flushed or debouncer.is_complete:\n")
_BROKEN_POLARITY = _FIXED.replace("            if flushed:\n", "            if not flushed:\n")
_BROKEN_RESET_FIRST = _FIXED.replace("            for buffered_item in buffer:\n                yield buffered_item\n            buffer = []\n",
                                     "            pending, buffer = buffer, []\n            for buffered_item in buffer:\n                yield buffered_item\n")
_BROKEN_DROP_NONE = _FIXED.replace("            if flushed:\n", "            if actual_item is None:\n                continue\n            if flushed:\n")

_REARM = "                if active_gen is not None:\n                    next_item_tasks[task_index] = asyncio.create_task(anext(active_gen))\n"
_PRUNE_REBIND = ("            next_item_tasks = {\n                index: task\n                for index, task in next_item_tasks.items()\n"
                 "                if not task.done()\n            }\n")
_PRUNE_DEL_LOOP = ("            for stale_index, stale_task in list(next_item_tasks.items()):\n                if stale_task.done():\n"
                   "                    del next_item_tasks[stale_index]\n")
_YIELD_LOOP = '''            for task_index, value in completed_results:
                # Remove the finished task before yielding
                next_item_tasks.pop(task_index, None)
                yield value
                # Schedule the next item fetch for this generator
                active_gen: AsyncGenerator[T, None] | None = active_generators.get(
                    task_index
                )
                if active_gen is not None:
                    next_item_tasks[task_index] = asyncio.create_task(anext(active_gen))
'''
_YIELD_LOOP_SEED = _YIELD_LOOP.replace("                # Remove the finished task before yielding\n                next_item_tasks.pop(task_index, None)\n", "") + (
    "            # Finished tasks were consumed above; keep only the ones still pending\n" + _PRUNE_REBIND)
_YIELD_LOOP_RENAMED = _YIELD_LOOP.replace("for task_index, value in", "for slot, item in").replace("yield value", "yield item").replace("task_index", "slot")

TWINS = [
    # R1 — whole-block variants (anchor = current text of the buffering/flush part, read at import time)
    Twin("revert of the repair: passthrough guarded by debouncer.is_complete", _P, _BODY_OLD, _PINNED, "C29.R1"),
    Twin("benign: local flag set by the flush branch (canonical form)", _P, _BODY_OLD, _FIXED, None),
    Twin("benign: early-continue form with inverted flag", _P, _BODY_OLD, _FIXED_EARLY_CONTINUE, None),
    Twin("benign: two-loop form (control flow instead of a flag)", _P, _BODY_OLD, _FIXED_TWO_LOOPS, None),
    Twin("flag refreshed from the debouncer on every item", _P, _BODY_OLD, _BROKEN_REFRESH, "C29.R1"),
    Twin("flag also set when the debouncer reports completion", _P, _BODY_OLD, _BROKEN_SET_OUTSIDE, "C29.R1"),
    Twin("passthrough under `flushed or debouncer.is_complete`", _P, _BODY_OLD, _BROKEN_OR, "C29.R1"),
    Twin("flag polarity inverted", _P, _BODY_OLD, _BROKEN_POLARITY, "C29.R1"),
    # R1 — small anchors on the repaired text
    Twin("guard back on the debouncer's flag", _P, "            if flushed:\n                yield actual_item", "            if debouncer.is_complete:\n                yield actual_item", "C29.R1"),
    Twin("guard through the event itself", _P, "            if flushed:\n                yield actual_item", "            if debouncer.complete_signal.is_set():\n                yield actual_item", "C29.R1"),
    Twin("guard removed: every item passes through", _P, "            if flushed:\n                yield actual_item", "            if True:\n                yield actual_item", "C29.R1"),
    Twin("flag set before the loop instead of in the flush branch", _P, "    flushed = False\n", "    flushed = debounce_seconds <= 0\n", "C29.R1"),
    Twin("flag never set (flush branch forgets it)", _P, "            flushed = True\n            buffer.sort", "            buffer.sort", "C29.R1"),
    Twin("benign: flag set after the burst was yielded", _P, "            flushed = True\n            buffer.sort(key=key)\n            for buffered_item in buffer:\n                yield buffered_item\n            buffer = []\n",
         "            buffer.sort(key=key)\n            for buffered_item in buffer:\n                yield buffered_item\n            buffer = []\n            flushed = True\n", None),
    Twin("benign: negated test with swapped branches", _P, "            if flushed:\n                yield actual_item\n            else:\n                debouncer.extend_window()\n                buffer.append(actual_item)\n",
         "            if not flushed:\n                debouncer.extend_window()\n                buffer.append(actual_item)\n            else:\n                yield actual_item\n", None),
    # R3
    Twin("flush skips the first buffered element", _P, "            for buffered_item in buffer:\n", "            for buffered_item in buffer[1:]:\n", "C29.R3"),
    Twin("buffer emptied before the burst is yielded", _P, _BODY_OLD, _BROKEN_RESET_FIRST, "C29.R3"),
    Twin("sort without the caller's key", _P, "buffer.sort(key=key)", "buffer.sort()", "C29.R3"),
    Twin("descending burst", _P, "buffer.sort(key=key)", "buffer.sort(key=key, reverse=True)", "C29.R3"),
    Twin("falsy items dropped", _P, _BODY_OLD, _BROKEN_DROP_NONE, "C29.R3"),
    Twin("benign: sorted() in the loop header", _P, "            buffer.sort(key=key)\n            for buffered_item in buffer:\n", "            for buffered_item in sorted(buffer, key=key):\n", None),
    Twin("benign: clear() instead of rebinding", _P, "            buffer = []\n", "            buffer.clear()\n", None),
    # R2
    Twin("item of a finished task dropped when another source ended in the same round", _P,
         "                else:\n                    completed_results.append((task_index, value))\n",
         "                else:\n                    if not stopped_on_first_completion:\n                        completed_results.append((task_index, value))\n", None),
    Twin("value collected only for even sources", _P,
         "                else:\n                    completed_results.append((task_index, value))\n",
         "                else:\n                    if task_index % 2 == 0:\n                        completed_results.append((task_index, value))\n", "C29.R2"),
    Twin("source error swallowed when stopping on first completion is off", _P,
         "    if exception_to_raise is not None:\n        raise exception_to_raise\n", "    if exception_to_raise is not None and stop_on_first_completion:\n        raise exception_to_raise\n", "C29.R2"),
    Twin("source error logged and skipped", _P, "                    exception_to_raise = exc\n                    break\n", "                    next_item_tasks.pop(task_index, None)\n                    continue\n", "C29.R2"),
    Twin("collected list hoisted out of the round loop", _P,
         "            completed_results: list[tuple[int, T]] = []\n            for finished in done:", "            for finished in done:", "C29.R2"),
    Twin("yield loop skips values of removed sources", _P, "                next_item_tasks.pop(task_index, None)\n                yield value\n",
         "                next_item_tasks.pop(task_index, None)\n                if task_index in active_generators:\n                    yield value\n", "C29.R2"),
    Twin("benign: exception re-raised with a bare name check", _P, "    if exception_to_raise is not None:\n        raise exception_to_raise\n", "    if not (exception_to_raise is None):\n        raise exception_to_raise\n", None),
    Twin("benign: yield before removing the finished task", _P, "                next_item_tasks.pop(task_index, None)\n                yield value\n", "                yield value\n                next_item_tasks.pop(task_index, None)\n", None),
    # R4 — ownership of the pending-task table
    Twin("seed form: finished tasks pruned by a rebinding comprehension after the yield loop (keyed pops kept)", _P, _REARM, _REARM + _PRUNE_REBIND, "C29.R4"),
    Twin("seed form, exact: the pop before the yield is replaced by the end-of-round prune", _P, _YIELD_LOOP, _YIELD_LOOP_SEED, "C29.R4"),
    Twin("variant: `del` of every entry whose task is done(), in a loop after the yield loop", _P, _REARM, _REARM + _PRUNE_DEL_LOOP, "C29.R4"),
    Twin("variant: keys of done() tasks collected first, popped right after the yield", _P, "                next_item_tasks.pop(task_index, None)\n                yield value\n",
         "                next_item_tasks.pop(task_index, None)\n                yield value\n                for stale in [i for i, t in next_item_tasks.items() if t.done()]:\n                    next_item_tasks.pop(stale)\n", "C29.R4"),
    Twin("variant: prune at the top of the round, before the wait (tasks finished during the previous yield)", _P, "            done, _ = await asyncio.wait(",
         "            next_item_tasks = {k: t for k, t in next_item_tasks.items() if not t.done()}\n            if not next_item_tasks:\n                break\n            done, _ = await asyncio.wait(", "C29.R4"),
    Twin("exhausted source: a slot that does not come from the wait result is removed", _P,
         "                        next_item_tasks.pop(task_index, None)\n                        active_generators.pop(task_index, None)\n",
         "                        next_item_tasks.pop(len(active_generators) - 1, None)\n                        active_generators.pop(task_index, None)\n", "C29.R4"),
    Twin("benign: the same prune between the examination of `done` and the yield loop (no suspension since the wait)", _P,
         "            if stopped_on_first_completion:\n                break\n            for task_index, value in completed_results:\n",
         "            if stopped_on_first_completion:\n                break\n" + _PRUNE_REBIND + "            for task_index, value in completed_results:\n", None),
    Twin("benign: `del` instead of pop for the entry whose value is about to be yielded", _P, "                next_item_tasks.pop(task_index, None)\n                yield value\n",
         "                del next_item_tasks[task_index]\n                yield value\n", None),
    Twin("benign: yield loop with its own loop variables (key reaches the wait only through the collected list)", _P, _YIELD_LOOP, _YIELD_LOOP_RENAMED, None),
]
