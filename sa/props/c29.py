"""C29 — stream merge and sorted-prefix utilities preserve items and order.

Decided (necessary conditions visible in the shape of the two generators):
  R1  debounced_sorted_prefix is a two-state machine (buffering -> flushed).  A passthrough `yield` is legal only
      in state *flushed*; the fact that guards it must be established by the flush branch of this very coroutine
      (a constant local flag set there, or control flow that reaches the yield only through the flush).
  R2  merge_generators: a value taken from a finished source task is collected and yielded without a conditional
      skip, the collection is fresh per round, and a stored source exception is re-raised after the cleanup.
  R3  the flush sorts the whole buffer by the caller's key, yields every buffered element, resets the buffer only
      afterwards, and every non-sentinel item of the merged stream is either buffered or yielded.  The burst buffer is the
      local list that is both filled (append / insert / insort / heappush) and ordered (sort / sorted / insort / heappush),
      so a buffer kept ordered incrementally is bound too.  Every operation that orders it must compare *keys only*: the
      components of two buffered elements that the operation compares are derived from the shape of the inserted element
      and the operation's `key=`; the first one must be the caller's key of the item, and the item itself may be reached
      only behind a component that never ties (an arrival counter).  `sort(key=key)`, `sorted(.., key=key)`,
      `insort(.., key=key)`, `(key(x), next(counter), x)` pass; ordering `(key(x), x)` pairs does not -- equal keys make
      the comparison fall through to the items (TypeError inside the generator for non-orderable items: the burst and
      everything after it is lost; otherwise ties leave arrival order).  A buffer walked without a sort must be filled by
      insort only (a heap must be popped), and the flush must yield the item component of each element.
  R4  merge_generators, ownership of the pending-task table (the dict that holds one `anext` task per source): inside the
      round loop an entry leaves the table only (a) by a keyed removal whose key is derived from this round's
      `asyncio.wait` result (directly, or through the list the fetched values were collected in), or (b) by a removal
      that selects on the run state of the tasks (`.done()` / `.cancelled()`), and then only where no suspension point
      (`yield` / `await` other than the wait itself) lies between the wait and the removal.  After a suspension "done"
      no longer means "reported by the wait and examined": a task that finished while the consumer held the yielded item
      would be dropped with its item, its source's later items, or its error.
Not decided: the timing of the debounce window, fairness of asyncio.wait, behaviour when the consumer closes the
generator early, sources that raise BaseException.
"""

from __future__ import annotations

import ast

from ..astx import assigned_names, atoms, call_name, dep_slice, dotted, expand, facts_at, is_suspension, last
from ..cfg import CFG, Node, exprs_in_node
from ..index import repo_root, AnchorError, ancestors, walk_shallow
from ..selftest import Twin

EXPLANATION = (
    "Static typestate / value-flow rules over llama_agents/core/iter_utils.py.  "
    "R1 (typestate): in debounced_sorted_prefix every `yield` outside the flush loop (a passthrough) must be reachable only "
    "after the flush, either by control flow (every CFG path to it passes the sort/flush) or under a local boolean flag whose "
    "every assignment is a constant, which is initialised to the opposite value on every path, and whose passthrough value is "
    "assigned only in the flush branch.  A guard that reads state another task writes (e.g. `debouncer.is_complete`, set by "
    "Debouncer._loop before the sentinel travels through merge_generators) is not such a fact: an item that arrives in that "
    "window is yielded before the sorted burst.  "
    "R3: the flush loop iterates exactly the buffer (or sorted(buffer,…), or pops a heap until it is empty), yields the item of its element on every iteration, the sort "
    "uses the caller's `key` and no reverse, a reset of the buffer is reachable only through the completed flush loop, and every "
    "path through the body of the merged-stream loop appends, yields or flushes.  The buffer is bound as the local list that is both filled and ordered, also when it is "
    "kept ordered incrementally (bisect.insort / heapq).  Every ordering operation (sort, sorted, insort, heappush) must compare keys only: from the shape of the inserted "
    "element (the item, or a tuple whose components are classified as caller's key of the item / the item / an arrival counter that never ties / constant) and the "
    "operation's `key=` the sequence of compared components is derived; it must start with the caller's key, and the item may follow only behind a never-tying counter "
    "(`next(itertools.count())`, `len(buffer)`, a local int incremented between any two insertions).  `(key(x), x)` pairs ordered by tuple comparison are a violation: "
    "with equal keys the items are compared (TypeError inside the generator for non-orderable items loses the burst and all later items; orderable items lose arrival order "
    "among ties); a keyed insort_left reverses ties.  A buffer that is walked without a sort must be filled by insort only, a heap must be popped, and the flush must yield "
    "the item component of the buffered tuples.  "
    "R2: in merge_generators every normal path from `task.result()` reaches an append/yield of that value; the collecting list is "
    "re-created before the appends of each round, is iterated by a loop that yields on every iteration, and every path from an "
    "append to the function exit or the next round passes that loop (paths that exist only under an opt-in keyword parameter "
    "defaulting to False are reported as an observation); a handler that catches a source's exception leads to a `raise` on every "
    "normal path to the exit (path-sensitive on `<stored exception> is None`).  "
    "R4 (ownership of the pending-task table of merge_generators = the local dict whose entries are create_task(...) results and "
    "whose values are handed to asyncio.wait): every removal that lies inside the round loop (reachable from the wait and able to "
    "reach it again) is classified by what selects the removed entries.  A keyed removal (pop / del) must take its key from this "
    "round's wait result, directly or through the list the fetched values were collected in (may-dependence slice that stops at the "
    "table itself); a key that does not depend on which tasks finished removes a task whose outcome nobody took.  A removal that "
    "selects on the tasks' run state (`.done()` / `.cancelled()` in the filter of a rebinding comprehension, in the slice of the key, "
    "or in a test that guards the removal) must not be reachable from a suspension point (`yield`, `await`, async for/with other than "
    "the wait) without passing the wait again: between the wait and the first suspension `done()` equals membership in the wait's "
    "result, after a suspension it also covers tasks that finished meanwhile and were never examined, so their item, their source's "
    "later items, or their error are lost.  Other bulk removals inside the round loop are not understood (analysis error).  "
    "Not decided: timing of the window, which completion asyncio.wait reports first, early close by the consumer."
)
TRUSTED = ["CPython ast", "asyncio.wait / Task.result semantics", "sa.cfg statement CFG (finally bodies duplicated per continuation)"]
TECHNIQUE = "typestate over the statement CFG with path sensitivity on monotone local flags"
LEVEL_NOTE = "necessary conditions only; the window race itself is a schedule property confirmed dynamically (triage/t_srv.py::c29)"

MOD = "llama_agents.core.iter_utils"
NOEXC = ("exc", "cancel")


# ------------------------------------------------------------------------------------------- small helpers


def _yield_nodes(cfg: CFG) -> list[tuple[Node, ast.Yield]]:
    out = []
    for n in cfg.nodes:
        if n.ast is None:
            continue
        for x in exprs_in_node(n):
            if isinstance(x, ast.Yield):
                out.append((n, x))
    return out


def _calls_in(n: Node) -> list[ast.Call]:
    return [x for x in exprs_in_node(n) if isinstance(x, ast.Call)]


def _params(fn: ast.AST) -> set[str]:
    a = fn.args
    names = {p.arg for p in a.posonlyargs + a.args + a.kwonlyargs}
    if a.vararg:
        names.add(a.vararg.arg)
    if a.kwarg:
        names.add(a.kwarg.arg)
    return names


def _optin_params(fn: ast.AST) -> set[str]:
    """Keyword parameters whose default is the constant False (behaviour the caller must opt into)."""
    out = set()
    a = fn.args
    for p, d in zip(a.kwonlyargs, a.kw_defaults):
        if isinstance(d, ast.Constant) and d.value is False:
            out.add(p.arg)
    pos = a.posonlyargs + a.args
    for p, d in zip(pos[len(pos) - len(a.defaults):], a.defaults):
        if isinstance(d, ast.Constant) and d.value is False:
            out.add(p.arg)
    return out


def _inside(node: ast.AST, container: ast.AST) -> bool:
    return any(a is container for a in ancestors(node))


def _name_assignments(fn: ast.AST, name: str) -> list[ast.AST]:
    """Every statement / expression that (re)binds ``name`` in fn (nested defs excluded)."""
    out = []
    for s in walk_shallow(fn):
        if isinstance(s, (ast.Assign, ast.AnnAssign, ast.AugAssign, ast.For, ast.AsyncFor, ast.With, ast.AsyncWith, ast.NamedExpr, ast.Delete, ast.ExceptHandler)):
            if isinstance(s, ast.ExceptHandler):
                if s.name == name:
                    out.append(s)
                continue
            targets: list[ast.AST] = []
            if isinstance(s, ast.Assign):
                targets = list(s.targets)
            elif isinstance(s, (ast.AnnAssign, ast.AugAssign, ast.NamedExpr)):
                if isinstance(s, ast.AnnAssign) and s.value is None:
                    continue
                targets = [s.target]
            elif isinstance(s, (ast.For, ast.AsyncFor)):
                targets = [s.target]
            elif isinstance(s, (ast.With, ast.AsyncWith)):
                targets = [i.optional_vars for i in s.items if i.optional_vars is not None]
            elif isinstance(s, ast.Delete):
                targets = list(s.targets)
            for t in targets:
                if any(isinstance(x, ast.Name) and x.id == name for x in ast.walk(t)):
                    out.append(s)
                    break
    return out


def _const_bool_assign(s: ast.AST, name: str) -> bool | None:
    """Value of `name = True/False` (plain or annotated, single target); None for any other binding."""
    if isinstance(s, ast.Assign) and len(s.targets) == 1 and isinstance(s.targets[0], ast.Name) and s.targets[0].id == name:
        v = s.value
    elif isinstance(s, ast.AnnAssign) and isinstance(s.target, ast.Name) and s.target.id == name:
        v = s.value
    else:
        return None
    if isinstance(v, ast.Constant) and isinstance(v.value, bool):
        return v.value
    return None


def _fact_edges(cfg: CFG, text: str, polarity: bool = True) -> list[tuple[Node, str]]:
    """Branch edges on which the normalised atom ``text`` is known with ``polarity``."""
    want = atoms(ast.parse(text, mode="eval").body, polarity)
    out = []
    for n in cfg.nodes:
        if n.kind != "test":
            continue
        for lab in ("T", "F"):
            got = atoms(n.ast.test, lab == "T")
            if all(w in got for w in want):
                out.append((n, lab))
    return out


def _lines(path: list[Node]) -> list[str]:
    return [f"{n.kind}@{n.line}{n.tag}" for n in path if n.ast is not None][:14]


# ------------------------------------------------------------------------------------------- R1 + R3


_APPEND = ("append", "extend", "insert")
_INSORT = ("insort", "insort_right", "insort_left")
_HEAP = ("heappush", "heappop")
_FILL_ROLES = ("append", "insort", "insort_left", "heappush")
_ORDER_ROLES = ("sort", "sorted", "insort", "insort_left", "heappush")


def _buf_role(c: ast.Call) -> tuple[str, str] | None:
    """(list local, role) for a call that fills or orders a local list: `L.append/extend/insert(..)` -> append, `L.sort(..)` -> sort,
    `sorted(L, ..)` -> sorted, `[bisect.]insort[_right|_left](L, x, ..)` -> insort / insort_left, `[heapq.]heappush(L, x)` /
    `heappop(L)` -> heappush / heappop.  insort and heappush both insert and order (the list is kept ordered incrementally)."""
    if isinstance(c.func, ast.Attribute) and isinstance(c.func.value, ast.Name):
        if c.func.attr in _APPEND:
            return c.func.value.id, "append"
        if c.func.attr == "sort":
            return c.func.value.id, "sort"
    nm = last(call_name(c))
    if not (c.args and isinstance(c.args[0], ast.Name)):
        return None
    if call_name(c) == "sorted":
        return c.args[0].id, "sorted"
    if nm in _INSORT:
        return c.args[0].id, ("insort_left" if nm == "insort_left" else "insort")
    if nm in _HEAP:
        return c.args[0].id, nm
    return None


def _inserted(c: ast.Call, role: str) -> ast.AST | None:
    """The element a fill call puts into the list (None: several at once, shape unknown)."""
    if role == "append":
        if c.func.attr == "append" and len(c.args) == 1:
            return c.args[0]
        if c.func.attr == "insert" and len(c.args) == 2:
            return c.args[1]
        return None
    return c.args[1] if len(c.args) >= 2 else None


def _bind_buffer(fn: ast.AST) -> str:
    filled, ordered = set(), set()
    for c in walk_shallow(fn):
        if not isinstance(c, ast.Call):
            continue
        br = _buf_role(c)
        if br is None:
            continue
        if br[1] in _FILL_ROLES:
            filled.add(br[0])
        if br[1] in _ORDER_ROLES:
            ordered.add(br[0])
    cands = sorted(filled & ordered)
    if len(cands) != 1:
        raise AnchorError(f"C29: cannot bind the burst buffer of debounced_sorted_prefix (locals both filled (append/insort/heappush) and ordered "
                          f"(sort/sorted/insort/heappush): {cands})")
    return cands[0]


def _strip_cast(e: ast.AST) -> ast.AST:
    while isinstance(e, ast.Call) and last(call_name(e)) == "cast" and len(e.args) == 2:
        e = e.args[1]
    return e


def _element_shape(fn: ast.AST, cfg: CFG, buf: str, fills: list, item_names: set[str], key_params: set[str], merged_loops: list) -> dict:
    """What one element of the buffer is: the stream item itself (`tuple` False) or a tuple built at the insertion, whose components
    are classified as `key` (the caller's key applied to the item), `item`, `tie` (a value that is different for every insertion and
    grows with arrival: `next(<itertools.count()>)`, `len(<buffer>)`, a local int incremented between any two insertions), `const`,
    or `other:<text>`."""
    fill_nodes = [n for c, _r in fills for n in cfg.node_of_containing(c)]

    def is_item(e: ast.AST) -> bool:
        e = _strip_cast(e)
        return isinstance(e, ast.Name) and e.id in item_names

    def outside_stream_loop(s: ast.AST) -> bool:
        return not any(_inside(s, l) for l in merged_loops)

    def tie(e: ast.AST, at_nodes: list[Node]) -> bool:
        if isinstance(e, ast.Call) and call_name(e) == "next" and len(e.args) == 1 and isinstance(e.args[0], ast.Name):
            binds = _name_assignments(fn, e.args[0].id)
            return (len(binds) == 1 and isinstance(binds[0], (ast.Assign, ast.AnnAssign)) and isinstance(binds[0].value, ast.Call)
                    and last(call_name(binds[0].value)) == "count" and outside_stream_loop(binds[0]))
        if isinstance(e, ast.Call) and call_name(e) == "len" and len(e.args) == 1 and dotted(e.args[0]) == buf:
            return True  # the buffer only grows until the flush (R3 buffer-reset)
        if isinstance(e, ast.Name):
            binds = _name_assignments(fn, e.id)
            incs = [s for s in binds if isinstance(s, ast.AugAssign) and isinstance(s.op, ast.Add) and isinstance(s.target, ast.Name)
                    and isinstance(s.value, ast.Constant) and isinstance(s.value.value, int) and not isinstance(s.value.value, bool) and s.value.value > 0]
            inits = [s for s in binds if s not in incs]
            if not incs or not all(isinstance(s, (ast.Assign, ast.AnnAssign)) and isinstance(s.value, ast.Constant) and isinstance(s.value.value, int)
                                   and outside_stream_loop(s) for s in inits):
                return False
            inc_nodes = [n for s in incs for n in cfg.nodes_of(s)]
            return not cfg.must_pass(at_nodes, fill_nodes, inc_nodes, include_starts=False)
        return False

    def classify(e: ast.AST, at: ast.AST, at_nodes: list[Node]) -> str:
        if tie(e, at_nodes):
            return "tie"
        ex = _strip_cast(expand(e, at))
        if isinstance(ex, ast.Constant):
            return "const"
        if is_item(ex):
            return "item"
        if isinstance(ex, ast.Call) and isinstance(ex.func, ast.Name) and ex.func.id in key_params and len(ex.args) == 1 and not ex.keywords and is_item(ex.args[0]):
            return "key"
        return "other:" + ast.unparse(e)[:60]

    shapes: list[dict] = []
    for c, role in fills:
        e = _inserted(c, role)
        at = c
        tup = None
        if e is not None:
            tup = e if isinstance(e, ast.Tuple) else (expand(e, at, depth=1) if isinstance(e, ast.Name) else None)
        if isinstance(tup, ast.Tuple):
            kinds = [classify(x, at, cfg.node_of_containing(c)) for x in tup.elts]
            if kinds.count("item") != 1:
                raise AnchorError(f"C29.R3: `{ast.unparse(c)[:80]}` buffers tuples `{ast.unparse(tup)[:60]}` that do not carry the stream item exactly once (components: {kinds})")
            shapes.append({"tuple": True, "kinds": kinds, "item": kinds.index("item"), "text": ast.unparse(tup)[:60]})
        else:
            shapes.append({"tuple": False, "kinds": ["item"], "item": 0, "text": ast.unparse(e)[:60] if e is not None else "<items>"})
    if not shapes:
        raise AnchorError("C29.R3: no insertion into the burst buffer found")
    if any(sh["tuple"] != shapes[0]["tuple"] or sh["kinds"] != shapes[0]["kinds"] for sh in shapes[1:]):
        raise AnchorError(f"C29.R3: the insertions into `{buf}` do not agree on the shape of an element: {[sh['text'] for sh in shapes]}")
    return shapes[0]


def _int_const(e: ast.AST) -> int | None:
    """Value of an integer literal, `-1` (a UnaryOp in the AST) included."""
    if isinstance(e, ast.UnaryOp) and isinstance(e.op, ast.USub):
        v = _int_const(e.operand)
        return None if v is None else -v
    if isinstance(e, ast.Constant) and isinstance(e.value, int) and not isinstance(e.value, bool):
        return e.value
    return None


def _projection(kv: ast.AST) -> list[int] | None:
    """Indices selected by `lambda p: p[i]` / `lambda p: (p[i], p[j])` / `itemgetter(i, j)`."""
    def idx(e: ast.AST, arg: str) -> int | None:
        if isinstance(e, ast.Subscript) and isinstance(e.value, ast.Name) and e.value.id == arg:
            return _int_const(e.slice)
        return None
    if isinstance(kv, ast.Lambda) and len(kv.args.args) == 1 and not (kv.args.kwonlyargs or kv.args.vararg or kv.args.kwarg):
        a = kv.args.args[0].arg
        parts = kv.body.elts if isinstance(kv.body, ast.Tuple) else [kv.body]
        got = [idx(x, a) for x in parts]
        return None if any(g is None for g in got) else got  # type: ignore[return-value]
    if isinstance(kv, ast.Call) and last(call_name(kv)) == "itemgetter" and kv.args and all(_int_const(x) is not None for x in kv.args):
        return [_int_const(x) for x in kv.args]  # type: ignore[misc]
    return None


def _order_verdict(c: ast.Call, role: str, shape: dict, key_params: set[str]) -> tuple[bool, str, str]:
    """Which components of two buffered elements an ordering operation compares, in which order; verdict on "by the caller's key only"."""
    kv = next((k.value for k in c.keywords if k.arg == "key"), None)
    rev = next((k.value for k in c.keywords if k.arg == "reverse"), None)
    comps = shape["kinds"]
    n = len(comps)
    if kv is None:
        compared = list(comps)
    elif isinstance(kv, ast.Name) and kv.id in key_params:
        compared = ["key"] if not shape["tuple"] else [f"other:{kv.id}(<whole tuple>)"]
    else:
        proj = _projection(kv)
        if proj is not None and shape["tuple"] and all(-n <= i < n for i in proj):
            compared = [comps[i] for i in proj]
        elif (not shape["tuple"] and isinstance(kv, ast.Lambda) and len(kv.args.args) == 1 and isinstance(kv.body, ast.Call) and isinstance(kv.body.func, ast.Name)
              and kv.body.func.id in key_params and len(kv.body.args) == 1 and isinstance(kv.body.args[0], ast.Name) and kv.body.args[0].id == kv.args.args[0].arg):
            compared = ["key"]
        else:
            compared = ["other:" + ast.unparse(kv)[:50]]
    seq = [k for k in compared if k != "const"]
    txt = ast.unparse(c)[:80]
    descending = rev is not None and not (isinstance(rev, ast.Constant) and not rev.value)
    if descending or not seq or seq[0] != "key":
        return False, "not-by-key", f"sort call `{txt}` does not sort ascending by the caller's key function {sorted(key_params)}"
    for k in seq[1:]:
        if k == "tie":
            return True, "", ""
        if k == "item":
            return False, "items-compared", (
                f"`{txt}` orders `{shape['text']}` tuples by plain tuple comparison: whenever two burst items have equal keys the comparison falls through to the items "
                "themselves.  Items that are not orderable (dicts, models, dataclasses) raise TypeError inside the generator -- the whole buffered burst and every later item "
                "are never delivered; orderable items come out ordered by item value among ties instead of in arrival order.  Compare keys only (sort / sorted / insort with the "
                "caller's function as their `key` argument) or put an arrival counter between the key and the item")
        if k.startswith("other:"):
            raise AnchorError(f"C29.R3: `{k[6:]}` takes part in the ordering done by `{txt}` and is neither the caller's key, the item, a constant nor a recognised arrival counter")
    if role == "insort_left":
        return False, "ties-reversed", f"`{txt}` inserts a new item before the buffered items with an equal key: ties are flushed in reverse arrival order"
    if role == "heappush":
        return False, "ties-unordered", f"`{txt}`: a heap is not stable, items with equal keys are flushed in no particular order"
    return True, "", ""


def _yields_item(y: ast.Yield, fl: ast.AST, buf: str, item_pos: int | None, width: int) -> bool:
    """Does this yield inside flush loop ``fl`` hand out the item of the element the iteration is about?"""
    v = y.value
    if v is None:
        return False

    def hit(i: int, n: int | None = None) -> bool:
        return item_pos is not None and i in (item_pos, item_pos - width) and (n is None or n == width)

    tgt = None if isinstance(fl, ast.While) else fl.target
    if tgt is not None and item_pos is None:
        return isinstance(v, ast.Name) and v.id in {x.id for x in ast.walk(tgt) if isinstance(x, ast.Name)}

    def resolve(e: ast.AST, depth: int = 3):
        """("whole",) = the element of this iteration, ("idx", k, n|None) = its component k (of an n-tuple pattern)."""
        if tgt is None and isinstance(e, ast.Call) and last(call_name(e)) == "heappop" and e.args and dotted(e.args[0]) == buf:
            return ("whole",)
        if isinstance(e, ast.Name) and tgt is not None:
            if isinstance(tgt, ast.Name) and tgt.id == e.id:
                return ("whole",)
            if isinstance(tgt, (ast.Tuple, ast.List)):
                for k, el in enumerate(tgt.elts):
                    if isinstance(el, ast.Name) and el.id == e.id:
                        return ("idx", k, len(tgt.elts))
        if isinstance(e, ast.Subscript) and _int_const(e.slice) is not None:
            return ("idx", _int_const(e.slice), None) if resolve(e.value, depth) == ("whole",) else None
        if isinstance(e, ast.Name) and depth > 0:
            for s in ast.walk(fl):
                if not (isinstance(s, ast.Assign) and len(s.targets) == 1):
                    continue
                t = s.targets[0]
                if isinstance(t, ast.Name) and t.id == e.id:
                    return resolve(s.value, depth - 1)
                if isinstance(t, (ast.Tuple, ast.List)) and resolve(s.value, depth - 1) == ("whole",):
                    for k, el in enumerate(t.elts):
                        if isinstance(el, ast.Name) and el.id == e.id:
                            return ("idx", k, len(t.elts))
        return None

    r = resolve(v)
    if r is None:
        return False
    if item_pos is None:
        return r == ("whole",)
    return r[0] == "idx" and hit(r[1], r[2])


def _flag_status(fn: ast.AST, cfg: CFG, name: str, want: bool, flush_nodes: list[Node], ynode: Node, loop_heads: list[Node]) -> tuple[bool, str, str]:
    """Is local ``name`` a monotone flag that takes value ``want`` only in the flush branch?"""
    if name in _params(fn):
        return False, "guard-is-a-parameter", f"`{name}` is a parameter, not a fact established by the flush branch"
    binds = _name_assignments(fn, name)
    if not binds:
        return False, "guard-reads-foreign-state", f"`{name}` is not a local of this coroutine"
    vals = []
    for s in binds:
        v = _const_bool_assign(s, name)
        if v is None:
            return False, "flag-not-constant", f"flag `{name}` is assigned a non-constant value (`{ast.unparse(s)[:70]}`): it mirrors state written elsewhere"
        vals.append((s, v))
    sets = [(s, n) for s, v in vals if v is want for n in cfg.nodes_of(s)]
    if not sets:
        return False, "flag-never-set", f"flag `{name}` never becomes {want}: items after the flush would be buffered forever"
    for s, n in sets:
        dominated = not cfg.must_pass([cfg.entry], [n], flush_nodes)
        tied = not cfg.must_pass([n], loop_heads + [cfg.exit], flush_nodes, labels_excluded=NOEXC, include_starts=False)
        if not (dominated or tied):
            return False, "flag-set-outside-flush", f"`{name} = {want}` at line {n.line} is reachable without passing the flush of the buffer"
    inits = [n for s, v in vals if v is (not want) for n in cfg.nodes_of(s)]
    if not inits or cfg.must_pass([cfg.entry], [ynode], inits):
        return False, "flag-uninitialised", f"flag `{name}` is not initialised to {not want} on every path to the passthrough"
    return True, "", ""


def _r1_r3(chk, m, fn) -> None:
    if not isinstance(fn, ast.AsyncFunctionDef):
        raise AnchorError("C29: debounced_sorted_prefix is no longer an async generator function")
    cfg = CFG(fn)
    buf = _bind_buffer(fn)
    # merged-stream loops: async for <item> in <merge_generators(...)>
    merged_loops = []
    for s in walk_shallow(fn):
        if isinstance(s, ast.AsyncFor):
            it = expand(s.iter, s)
            if any(isinstance(c, ast.Call) and last(call_name(c)) == "merge_generators" for c in ast.walk(it)):
                merged_loops.append(s)
    chk.floor("C29.R1", "loops over the merged (inner + debouncer) stream", len(merged_loops), 1)
    loop_heads = [n for s in merged_loops for n in cfg.nodes_of(s)]
    item_names = {x.id for s in merged_loops for x in ast.walk(s.target) if isinstance(x, ast.Name)}

    # flush: the sort of the buffer (or the insertions that keep it ordered), the loop that yields it
    ops = [(c, _buf_role(c)[1]) for c in walk_shallow(fn) if isinstance(c, ast.Call) and (_buf_role(c) or ("", ""))[0] == buf]
    sort_calls = [c for c, r in ops if r in ("sort", "sorted")]
    fills = [(c, r) for c, r in ops if r in _FILL_ROLES]
    pops = [c for c, r in ops if r == "heappop"]
    sort_nodes = [n for c in sort_calls for n in cfg.node_of_containing(c)]

    def _drains(s: ast.AST) -> bool:  # `while <buf>: ... heappop(<buf>) ... yield ...`
        return isinstance(s, ast.While) and any(isinstance(x, ast.Name) and x.id == buf for x in ast.walk(s.test)) and any(_inside(c, s) for c in pops)

    flush_loops = [s for s in walk_shallow(fn) if s not in merged_loops
                   and ((isinstance(s, (ast.For, ast.AsyncFor)) and any(isinstance(x, ast.Name) and x.id == buf for e in (s.iter, expand(s.iter, s, depth=1)) for x in ast.walk(e)))
                        or _drains(s))
                   and any(isinstance(x, ast.Yield) for b in s.body for x in ast.walk(b))]
    chk.floor("C29.R3", "flush loops (iterate the buffer and yield)", len(flush_loops), 1)
    # "the flush" for the typestate rule R1: the sort where there is one, else (buffer kept ordered while it is filled) the head of the flush loop
    flush_nodes = sort_nodes or [n for fl in flush_loops for n in cfg.nodes_of(fl)]
    if not flush_nodes:
        raise AnchorError("C29: flush of the burst buffer not found on the CFG")

    ynodes = _yield_nodes(cfg)
    passthrough = [(n, y) for n, y in ynodes if not any(_inside(y, fl) for fl in flush_loops)]
    chk.floor("C29.R1", "passthrough yields", len(passthrough), 1)

    # ------------------------------------------------------------ R1
    for n, y in passthrough:
        off = cfg.must_pass([cfg.entry], [n], flush_nodes)
        if not off:
            chk.ob("C29.R1", "passthrough yield is reachable only through the flush of the sorted burst (control flow)", True,
                   m=m, node=y, fn=fn, instance="passthrough")
            continue
        raw = facts_at(cfg, n, expand_locals=False)
        flag_results = []
        foreign = []
        mixed = []
        for text, pol in sorted(raw):
            e = ast.parse(text, mode="eval").body
            names = {x.id for x in ast.walk(e) if isinstance(x, ast.Name)}
            if isinstance(e, ast.Constant):
                continue
            if isinstance(e, ast.Name):
                flag_results.append((text, pol) + _flag_status(fn, cfg, text, pol, flush_nodes, n, loop_heads))
                continue
            if isinstance(e, ast.BoolOp) and any(isinstance(v, ast.Name) and _name_assignments(fn, v.id) for v in ast.walk(e)):
                mixed.append(("" if pol else "not ") + text)
                continue
            if isinstance(e, ast.Compare) and len(e.ops) == 1 and isinstance(e.ops[0], (ast.Is, ast.Eq)) and isinstance(e.left, ast.Name) \
                    and isinstance(e.comparators[0], ast.Constant) and isinstance(e.comparators[0].value, bool):
                v = e.comparators[0].value if pol else not e.comparators[0].value
                flag_results.append((e.left.id, v) + _flag_status(fn, cfg, e.left.id, v, flush_nodes, n, loop_heads))
                continue
            # atoms over the stream item and constants only (the sentinel test) say nothing about the state
            if names and names <= item_names and not any(isinstance(x, (ast.Attribute, ast.Call)) for x in ast.walk(e)):
                continue
            foreign.append(("" if pol else "not ") + text)
        good = [r for r in flag_results if r[2]]
        if good:
            chk.ob("C29.R1", f"passthrough yield is guarded by the local flag `{good[0][0]}` that only the flush branch sets to {good[0][1]}", True,
                   m=m, node=y, fn=fn, instance="passthrough")
            continue
        if flag_results:
            mode, reason = flag_results[0][3], flag_results[0][4]
        elif mixed:
            mode = "flag-or-foreign-state"
            reason = f"the guard `{mixed[0][:100]}` lets the passthrough happen on foreign state alone (a disjunction with the local flag)"
        elif foreign:
            mode = "guard-reads-foreign-state"
            reason = (f"the only guard is `{'; '.join(foreign)[:120]}`: state that another task sets (not a fact established by the flush branch), "
                      "so an item arriving after it is set but before the sentinel is delivered is yielded before the sorted burst")
        else:
            mode, reason = "unguarded", "a stream item can be yielded while the burst is still being buffered"
        p = cfg.path(cfg.entry, n, blocked=flush_nodes)
        chk.ob("C29.R1", "passthrough yield happens only in state `flushed` (fact established by the flush branch of this coroutine)", False,
               m=m, node=y, fn=fn, instance=f"passthrough:{mode}", reason=reason, path=_lines(p))

    # ------------------------------------------------------------ R3
    # the caller's key function: a parameter of the generator other than the stream and the two window lengths
    key_params = {p.arg for p in fn.args.kwonlyargs + fn.args.args if "Callable" in (ast.unparse(p.annotation) if p.annotation is not None else "") or p.arg == "key"}
    if not key_params:
        raise AnchorError("C29.R3: debounced_sorted_prefix has no key-function parameter")
    shape = _element_shape(fn, cfg, buf, fills, item_names, key_params, merged_loops)
    order_ops = [(c, r) for c, r in ops if r in _ORDER_ROLES]
    chk.floor("C29.R3", "operations that order the burst buffer (sort / sorted / insort / heappush)", len(order_ops), 1)
    for c, role in order_ops:
        ok, mode, reason = _order_verdict(c, role, shape, key_params)
        slot = "sort-key" if role in ("sort", "sorted") else "insert-order"
        chk.ob("C29.R3", "the burst is ordered ascending by the caller's key and by nothing else: the ordering operation compares keys only, so that items with equal keys "
               "are never compared with each other (ties stay in arrival order, non-orderable items cannot raise inside the generator)", ok, m=m, node=c, fn=fn,
               instance=slot if ok or mode == "not-by-key" else f"{slot}:{mode}", reason=reason)
    item_pos = shape["item"] if shape is not None and shape["tuple"] else None
    width = len(shape["kinds"]) if item_pos is not None else 0
    for fl in flush_loops:
        drain = isinstance(fl, ast.While)
        if drain:
            whole = atoms(fl.test, True) == [(buf, True)]
            what = fl.test
        else:
            it = what = fl.iter
            whole = (isinstance(it, ast.Name) and it.id == buf) or (isinstance(it, ast.Call) and call_name(it) == "sorted" and it.args and dotted(it.args[0]) == buf)
            if not whole:
                ex = expand(it, fl)
                whole = (isinstance(ex, ast.Call) and call_name(ex) == "sorted" and ex.args and dotted(ex.args[0]) == buf)
        chk.ob("C29.R3", "the flush loop iterates the whole buffer", bool(whole), m=m, node=fl, fn=fn, instance="flush-iter",
               reason=f"flush iterates `{ast.unparse(what)[:60]}`, not the whole buffer")
        heads = cfg.nodes_of(fl)
        ys = [n for n, y in ynodes if _inside(y, fl) and _yields_item(y, fl, buf, item_pos, width)]
        for h in heads:
            starts = [t for lab, t in cfg.succ[h] if lab in ("loop", "T")]
            skip = cfg.must_pass(starts, [h], ys, labels_excluded=NOEXC) if ys else [h]
            chk.ob("C29.R3", "every buffered element is yielded by the flush loop (no conditional skip)", not skip, m=m, node=fl, fn=fn,
                   instance="flush-yield", reason="an iteration of the flush loop can complete without yielding its element"
                   + (f" (buffered elements are {width}-tuples whose component {item_pos} is the item: that component must be yielded)" if item_pos is not None else ""))
        # the loop sees the buffer in sorted order: sorted just before / in the header, or kept ordered by every insertion
        for h in heads:
            inline = not drain and any(isinstance(x, ast.Call) and call_name(x) == "sorted" for x in ast.walk(fl.iter))
            why = "the flush loop is reachable without passing the sort"
            if inline:
                unsorted = False
            elif sort_nodes:
                unsorted = bool(cfg.must_pass([cfg.entry], [h], sort_nodes))
            elif drain:
                unsorted = not (fills and all(r == "heappush" for _c, r in fills))
                why = f"the flush pops `{buf}` as a heap, but not every insertion is a heappush"
            else:
                roles = {r for _c, r in fills}
                unsorted = not (roles and roles <= {"insort", "insort_left"})
                why = (f"`{buf}` is filled with heappush (heap order is not sorted order) and walked without heappop or a sort" if "heappush" in roles
                       else f"there is no sort before the flush and not every insertion into `{buf}` keeps it ordered ({sorted(roles)})")
            chk.ob("C29.R3", "the buffer is sorted before it is flushed", not unsorted, m=m, node=fl, fn=fn, instance="sort-before-flush", reason=why)
    # resets of the buffer only after the completed flush loop
    append_nodes = [n for c, _r in fills for n in cfg.node_of_containing(c)]
    chk.floor("C29.R3", "buffering sites (append to the buffer)", len(append_nodes), 1)
    after_append = cfg.reach(append_nodes, include_starts=False)
    resets = []
    for n in cfg.nodes:
        if n.ast is None or n.kind != "stmt":
            continue
        s = n.ast
        is_reset = False
        if isinstance(s, (ast.Assign, ast.AnnAssign)) and buf in assigned_names(s) and getattr(s, "value", None) is not None:
            is_reset = True
        if isinstance(s, ast.Delete) and any(isinstance(x, ast.Name) and x.id == buf for x in ast.walk(s)):
            is_reset = True
        for c in _calls_in(n):
            if isinstance(c.func, ast.Attribute) and c.func.attr in ("clear", "pop", "remove", "popleft") and dotted(c.func.value) == buf:
                is_reset = True
        if is_reset and n in after_append:
            resets.append(n)
    done_edges = [(h, "F" if isinstance(fl, ast.While) else "done") for fl in flush_loops for h in cfg.nodes_of(fl)]
    for r in resets:
        early = r in cfg.reach([cfg.entry], blocked_edges=done_edges)
        chk.ob("C29.R3", "the buffer is reset only after the flush loop has yielded all of it", not early, m=m, node=r.ast, fn=fn,
               instance="buffer-reset", reason="the buffer can be emptied before its elements were yielded (burst lost)")
    # every merged item is buffered, yielded or the sentinel
    consume = append_nodes + [n for n, _y in passthrough] + flush_nodes
    sentinel_edges: list[tuple[Node, str]] = []
    for t in [n for n in cfg.nodes if n.kind == "test"]:
        for lab in ("T", "F"):
            for text, pol in atoms(t.ast.test, lab == "T"):
                e = ast.parse(text, mode="eval").body
                if pol and isinstance(e, ast.Compare) and len(e.ops) == 1 and isinstance(e.ops[0], (ast.Eq, ast.Is)):
                    sides = [e.left, e.comparators[0]]
                    if any(isinstance(x, ast.Name) and x.id in item_names for x in sides) and any(isinstance(x, ast.Constant) or (isinstance(x, ast.Name) and x.id.isupper()) for x in sides):
                        sentinel_edges.append((t, lab))
    for s in merged_loops:
        for h in cfg.nodes_of(s):
            starts = [t for lab, t in cfg.succ[h] if lab == "loop"]
            dropped = [h] if h in cfg.reach(starts, blocked=consume, blocked_edges=sentinel_edges, labels_excluded=NOEXC) else []
            p = cfg.path(starts[0], h, blocked=consume, labels_excluded=NOEXC) if dropped and starts else []
            chk.ob("C29.R3", "every item of the merged stream is buffered, yielded, or the flush sentinel", not dropped, m=m, node=s, fn=fn,
                   instance="item-consumed", reason="an iteration of the stream loop can complete without buffering or yielding its item", path=_lines(p))


# ------------------------------------------------------------------------------------------- R2


def _r2(chk, m, fn) -> None:
    if not isinstance(fn, ast.AsyncFunctionDef):
        raise AnchorError("C29: merge_generators is no longer an async generator function")
    cfg = CFG(fn)
    ynodes = _yield_nodes(cfg)
    # values taken from finished tasks
    results = []
    for n in cfg.nodes:
        if n.kind != "stmt" or not isinstance(n.ast, (ast.Assign, ast.AnnAssign)):
            continue
        v = n.ast.value
        if isinstance(v, ast.Call) and isinstance(v.func, ast.Attribute) and v.func.attr == "result" and not v.args:
            tgt = n.ast.targets[0] if isinstance(n.ast, ast.Assign) else n.ast.target
            if isinstance(tgt, ast.Name):
                results.append((n, tgt.id))
    chk.floor("C29.R2", "`<task>.result()` fetches", len(results), 1)

    loops = [n for n in cfg.nodes if n.kind in ("iter", "test") and isinstance(n.ast, (ast.For, ast.AsyncFor, ast.While))]
    # paths that exist only when the caller opts in (keyword parameter defaulting to False, or a local flag set True only under it)
    optin = _optin_params(fn)
    optin_edges: list[tuple[Node, str]] = []
    optin_flags: list[str] = []
    for t in [n for n in cfg.nodes if n.kind == "test"]:
        for lab in ("T", "F"):
            for text, pol in atoms(t.ast.test, lab == "T"):
                if not pol or not text.isidentifier():
                    continue
                if text in optin:
                    optin_edges.append((t, lab))
                elif _is_optin_flag(fn, cfg, text, optin):
                    optin_edges.append((t, lab))
                    optin_flags.append(text)
    collectors: dict[str, list[Node]] = {}
    for rn, var in results:
        takes = []
        for n in cfg.nodes:
            for c in _calls_in(n):
                if isinstance(c.func, ast.Attribute) and c.func.attr in ("append", "put_nowait", "appendleft") and isinstance(c.func.value, ast.Name) \
                        and any(isinstance(x, ast.Name) and x.id == var for a in c.args for x in ast.walk(a)):
                    takes.append(n)
                    collectors.setdefault(c.func.value.id, []).append(n)
        direct = [n for n, y in ynodes if y.value is not None and any(isinstance(x, ast.Name) and x.id == var for x in ast.walk(y.value))
                  and not any(isinstance(a, (ast.For, ast.AsyncFor)) and var in {x.id for x in ast.walk(a.target) if isinstance(x, ast.Name)} for a in ancestors(y))]
        starts = [t for lab, t in cfg.succ[rn] if lab not in NOEXC]
        r = cfg.reach(starts, blocked=takes + direct, blocked_edges=optin_edges, labels_excluded=NOEXC)
        lost = [t for t in loops + [cfg.exit] if t in r]
        lost = [t for t in lost if t is not rn]
        p = cfg.path(starts[0], lost[0], blocked=takes + direct, labels_excluded=NOEXC) if lost and starts else []
        chk.ob("C29.R2", f"a value obtained from `.result()` (`{var}`) is collected or yielded on every normal path", not lost, m=m, node=rn.ast, fn=fn,
               instance="result-collected", reason="the item of a finished source task can be dropped", path=_lines(p))

    for lst, app_nodes in sorted(collectors.items()):
        # the loop that yields the collected values
        yloops = [s for s in walk_shallow(fn) if isinstance(s, (ast.For, ast.AsyncFor)) and isinstance(s.iter, ast.Name) and s.iter.id == lst
                  and any(isinstance(x, ast.Yield) for b in s.body for x in ast.walk(b))]
        if not yloops:
            raise AnchorError(f"C29.R2: values are collected in `{lst}` but no loop over it yields them (unrecognised hand-over idiom)")
        heads = [h for s in yloops for h in cfg.nodes_of(s)]
        for s in yloops:
            tn = {x.id for x in ast.walk(s.target) if isinstance(x, ast.Name)}
            ys = [n for n, y in ynodes if _inside(y, s) and y.value is not None and any(isinstance(x, ast.Name) and x.id in tn for x in ast.walk(y.value))]
            for h in cfg.nodes_of(s):
                starts = [t for lab, t in cfg.succ[h] if lab == "loop"]
                skip = cfg.must_pass(starts, [h], ys, labels_excluded=NOEXC) if ys else [h]
                chk.ob("C29.R2", f"every collected value in `{lst}` is yielded (no conditional skip in the yield loop)", not skip, m=m, node=s, fn=fn,
                       instance="collected-yielded", reason="an iteration over the collected values can complete without yielding")
        outer_heads = [n for n in loops if any(_inside(s, n.ast) for s in yloops)]
        targets = [cfg.exit] + outer_heads
        for a in app_nodes:
            r_all = cfg.reach([a], blocked=heads, labels_excluded=NOEXC, include_starts=False)
            r_def = cfg.reach([a], blocked=heads, blocked_edges=optin_edges, labels_excluded=NOEXC, include_starts=False)
            bypass_def = [t for t in targets if t in r_def]
            bypass_all = [t for t in targets if t in r_all]
            p = cfg.path(a, bypass_def[0], blocked=heads, labels_excluded=NOEXC) if bypass_def else []
            chk.ob("C29.R2", f"a value appended to `{lst}` reaches the yield loop before the round ends or the generator returns", not bypass_def,
                   m=m, node=a.ast, fn=fn, instance="collected-reaches-yield", reason="collected values can be discarded without being yielded", path=_lines(p))
            if bypass_all and not bypass_def:
                chk.observe(f"C29.R2: values already collected in `{lst}` are discarded when a source ends in the same round and the caller passed "
                            f"{sorted(optin)}=True (flag(s) {sorted(set(optin_flags))}); outside the statement, which is about the default merge")
        # fresh per round
        fresh_init = [n for n in cfg.nodes if n.kind == "stmt" and isinstance(n.ast, (ast.Assign, ast.AnnAssign)) and lst in assigned_names(n.ast)]
        fresh_init += [n for n in cfg.nodes for c in _calls_in(n) if isinstance(c.func, ast.Attribute) and c.func.attr == "clear" and dotted(c.func.value) == lst]
        for s in yloops:
            for h in cfg.nodes_of(s):
                starts = [t for lab, t in cfg.succ[h] if lab == "done"]
                stale = cfg.must_pass(starts, app_nodes, fresh_init, labels_excluded=NOEXC)
                chk.ob("C29.R2", f"`{lst}` is re-created before the next round appends to it (no value is yielded twice)", not stale, m=m, node=s, fn=fn,
                       instance="collected-fresh", reason="values yielded in one round are still in the list in the next round and are yielded again")

    # stored exception is re-raised
    handlers = []
    for s in walk_shallow(fn):
        if isinstance(s, ast.Try) and any(rn.ast is b or _inside(rn.ast, b) for rn, _v in results for b in s.body):
            for h in s.handlers:
                names = [ast.unparse(e).split(".")[-1] for e in (h.type.elts if isinstance(h.type, ast.Tuple) else [h.type])] if h.type is not None else ["BaseException"]
                if set(names) <= {"StopAsyncIteration", "StopIteration"}:
                    continue
                handlers.append(h)
    chk.floor("C29.R2", "handlers that catch a source's exception", len(handlers), 0)
    raises = [n for n in cfg.nodes if n.kind == "stmt" and isinstance(n.ast, ast.Raise)]
    for h in handlers:
        stored = []
        if h.name:
            for s in h.body:
                for x in ast.walk(s):
                    if isinstance(x, ast.Assign) and len(x.targets) == 1 and isinstance(x.targets[0], ast.Name) and isinstance(x.value, ast.Name) and x.value.id == h.name:
                        stored.append(x.targets[0].id)
        blocked_edges: list[tuple[Node, str]] = []
        for var in stored:
            others = [s for s in _name_assignments(fn, var) if not (isinstance(s, (ast.Assign, ast.AnnAssign)) and isinstance(s.value, ast.Constant) and s.value.value is None)
                      and not _inside(s, h)]
            if others:
                raise AnchorError(f"C29.R2: `{var}` (stored source exception) has assignments the rule does not understand: {ast.unparse(others[0])[:60]}")
            blocked_edges += _fact_edges(cfg, f"{var} is None", True)
        good_raises = [n for n in raises if n.ast.exc is None and _inside(n.ast, h)] + \
                      [n for n in raises if isinstance(n.ast.exc, ast.Name) and (n.ast.exc.id in stored or n.ast.exc.id == h.name)]
        for hn in cfg.nodes_of(h):
            r = cfg.reach([hn], blocked=good_raises, blocked_edges=blocked_edges, labels_excluded=NOEXC)
            swallowed = cfg.exit in r
            p = cfg.path(hn, cfg.exit, blocked=good_raises, labels_excluded=NOEXC) if swallowed else []
            chk.ob("C29.R2", "an exception raised by a source is re-raised to the consumer after cleanup", not swallowed, m=m, node=h, fn=fn,
                   instance="source-error-reraised", reason="the generator can finish normally after a source raised (error swallowed)", path=_lines(p))


# ------------------------------------------------------------------------------------------- R4

_TASK_SPAWN = ("create_task", "ensure_future")
_STATE_READS = ("done", "cancelled")
_FILL = ("append", "appendleft", "add", "put_nowait", "insert", "extend")


def _spawns(v: ast.AST | None) -> bool:
    return isinstance(v, ast.Call) and last(call_name(v)) in _TASK_SPAWN


def _task_tables(fn: ast.AST) -> list[str]:
    """Locals that hold the pending tasks: `T[k] = create_task(...)` or `T = {k: create_task(...) for ...}`."""
    names: set[str] = set()
    for s in walk_shallow(fn):
        if isinstance(s, ast.Assign):
            tgts, v = list(s.targets), s.value
        elif isinstance(s, ast.AnnAssign) and s.value is not None:
            tgts, v = [s.target], s.value
        else:
            continue
        for t in tgts:
            if isinstance(t, ast.Subscript) and isinstance(t.value, ast.Name) and _spawns(v):
                names.add(t.value.id)
            if isinstance(t, ast.Name) and isinstance(v, ast.DictComp) and _spawns(v.value):
                names.add(t.id)
    return sorted(names)


def _flow_slice(fn: ast.AST, starts: list[ast.AST], stop: set[str]) -> list[ast.AST]:
    """May-dependence of the start expressions: dep_slice, continued through in-place fills (`L.append(x)` makes L depend on x)."""
    fills: dict[str, list[ast.AST]] = {}
    for c in walk_shallow(fn):
        if isinstance(c, ast.Call) and isinstance(c.func, ast.Attribute) and isinstance(c.func.value, ast.Name) and c.func.attr in _FILL:
            fills.setdefault(c.func.value.id, []).extend(c.args)
    exprs: list[ast.AST] = []
    seen_e: set[int] = set()
    seen_n: set[str] = set()
    todo = list(starts)
    while todo:
        sl = dep_slice(fn, todo.pop(), stop=stop)
        for x in sl.exprs:
            if id(x) not in seen_e:
                seen_e.add(id(x))
                exprs.append(x)
        for nm in sorted(sl.locals | sl.leaves):
            if nm not in seen_n and nm not in stop:
                seen_n.add(nm)
                todo.extend(fills.get(nm, []))
    return exprs


def _reads_task_state(exprs: list[ast.AST]) -> ast.Call | None:
    for e in exprs:
        for c in ast.walk(e):
            if isinstance(c, ast.Call) and isinstance(c.func, ast.Attribute) and c.func.attr in _STATE_READS and not c.args:
                return c
    return None


def _r4(chk, m, fn) -> None:
    cfg = CFG(fn)
    tables = _task_tables(fn)
    if len(tables) != 1:
        raise AnchorError(f"C29.R4: cannot bind the pending-task table of merge_generators (locals filled with create_task results: {tables})")
    tab = tables[0]
    chk.floor("C29.R4", "pending-task tables (local dict of create_task results)", len(tables), 1)
    waits = [c for c in walk_shallow(fn) if isinstance(c, ast.Call) and last(call_name(c)) == "wait"
             and any(isinstance(x, ast.Name) and x.id == tab for a in list(c.args) + [k.value for k in c.keywords] for x in ast.walk(expand(a, c)))]
    wait_nodes = [n for c in waits for n in cfg.node_of_containing(c)]
    chk.floor("C29.R4", "waits on the values of the pending-task table", len(wait_nodes), 1)
    after_wait = cfg.reach(wait_nodes, include_starts=False)

    def in_round(n: Node) -> bool:
        return n in after_wait and any(w in cfg.reach([n], include_starts=False) for w in wait_nodes)

    susp = [n for n in cfg.nodes if n.ast is not None and n not in wait_nodes and in_round(n)
            and (isinstance(n.ast, (ast.AsyncFor, ast.AsyncWith)) or any(is_suspension(x) for x in exprs_in_node(n)))]
    chk.floor("C29.R4", "suspension points inside the round loop other than the wait (yield of a merged item)", len(susp), 1)

    # every way an entry can leave the table inside the round loop: (node, kind, key expression | None, selecting expression | None)
    exits: list[tuple[Node, str, ast.AST | None, ast.AST | None]] = []
    for n in cfg.nodes:
        if n.ast is None:
            continue
        found: list[tuple[str, ast.AST | None, ast.AST | None]] = []
        for c in _calls_in(n):
            if isinstance(c.func, ast.Attribute) and dotted(c.func.value) == tab:
                if c.func.attr == "pop" and c.args:
                    found.append(("keyed", c.args[0], None))
                elif c.func.attr in ("pop", "popitem", "clear"):
                    found.append(("bulk", None, None))
        if n.kind == "stmt" and isinstance(n.ast, ast.Delete):
            for t in n.ast.targets:
                if isinstance(t, ast.Subscript) and dotted(t.value) == tab:
                    found.append(("keyed", t.slice, None))
                elif isinstance(t, ast.Name) and t.id == tab:
                    found.append(("bulk", None, None))
        if n.kind == "stmt" and isinstance(n.ast, (ast.Assign, ast.AnnAssign, ast.AugAssign)) and getattr(n.ast, "value", None) is not None:
            tg = n.ast.targets if isinstance(n.ast, ast.Assign) else [n.ast.target]
            if any(isinstance(x, ast.Name) and x.id == tab for t in tg for x in ([t] if isinstance(t, ast.Name) else (t.elts if isinstance(t, (ast.Tuple, ast.List)) else []))):
                found.append(("bulk", None, n.ast.value))
        if found and in_round(n):
            exits += [(n, k, key, sel) for k, key, sel in found]
    chk.floor("C29.R4", "removals from the pending-task table inside the round loop", len(exits), 1)

    for n, kind, key, sel in exits:
        guard_exprs = [ast.parse(text, mode="eval").body for text, _pol in sorted(facts_at(cfg, n, expand_locals=False))]
        starts = [x for x in (key, sel) if x is not None]
        sl = _flow_slice(fn, starts, {tab}) if starts else []
        state = _reads_task_state(sl + guard_exprs)
        what = ast.unparse(n.ast if n.kind == "stmt" else (key or n.ast))[:90].replace("\n", " ")
        if state is not None:
            offenders = [s for s in susp if n in cfg.reach([s], blocked=wait_nodes, include_starts=False)]
            p = cfg.path(offenders[0], n, blocked=wait_nodes) if offenders else []
            chk.ob("C29.R4", f"entries are removed from `{tab}` on `{ast.unparse(state)}` only before the first suspension point that follows the wait",
                   not offenders, m=m, node=n.ast, fn=fn, instance="prune-on-done-after-suspension" if offenders else "prune-on-done",
                   reason=(f"`{what}` drops every finished task and is reachable from the suspension at line {offenders[0].line if offenders else 0} without "
                           f"passing the wait again: a task that finishes while the consumer holds the yielded item is `done()` here although this round's "
                           f"wait did not report it and nothing read its `.result()`; its item, its source's later items (no new task is scheduled), or its "
                           f"error are lost.  Remove an entry where its own outcome is taken, or prune before the first yield/await after the wait"),
                   path=_lines(p))
            continue
        if kind == "bulk":
            raise AnchorError(f"C29.R4: `{what}` empties or rebinds the pending-task table inside the round loop without selecting on the tasks' state "
                              "(unrecognised removal idiom)")
        from_wait = any(c is w for e in sl for c in ast.walk(e) for w in waits)
        chk.ob("C29.R4", f"a keyed removal from `{tab}` names a task that this round's wait reported finished", from_wait, m=m, node=n.ast, fn=fn,
               instance="removal-key" if from_wait else "removal-key-not-from-wait",
               reason=(f"the key of `{what}` does not depend on the result of the wait (nor on the list the fetched values were collected in): the removed entry "
                       "is a task whose outcome nobody has taken, so its item or error is lost and its source is never polled again"))


def _is_optin_flag(fn: ast.AST, cfg: CFG, name: str, optin: set[str]) -> bool:
    if not optin or name in _params(fn):
        return False
    binds = _name_assignments(fn, name)
    if not binds:
        return False
    for s in binds:
        v = _const_bool_assign(s, name)
        if v is None:
            return False
        if v is True:
            for n in cfg.nodes_of(s):
                facts = facts_at(cfg, n, expand_locals=False)
                if not any(pol and text in optin for text, pol in facts):
                    return False
    return True


# ------------------------------------------------------------------------------------------- entry


def run(chk) -> None:
    repo = chk.repo
    m, fn = repo.func(f"{MOD}:debounced_sorted_prefix")
    _r1_r3(chk, m, fn)
    m2, mg = repo.func(f"{MOD}:merge_generators")
    _r2(chk, m2, mg)
    _r4(chk, m2, mg)
    # the foreign fact R1 talks about: who sets it
    try:
        _mm, loop_fn = repo.func(f"{MOD}:Debouncer._loop")
        setters = [c for c in ast.walk(loop_fn) if isinstance(c, ast.Call) and isinstance(c.func, ast.Attribute) and c.func.attr == "set"]
        if setters:
            chk.observe("Debouncer._loop (a separate task) sets complete_signal before Debouncer.aiter() resumes and before merge_generators "
                        "hands the sentinel to debounced_sorted_prefix; `is_complete` is therefore true strictly earlier than the flush.")
    except AnchorError:
        pass


# ------------------------------------------------------------------------------------------- twins

_P = "packages/llama-agents-core/src/llama_agents/core/iter_utils.py"

def _body_text() -> str:
    """Current text of the buffering/flush part of debounced_sorted_prefix (everything after the merged stream is built),
    read at import time so that the whole-block twins follow the source instead of being skipped when it is reformatted."""
    try:
        src = (repo_root() / _P).read_text(encoding="utf-8")
    except OSError:
        return "\0iter_utils.py missing"
    marker = "    merged = merge_generators(inner, debouncer.aiter())\n"
    i = src.find(marker)
    j = src.find("\n\nCOMPLETE = ", i)
    if i < 0 or j < 0:
        return "\0debounced_sorted_prefix body not located"
    return src[i + len(marker): j + 1]


_BODY_OLD = _body_text()

# the shape before the repair (guard reads the debouncer's flag, which another task sets before the sentinel arrives)
_PINNED = '''    async for item in merged:
        if item == "__COMPLETE__":
            buffer.sort(key=key)
            for buffered_item in buffer:
                yield buffered_item
            buffer = []
        else:
            # item is T after checking != "__COMPLETE__"
            actual_item = cast(T, item)
            if debouncer.is_complete:
                yield actual_item
            else:
                debouncer.extend_window()
                buffer.append(actual_item)
'''

_FIXED = '''    flushed = False
    async for item in merged:
        if item == "__COMPLETE__":
            flushed = True
            buffer.sort(key=key)
            for buffered_item in buffer:
                yield buffered_item
            buffer = []
        else:
            actual_item = cast(T, item)
            if flushed:
                yield actual_item
            else:
                debouncer.extend_window()
                buffer.append(actual_item)
'''

_FIXED_EARLY_CONTINUE = '''    buffering = True
    async for item in merged:
        if item != "__COMPLETE__":
            actual_item = cast(T, item)
            if buffering:
                debouncer.extend_window()
                buffer.append(actual_item)
                continue
            yield actual_item
            continue
        buffer.sort(key=key)
        for buffered_item in buffer:
            yield buffered_item
        buffer = []
        buffering = False
'''

_FIXED_TWO_LOOPS = '''    async for item in merged:
        if item == "__COMPLETE__":
            break
        debouncer.extend_window()
        buffer.append(cast(T, item))
    for buffered_item in sorted(buffer, key=key):
        yield buffered_item
    buffer = []
    async for item in merged:
        if item != "__COMPLETE__":
            yield cast(T, item)
'''

_BROKEN_REFRESH = _FIXED.replace("            actual_item = cast(T, item)\n", "            actual_item = cast(T, item)\n            flushed = debouncer.is_complete\n")
_BROKEN_SET_OUTSIDE = _FIXED.replace("            actual_item = cast(T, item)\n", "            actual_item = cast(T, item)\n            if debouncer.is_complete:\n                flushed = True\n")
_BROKEN_OR = _FIXED.replace("            if flushed:\n", "            if flushed or debouncer.is_complete:\n")
_BROKEN_POLARITY = _FIXED.replace("            if flushed:\n", "            if not flushed:\n")
_BROKEN_RESET_FIRST = _FIXED.replace("            for buffered_item in buffer:\n                yield buffered_item\n            buffer = []\n",
                                     "            pending, buffer = buffer, []\n            for buffered_item in buffer:\n                yield buffered_item\n")
_BROKEN_DROP_NONE = _FIXED.replace("            if flushed:\n", "            if actual_item is None:\n                continue\n            if flushed:\n")

# ---- ordering of the burst: which components of two buffered elements are compared
_SORT_FLUSH = "            buffer.sort(key=key)\n            for buffered_item in buffer:\n"
_APPEND_ITEM = "                buffer.append(actual_item)\n"


def _ordered(insert: str, flush: str, pre: str = "") -> str:
    return (pre + _FIXED).replace(_APPEND_ITEM, insert).replace(_SORT_FLUSH, flush)


_WALK2 = "            for _, buffered_item in buffer:\n"
_WALK3 = "            for _, _, buffered_item in buffer:\n"
_SEED_INSORT_PAIRS = _ordered("                bisect.insort(buffer, (key(actual_item), actual_item))\n", _WALK2)
_HEAP_PAIRS = _ordered("                heapq.heappush(buffer, (key(actual_item), actual_item))\n",
                       "            while buffer:\n                _, buffered_item = heapq.heappop(buffer)\n")
_DECORATED_SORT_PAIRS = _ordered("                buffer.append((key(actual_item), actual_item))\n", "            buffer.sort()\n" + _WALK2)
_COUNTER_AFTER_ITEM = _ordered("                bisect.insort(buffer, (key(actual_item), actual_item, next(arrival)))\n",
                               "            for _, buffered_item, _ in buffer:\n", pre="    arrival = itertools.count()\n")
_CLOCK_TIEBREAK = _ordered("                entry = (key(actual_item), 0, actual_item)\n                bisect.insort(buffer, entry)\n", _WALK3)
_FLUSH_YIELDS_KEY = _ordered("                bisect.insort(buffer, (key(actual_item), next(arrival), actual_item))\n",
                             "            for buffered_item, _, _ in buffer:\n", pre="    arrival = itertools.count()\n")
_INSORT_LEFT_KEYED = _ordered("                bisect.insort_left(buffer, actual_item, key=key)\n", "            for buffered_item in buffer:\n")
_APPEND_BESIDE_INSORT = _ordered("                if len(buffer) < 2:\n                    buffer.append(actual_item)\n                else:\n"
                                 "                    bisect.insort(buffer, actual_item, key=key)\n", "            for buffered_item in buffer:\n")
_HEAP_WALKED = _ordered("                heapq.heappush(buffer, (key(actual_item), len(buffer), actual_item))\n", _WALK3)
_OK_INSORT_COUNTER = _ordered("                bisect.insort(buffer, (key(actual_item), next(arrival), actual_item))\n", _WALK3, pre="    arrival = itertools.count()\n")
_OK_INSORT_KEYED = _ordered("                bisect.insort(buffer, actual_item, key=key)\n", "            for buffered_item in buffer:\n")
_OK_HEAP_LEN = _ordered("                heapq.heappush(buffer, (key(actual_item), len(buffer), actual_item))\n",
                        "            while buffer:\n                buffered_item = heapq.heappop(buffer)[2]\n")
_OK_INSORT_SEQ = _ordered("                seq += 1\n                pair = (key(actual_item), seq, actual_item)\n                bisect.insort(buffer, pair)\n",
                          "            for entry in buffer:\n                buffered_item = entry[-1]\n", pre="    seq = 0\n")
_OK_DECORATED_SORT = _ordered("                buffer.append((key(actual_item), len(buffer), actual_item))\n", "            buffer.sort()\n" + _WALK3)
_OK_SORT_ITEMGETTER = _ordered("                buffer.append((key(actual_item), actual_item))\n", "            buffer.sort(key=lambda pair: pair[0])\n" + _WALK2)

_REARM = "                if active_gen is not None:\n                    next_item_tasks[task_index] = asyncio.create_task(anext(active_gen))\n"
_PRUNE_REBIND = ("            next_item_tasks = {\n                index: task\n                for index, task in next_item_tasks.items()\n"
                 "                if not task.done()\n            }\n")
_PRUNE_DEL_LOOP = ("            for stale_index, stale_task in list(next_item_tasks.items()):\n                if stale_task.done():\n"
                   "                    del next_item_tasks[stale_index]\n")
_YIELD_LOOP = '''            for task_index, value in completed_results:
                # Remove the finished task before yielding
                next_item_tasks.pop(task_index, None)
                yield value
                # Schedule the next item fetch for this generator
                active_gen: AsyncGenerator[T, None] | None = active_generators.get(
                    task_index
                )
                if active_gen is not None:
                    next_item_tasks[task_index] = asyncio.create_task(anext(active_gen))
'''
_YIELD_LOOP_SEED = _YIELD_LOOP.replace("                # Remove the finished task before yielding\n                next_item_tasks.pop(task_index, None)\n", "") + (
    "            # Finished tasks were consumed above; keep only the ones still pending\n" + _PRUNE_REBIND)
_YIELD_LOOP_RENAMED = _YIELD_LOOP.replace("for task_index, value in", "for slot, item in").replace("yield value", "yield item").replace("task_index", "slot")

TWINS = [
    # R1 — whole-block variants (anchor = current text of the buffering/flush part, read at import time)
    Twin("revert of the repair: passthrough guarded by debouncer.is_complete", _P, _BODY_OLD, _PINNED, "C29.R1"),
    Twin("benign: local flag set by the flush branch (canonical form)", _P, _BODY_OLD, _FIXED, None),
    Twin("benign: early-continue form with inverted flag", _P, _BODY_OLD, _FIXED_EARLY_CONTINUE, None),
    Twin("benign: two-loop form (control flow instead of a flag)", _P, _BODY_OLD, _FIXED_TWO_LOOPS, None),
    Twin("flag refreshed from the debouncer on every item", _P, _BODY_OLD, _BROKEN_REFRESH, "C29.R1"),
    Twin("flag also set when the debouncer reports completion", _P, _BODY_OLD, _BROKEN_SET_OUTSIDE, "C29.R1"),
    Twin("passthrough under `flushed or debouncer.is_complete`", _P, _BODY_OLD, _BROKEN_OR, "C29.R1"),
    Twin("flag polarity inverted", _P, _BODY_OLD, _BROKEN_POLARITY, "C29.R1"),
    # R1 — small anchors on the repaired text
    Twin("guard back on the debouncer's flag", _P, "            if flushed:\n                yield actual_item", "            if debouncer.is_complete:\n                yield actual_item", "C29.R1"),
    Twin("guard through the event itself", _P, "            if flushed:\n                yield actual_item", "            if debouncer.complete_signal.is_set():\n                yield actual_item", "C29.R1"),
    Twin("guard removed: every item passes through", _P, "            if flushed:\n                yield actual_item", "            if True:\n                yield actual_item", "C29.R1"),
    Twin("flag set before the loop instead of in the flush branch", _P, "    flushed = False\n", "    flushed = debounce_seconds <= 0\n", "C29.R1"),
    Twin("flag never set (flush branch forgets it)", _P, "            flushed = True\n            buffer.sort", "            buffer.sort", "C29.R1"),
    Twin("benign: flag set after the burst was yielded", _P, "            flushed = True\n            buffer.sort(key=key)\n            for buffered_item in buffer:\n                yield buffered_item\n            buffer = []\n",
         "            buffer.sort(key=key)\n            for buffered_item in buffer:\n                yield buffered_item\n            buffer = []\n            flushed = True\n", None),
    Twin("benign: negated test with swapped branches", _P, "            if flushed:\n                yield actual_item\n            else:\n                debouncer.extend_window()\n                buffer.append(actual_item)\n",
         "            if not flushed:\n                debouncer.extend_window()\n                buffer.append(actual_item)\n            else:\n                yield actual_item\n", None),
    # R3
    Twin("flush skips the first buffered element", _P, "            for buffered_item in buffer:\n", "            for buffered_item in buffer[1:]:\n", "C29.R3"),
    Twin("buffer emptied before the burst is yielded", _P, _BODY_OLD, _BROKEN_RESET_FIRST, "C29.R3"),
    Twin("sort without the caller's key", _P, "buffer.sort(key=key)", "buffer.sort()", "C29.R3"),
    Twin("descending burst", _P, "buffer.sort(key=key)", "buffer.sort(key=key, reverse=True)", "C29.R3"),
    Twin("falsy items dropped", _P, _BODY_OLD, _BROKEN_DROP_NONE, "C29.R3"),
    Twin("benign: sorted() in the loop header", _P, "            buffer.sort(key=key)\n            for buffered_item in buffer:\n", "            for buffered_item in sorted(buffer, key=key):\n", None),
    Twin("benign: clear() instead of rebinding", _P, "            buffer = []\n", "            buffer.clear()\n", None),
    # R3 — the ordering compares keys only (ties never reach the items)
    Twin("seed form: burst kept ordered with insort on (key, item) pairs, flush walks the buffer", _P, _BODY_OLD, _SEED_INSORT_PAIRS, "C29.R3"),
    Twin("variant: heap of (key, item) pairs drained with heappop", _P, _BODY_OLD, _HEAP_PAIRS, "C29.R3"),
    Twin("variant: decorate-sort-undecorate with (key, item) pairs and an unkeyed sort", _P, _BODY_OLD, _DECORATED_SORT_PAIRS, "C29.R3"),
    Twin("variant: arrival counter placed after the item", _P, _BODY_OLD, _COUNTER_AFTER_ITEM, "C29.R3"),
    Twin("variant: constant where the tie-breaker should be", _P, _BODY_OLD, _CLOCK_TIEBREAK, "C29.R3"),
    Twin("flush of (key, n, item) triples yields the key component", _P, _BODY_OLD, _FLUSH_YIELDS_KEY, "C29.R3"),
    Twin("keyed insort_left: ties flushed in reverse arrival order", _P, _BODY_OLD, _INSORT_LEFT_KEYED, "C29.R3"),
    Twin("first items appended, later ones bisected in: buffer not ordered at the flush", _P, _BODY_OLD, _APPEND_BESIDE_INSORT, "C29.R3"),
    Twin("heap list walked in storage order", _P, _BODY_OLD, _HEAP_WALKED, "C29.R3"),
    Twin("benign: insort on (key, next(arrival), item) triples", _P, _BODY_OLD, _OK_INSORT_COUNTER, None),
    Twin("benign: insort(buffer, item, key=key)", _P, _BODY_OLD, _OK_INSORT_KEYED, None),
    Twin("benign: heap of (key, len(buffer), item) drained with heappop", _P, _BODY_OLD, _OK_HEAP_LEN, None),
    Twin("benign: insort on (key, seq, item) with a local counter incremented per insertion; flush indexes the triple", _P, _BODY_OLD, _OK_INSORT_SEQ, None),
    Twin("benign: decorate-sort-undecorate with (key, len(buffer), item)", _P, _BODY_OLD, _OK_DECORATED_SORT, None),
    Twin("benign: (key, item) pairs sorted with key=lambda pair: pair[0]", _P, _BODY_OLD, _OK_SORT_ITEMGETTER, None),
    # R2
    Twin("item of a finished task dropped when another source ended in the same round", _P,
         "                else:\n                    completed_results.append((task_index, value))\n",
         "                else:\n                    if not stopped_on_first_completion:\n                        completed_results.append((task_index, value))\n", None),
    Twin("value collected only for even sources", _P,
         "                else:\n                    completed_results.append((task_index, value))\n",
         "                else:\n                    if task_index % 2 == 0:\n                        completed_results.append((task_index, value))\n", "C29.R2"),
    Twin("source error swallowed when stopping on first completion is off", _P,
         "    if exception_to_raise is not None:\n        raise exception_to_raise\n", "    if exception_to_raise is not None and stop_on_first_completion:\n        raise exception_to_raise\n", "C29.R2"),
    Twin("source error logged and skipped", _P, "                    exception_to_raise = exc\n                    break\n", "                    next_item_tasks.pop(task_index, None)\n                    continue\n", "C29.R2"),
    Twin("collected list hoisted out of the round loop", _P,
         "            completed_results: list[tuple[int, T]] = []\n            for finished in done:", "            for finished in done:", "C29.R2"),
    Twin("yield loop skips values of removed sources", _P, "                next_item_tasks.pop(task_index, None)\n                yield value\n",
         "                next_item_tasks.pop(task_index, None)\n                if task_index in active_generators:\n                    yield value\n", "C29.R2"),
    Twin("benign: exception re-raised with a bare name check", _P, "    if exception_to_raise is not None:\n        raise exception_to_raise\n", "    if not (exception_to_raise is None):\n        raise exception_to_raise\n", None),
    Twin("benign: yield before removing the finished task", _P, "                next_item_tasks.pop(task_index, None)\n                yield value\n", "                yield value\n                next_item_tasks.pop(task_index, None)\n", None),
    # R4 — ownership of the pending-task table
    Twin("seed form: finished tasks pruned by a rebinding comprehension after the yield loop (keyed pops kept)", _P, _REARM, _REARM + _PRUNE_REBIND, "C29.R4"),
    Twin("seed form, exact: the pop before the yield is replaced by the end-of-round prune", _P, _YIELD_LOOP, _YIELD_LOOP_SEED, "C29.R4"),
    Twin("variant: `del` of every entry whose task is done(), in a loop after the yield loop", _P, _REARM, _REARM + _PRUNE_DEL_LOOP, "C29.R4"),
    Twin("variant: keys of done() tasks collected first, popped right after the yield", _P, "                next_item_tasks.pop(task_index, None)\n                yield value\n",
         "                next_item_tasks.pop(task_index, None)\n                yield value\n                for stale in [i for i, t in next_item_tasks.items() if t.done()]:\n                    next_item_tasks.pop(stale)\n", "C29.R4"),
    Twin("variant: prune at the top of the round, before the wait (tasks finished during the previous yield)", _P, "            done, _ = await asyncio.wait(",
         "            next_item_tasks = {k: t for k, t in next_item_tasks.items() if not t.done()}\n            if not next_item_tasks:\n                break\n            done, _ = await asyncio.wait(", "C29.R4"),
    Twin("exhausted source: a slot that does not come from the wait result is removed", _P,
         "                        next_item_tasks.pop(task_index, None)\n                        active_generators.pop(task_index, None)\n",
         "                        next_item_tasks.pop(len(active_generators) - 1, None)\n                        active_generators.pop(task_index, None)\n", "C29.R4"),
    Twin("benign: the same prune between the examination of `done` and the yield loop (no suspension since the wait)", _P,
         "            if stopped_on_first_completion:\n                break\n            for task_index, value in completed_results:\n",
         "            if stopped_on_first_completion:\n                break\n" + _PRUNE_REBIND + "            for task_index, value in completed_results:\n", None),
    Twin("benign: `del` instead of pop for the entry whose value is about to be yielded", _P, "                next_item_tasks.pop(task_index, None)\n                yield value\n",
         "                del next_item_tasks[task_index]\n                yield value\n", None),
    Twin("benign: yield loop with its own loop variables (key reaches the wait only through the collected list)", _P, _YIELD_LOOP, _YIELD_LOOP_RENAMED, None),
]
