"""Obligation bookkeeping, evidence files, known findings, output lines and exit codes."""

from __future__ import annotations

import ast
import hashlib
import json
import os
import time
from dataclasses import dataclass, field
from pathlib import Path

from .index import AnchorError, Module, Repo, loc, qualname_of

VERIF = Path(__file__).resolve().parent.parent
EVIDENCE_DIR = VERIF / "evidence"
KNOWN_FILE = VERIF / "known_findings.json"


@dataclass
class Obligation:
    rule: str
    desc: str
    ok: bool
    where: str = ""
    function: str = ""
    key: str = ""
    reason: str = ""
    path: list = field(default_factory=list)
    known: bool = False

    def as_json(self) -> dict:
        d = {"rule": self.rule, "obligation": self.desc, "status": "discharged" if self.ok else ("known-finding" if self.known else "VIOLATED")}
        if self.where:
            d["at"] = self.where
        if self.function:
            d["function"] = self.function
        if self.key:
            d["key"] = self.key
        if self.reason:
            d["reason"] = self.reason
        if self.path:
            d["path"] = self.path
        return d


class Check:
    """Collects the obligations of one property on one tree."""

    def __init__(self, prop: str, repo: Repo, tier: str = "quick", seed: int = 0, *, quiet: bool = False, write: bool = True):
        self.prop = prop
        self.repo = repo
        self.tier = tier
        self.seed = seed
        self.quiet = quiet
        self.write = write
        self.obligations: list[Obligation] = []
        self.observations: list[str] = []
        self.floors: list[dict] = []
        self.analysed: dict = {"functions": set(), "rules": set()}
        self.explanation = ""
        self.rule_text = ""
        self.trusted: list[str] = []
        self.assumptions: list[str] = []
        self.extra: dict = {}
        self.exhaustive: bool | None = None
        self.t0 = time.time()
        self.selftest: dict | None = None

    # ------------------------------------------------------------------ recording
    def note_fn(self, m: Module, fn: ast.AST) -> None:
        self.analysed["functions"].add(f"{m.name}:{qualname_of(fn)}")

    def ob(
        self,
        rule: str,
        desc: str,
        ok: bool,
        *,
        m: Module | None = None,
        node: ast.AST | None = None,
        fn: ast.AST | None = None,
        instance: str = "",
        detail: str = "",
        reason: str = "",
        path: list | None = None,
    ) -> bool:
        """Record one obligation.  ``instance`` is the semantic slot (class / field / role name)
        that identifies the construct independently of line numbers and formatting."""
        where = loc(m, node) if (m is not None and node is not None) else (m.rel if m is not None else "")
        q = qualname_of(fn) if fn is not None else ""
        if fn is not None and m is not None:
            self.note_fn(m, fn)
        # `detail` (optional) fingerprints *how* the obligation fails (e.g. the observed index sequence), so that a
        # known finding does not mask a different failure of the same construct
        key = f"{rule}|{m.name if m else ''}:{q}|{instance}" + (f"|{detail}" if (detail and not ok) else "")
        self.analysed["rules"].add(rule)
        self.obligations.append(Obligation(rule, desc, bool(ok), where, q, key, "" if ok else reason, path or []))
        return bool(ok)

    def observe(self, text: str) -> None:
        self.observations.append(text)

    def floor(self, rule: str, what: str, count: int, minimum: int) -> None:
        self.floors.append({"rule": rule, "what": what, "matched": count, "floor": minimum})
        if count < minimum:
            raise AnchorError(f"{rule}: matched {count} {what}, below the hand-confirmed floor {minimum} — the rule would pass vacuously")

    # ------------------------------------------------------------------ results
    def violations(self) -> list[Obligation]:
        return [o for o in self.obligations if not o.ok]

    def apply_known(self, known: list[dict]) -> None:
        idx = {(k["property"], k["key"]) for k in known if k.get("status") == "known"}
        for o in self.violations():
            o.known = (self.prop, o.key) in idx

    def finish(self, only_key: str | None = None) -> int:
        known = load_known()
        self.apply_known(known)
        viol = [o for o in self.violations() if not o.known]
        if only_key is not None:
            viol = [o for o in viol if o.key == only_key]
        lines: list[str] = []
        for o in self.violations():
            if o.known:
                what = next((k["what_fails"] for k in known if k["property"] == self.prop and k["key"] == o.key), o.reason)
                lines.append(f"KNOWN-FINDING: property={self.prop} {o.rule} {what}")
        replay_paths = []
        for o in viol:
            rp = self._write_replay(o)
            replay_paths.append(rp)
            lines.append(f"VIOLATION property={self.prop} replay={rp}")
            lines.append(f"  {o.rule}: {o.desc}")
            lines.append(f"  at {o.where} ({o.function})  key={o.key}")
            if o.reason:
                lines.append(f"  reason: {o.reason}")
            for p in o.path[:12]:
                lines.append(f"    path: {p}")
        if self.write:
            self._write_evidence(len(viol))
        if not self.quiet:
            n = len(self.obligations)
            d = sum(1 for o in self.obligations if o.ok)
            print(f"[{self.prop}] tier={self.tier} obligations={n} discharged={d} known={sum(1 for o in self.violations() if o.known)} violations={len(viol)} wall={time.time() - self.t0:.2f}s")
            for l in lines:
                print(l)
        return 1 if viol else 0

    def _write_replay(self, o: Obligation) -> str:
        d = EVIDENCE_DIR / "replay"
        if not self.write:
            return str(d / "dry-run.json")
        d.mkdir(parents=True, exist_ok=True)
        h = hashlib.sha1(o.key.encode()).hexdigest()[:8]
        p = d / f"{self.prop}-{o.rule.replace('.', '-')}-{h}.json"
        p.write_text(json.dumps({
            "property": self.prop, "rule": o.rule, "key": o.key, "obligation": o.desc, "at": o.where,
            "function": o.function, "reason": o.reason, "path": o.path, "tree_digest": self.repo.tree_digest(),
            "replay_cmd": f"./bin/check {self.prop} --replay {p}",
        }, indent=1))
        return str(p)

    def _write_evidence(self, nviol: int) -> None:
        EVIDENCE_DIR.mkdir(parents=True, exist_ok=True)
        obs = self.obligations
        distinct = len({o.key for o in obs if o.where})
        samples = [o.as_json() for o in obs if not o.ok][:15] + [o.as_json() for o in obs if o.ok][:40]
        cov = {
            "explanation": self.explanation,
            "rule": self.rule_text or "one obligation per rule instance bound to a concrete construct of /repo (file:line, function, semantic slot); distinct = distinct (rule, function, slot) keys bound to a source location",
            "evaluations": len(obs),
            "distinct_nontrivial": distinct,
            "obligations": len(obs),
            "discharged": sum(1 for o in obs if o.ok),
            "known_findings": [o.as_json() for o in obs if o.known],
            "samples": samples,
            "checker_cmd": f"./bin/check {self.prop} --tier {self.tier}",
            "trusted_base": self.trusted or ["CPython ast/compile", "asyncio primitives", "pydantic (de)serialization"],
            "analysed": {
                "modules": sorted(self.repo.consulted),
                "functions": sorted(self.analysed["functions"]),
                "rules": sorted(self.analysed["rules"]),
                "tree_digest": self.repo.tree_digest(),
            },
            "instance_floors": self.floors,
            "observations": self.observations,
        }
        if self.exhaustive is not None:
            cov["exhaustive"] = self.exhaustive
        if self.selftest is not None:
            cov["checker_selftest"] = self.selftest
        cov.update(self.extra)
        ev = {
            "property_id": self.prop,
            "tier": self.tier,
            "seed": self.seed,
            "level": "other",
            "coverage": cov,
            "assumptions": self.assumptions,
            "wall_s": round(time.time() - self.t0, 3),
            "violations": nviol,
        }
        (EVIDENCE_DIR / f"{self.prop}.json").write_text(json.dumps(ev, indent=1, default=str))


def load_known() -> list[dict]:
    if not KNOWN_FILE.exists():
        return []
    data = json.loads(KNOWN_FILE.read_text())
    return data.get("findings", [])
