"""./bin/check — one entry point for every property check.

exit 0: all obligations discharged (KNOWN-FINDING lines may be printed)
exit 1: VIOLATION property=<id> replay=<path>
exit 2: ANALYSIS-ERROR (anchor vanished, instance floor not met, checker self-test failed, bug in the checker)
"""

from __future__ import annotations

import argparse
import importlib
import json
import os
import subprocess
import sys
import time
import traceback
from concurrent.futures import ThreadPoolExecutor
from pathlib import Path

from .index import AnchorError, Repo
from .report import VERIF, Check

ALL = [f"C{i:02d}" for i in range(1, 38)]


def load_prop(pid: str):
    try:
        return importlib.import_module(f"sa.props.{pid.lower()}")
    except ModuleNotFoundError as e:
        if e.name == f"sa.props.{pid.lower()}":
            return None
        raise


def run_one(pid: str, tier: str, seed: int, replay: str | None, repo_path: str | None) -> int:
    mod = load_prop(pid)
    if mod is None:
        print(f"ANALYSIS-ERROR property={pid} no check is registered for this property")
        return 2
    try:
        repo = Repo(Path(repo_path) if repo_path else None)
        if repo.parse_errors:
            raise AnchorError("source files do not parse: " + "; ".join(repo.parse_errors[:3]))
        # evidence files describe /repo itself: a run against another tree (seeded worktree, scratch copy) writes none
        alt = bool(repo_path) or bool(os.environ.get("VERIF_REPO"))
        chk = Check(pid, repo, tier, seed, write=not alt)
        chk.explanation = getattr(mod, "EXPLANATION", "")
        chk.trusted = list(getattr(mod, "TRUSTED", []))
        chk.assumptions = list(getattr(mod, "ASSUMPTIONS", []))
        if os.environ.get("VERIF_AUTOINLINE", "1") != "0":
            import re as _re
            srcs = [Path(mod.__file__), Path(mod.__file__).with_name("_engine.py")]
            words = set()
            for f_ in srcs:
                words |= set(_re.findall(r"[A-Za-z_][A-Za-z0-9_]*", f_.read_text(encoding="utf-8")))
            chk.extra["helpers_inlined_all"] = repo.auto_inline(words)
        mod.run(chk)
        if tier == "thorough":
            from .selftest import run_selftest

            st = run_selftest(pid, mod, repo, seed)
            chk.selftest = st
            if st["failed"]:
                for f in st["failed"]:
                    print(f"ANALYSIS-ERROR property={pid} checker-selftest: {f}")
                chk.finish()
                return 2
            if hasattr(mod, "run_thorough"):
                mod.run_thorough(chk)
        only = None
        if replay:
            only = json.loads(Path(replay).read_text()).get("key")
        return chk.finish(only_key=only)
    except AnchorError as e:
        print(f"ANALYSIS-ERROR property={pid} {e}")
        return 2
    except Exception:  # a bug in the checker must never look like a violation
        print(f"ANALYSIS-ERROR property={pid} internal error in the checker:")
        traceback.print_exc()
        return 2


def run_all(tier: str, seed: int, ids: list[str], repo_path: str | None = None) -> int:
    def one(pid: str) -> tuple[str, int, str, float]:
        t = time.time()
        env = {**os.environ, "VERIF_SEED": str(seed)}
        if repo_path:
            env["VERIF_REPO"] = repo_path
        p = subprocess.run([sys.executable, "-B", "-m", "sa.cli", pid, "--tier", tier], cwd=VERIF, capture_output=True, text=True, env=env)
        return pid, p.returncode, p.stdout + p.stderr, time.time() - t

    worst = 0
    with ThreadPoolExecutor(max_workers=min(16, os.cpu_count() or 4)) as ex:
        for pid, rc, out, dt in ex.map(one, ids):
            print(f"=== {pid} exit={rc} {dt:.1f}s")
            print(out.rstrip())
            worst = max(worst, rc)
    return worst


def self_env() -> int:
    repo = Repo()
    if repo.parse_errors:
        print("ANALYSIS-ERROR repo does not parse:", repo.parse_errors[:3])
        return 2
    print(f"self-env ok: python {sys.version.split()[0]}, {len(repo.by_rel)} modules parsed under {repo.root}")
    return 0


def main(argv: list[str] | None = None) -> int:
    ap = argparse.ArgumentParser(prog="check")
    ap.add_argument("prop", nargs="?")
    ap.add_argument("--tier", default=os.environ.get("VERIF_TIER", "quick"), choices=["quick", "thorough"])
    ap.add_argument("--replay")
    ap.add_argument("--repo")
    ap.add_argument("--all", action="store_true")
    ap.add_argument("--self-env", action="store_true")
    a = ap.parse_args(argv)
    try:
        seed = int(os.environ.get("VERIF_SEED", "0"))
    except ValueError:
        seed = 0
    if a.self_env:
        return self_env()
    if a.all:
        ids = [p for p in ALL if load_prop(p) is not None]
        return run_all(a.tier, seed, ids, a.repo)
    if not a.prop:
        ap.error("property id required")
    return run_one(a.prop.upper(), a.tier, seed, a.replay, a.repo)


if __name__ == "__main__":
    sys.exit(main())
