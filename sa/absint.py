"""A deliberately small interpreter over the *AST* of small pure functions of /repo.

It never imports or executes repository code: it walks the parsed syntax of a handful of
arithmetic / boolean / string expressions and straight-line statements, over values supplied
by the rule (finite domains enumerated exhaustively, or symbolic tokens).  Every operation
outside the supported subset raises Unsupported, which the caller turns into
ANALYSIS-ERROR (exit 2) — never into a pass and never into a violation.
"""

from __future__ import annotations

import ast
import math
import operator
from typing import Any, Callable


class Unsupported(Exception):
    pass


class Raised(Exception):
    """The interpreted code raised an exception of the named class."""

    def __init__(self, name: str, detail: str = ""):
        super().__init__(f"{name}: {detail}")
        self.name = name


class Record:
    """A bag of attributes standing for an object of the analysed program."""

    def __init__(self, _cls: str = "Record", **kw: Any):
        self.__dict__["_cls"] = _cls
        self.__dict__.update(kw)

    def __repr__(self) -> str:
        body = ", ".join(f"{k}={v!r}" for k, v in self.__dict__.items() if k != "_cls")
        return f"{self._cls}({body})"

    def __iter__(self):
        # a rule's model object may be iterable (a database cursor): it says so by carrying an `__iter__` callable
        f = self.__dict__.get("__iter__")
        if f is None:
            raise Unsupported(f"record {self._cls} is not iterable")
        return iter(f())


class _Return(Exception):
    def __init__(self, v: Any):
        self.v = v


class _Break(Exception):
    pass


class _Continue(Exception):
    pass


_BIN = {
    ast.Add: operator.add, ast.Sub: operator.sub, ast.Mult: operator.mul, ast.Div: operator.truediv,
    ast.FloorDiv: operator.floordiv, ast.Mod: operator.mod, ast.Pow: operator.pow,
    ast.BitAnd: operator.and_, ast.BitOr: operator.or_, ast.BitXor: operator.xor,
    ast.LShift: operator.lshift, ast.RShift: operator.rshift,
}
_CMP = {
    ast.Eq: operator.eq, ast.NotEq: operator.ne, ast.Lt: operator.lt, ast.LtE: operator.le,
    ast.Gt: operator.gt, ast.GtE: operator.ge, ast.Is: operator.is_, ast.IsNot: operator.is_not,
    ast.In: lambda a, b: a in b, ast.NotIn: lambda a, b: a not in b,
}
_BUILTINS: dict[str, Any] = {
    "range": range, "len": len, "set": set, "list": list, "tuple": tuple, "dict": dict, "min": min, "max": max,
    "any": any, "all": all, "sum": sum, "sorted": sorted, "next": next, "iter": iter, "enumerate": enumerate,
    "zip": zip, "abs": abs, "int": int, "float": float, "bool": bool, "str": str, "reversed": reversed,
    "frozenset": frozenset, "round": round, "True": True, "False": False, "None": None, "isinstance": None,
    "ValueError": "ValueError", "TypeError": "TypeError", "IndexError": "IndexError", "KeyError": "KeyError",
    "OverflowError": "OverflowError", "StopIteration": "StopIteration", "RuntimeError": "RuntimeError",
}
_SAFE_METHODS = {
    str: {"lower", "upper", "strip", "lstrip", "rstrip", "startswith", "endswith", "split", "rsplit", "join", "isalpha",
          "isalnum", "isdigit", "replace", "format", "removeprefix", "removesuffix", "partition", "rpartition", "find", "count"},
    list: {"append", "extend", "insert", "pop", "remove", "index", "count", "copy", "clear", "sort", "reverse"},
    set: {"add", "discard", "remove", "union", "intersection", "difference", "copy", "issubset", "issuperset", "update", "clear", "pop"},
    frozenset: {"union", "intersection", "difference", "issubset", "issuperset"},
    dict: {"get", "items", "keys", "values", "setdefault", "pop", "update", "copy", "clear"},
    tuple: {"index", "count"},
}


class Interp:
    default_classes: dict[str, dict[str, ast.AST]] = {}

    @staticmethod
    def register_module_classes(mod) -> None:
        """Make the methods of every class of an analysed module available to Records of that class."""
        for name, cls in mod.classes.items():
            if "." not in name:
                Interp.default_classes[name] = {n.name: n for n in cls.body if isinstance(n, (ast.FunctionDef, ast.AsyncFunctionDef))}

    def __init__(self, env: dict[str, Any] | None = None, hooks: dict[str, Callable] | None = None, max_steps: int = 200_000):
        self.globals = dict(env or {})
        self.hooks = hooks or {}  # dotted callee name -> python callable (the rule's model of an external)
        self.steps = 0
        self.max_steps = max_steps
        # class name -> {method name: FunctionDef}: methods/properties of analysed classes that a Record of that class may
        # use on itself (`self.helper()`, `self.some_property`), so that "extract method" inside the class stays evaluable
        self.classes: dict[str, dict[str, ast.AST]] = dict(Interp.default_classes)

    def with_class(self, name: str, cls: ast.ClassDef) -> "Interp":
        self.classes[name] = {n.name: n for n in cls.body if isinstance(n, (ast.FunctionDef, ast.AsyncFunctionDef))}
        return self

    # ------------------------------------------------------------------ API
    def call_function(self, fn: ast.AST, args: dict[str, Any]) -> Any:
        env = dict(self.globals)
        a = fn.args
        params = [p.arg for p in a.posonlyargs + a.args + a.kwonlyargs]
        defaults = dict(zip([p.arg for p in (a.posonlyargs + a.args)][-len(a.defaults):] if a.defaults else [], a.defaults))
        for p, d in zip(a.kwonlyargs, a.kw_defaults):
            if d is not None:
                defaults[p.arg] = d
        if a.vararg is not None and a.vararg.arg in args:
            env[a.vararg.arg] = tuple(args[a.vararg.arg])
        if a.kwarg is not None and a.kwarg.arg in args:
            env[a.kwarg.arg] = dict(args[a.kwarg.arg])
        for p in params:
            if p in args:
                env[p] = args[p]
            elif p in defaults:
                env[p] = self.eval(defaults[p], env)
            else:
                raise Unsupported(f"missing argument {p}")
        try:
            self.exec_block(fn.body, env)
        except _Return as r:
            return r.v
        return None

    # ------------------------------------------------------------------ statements
    def exec_block(self, body: list[ast.stmt], env: dict[str, Any]) -> None:
        for s in body:
            self.exec(s, env)

    def exec(self, s: ast.stmt, env: dict[str, Any]) -> None:
        self.steps += 1
        if self.steps > self.max_steps:
            raise Unsupported("step budget exceeded")
        if isinstance(s, ast.Expr):
            if isinstance(s.value, ast.Constant):
                return
            self.eval(s.value, env)
        elif isinstance(s, ast.Assign):
            v = self.eval(s.value, env)
            for t in s.targets:
                self.assign(t, v, env)
        elif isinstance(s, ast.AnnAssign):
            if s.value is not None:
                self.assign(s.target, self.eval(s.value, env), env)
        elif isinstance(s, ast.AugAssign):
            cur = self.eval(_load(s.target), env)
            self.assign(s.target, self.binop(type(s.op), cur, self.eval(s.value, env)), env)
        elif isinstance(s, ast.Return):
            raise _Return(self.eval(s.value, env) if s.value is not None else None)
        elif isinstance(s, ast.If):
            self.exec_block(s.body if self.truth(self.eval(s.test, env)) else s.orelse, env)
        elif isinstance(s, ast.For):
            for v in self.eval(s.iter, env):
                self.assign(s.target, v, env)
                try:
                    self.exec_block(s.body, env)
                except _Break:
                    break
                except _Continue:
                    continue
            else:
                self.exec_block(s.orelse, env)
        elif isinstance(s, ast.While):
            while self.truth(self.eval(s.test, env)):
                self.steps += 1
                if self.steps > self.max_steps:
                    raise Unsupported("step budget exceeded")
                try:
                    self.exec_block(s.body, env)
                except _Break:
                    break
                except _Continue:
                    continue
        elif isinstance(s, ast.AsyncFor):
            # evaluated like a plain loop: the model of an async source is the finite list of what it delivers
            for v in self.eval(s.iter, env):
                self.assign(s.target, v, env)
                try:
                    self.exec_block(s.body, env)
                except _Break:
                    break
                except _Continue:
                    continue
            else:
                self.exec_block(s.orelse, env)
        elif isinstance(s, (ast.With, ast.AsyncWith)):
            # a context manager is modelled by the value its expression evaluates to (entered value = `__enter__` of a Record if
            # the rule gave one, else the value itself); exceptions are not suppressed
            for it in s.items:
                v = self.eval(it.context_expr, env)
                if isinstance(v, Record) and "__enter__" in v.__dict__:
                    v = self.apply(v.__dict__["__enter__"], [], {})
                if it.optional_vars is not None:
                    self.assign(it.optional_vars, v, env)
            self.exec_block(s.body, env)
        elif isinstance(s, ast.Pass):
            return
        elif isinstance(s, ast.Break):
            raise _Break()
        elif isinstance(s, ast.Continue):
            raise _Continue()
        elif isinstance(s, ast.Raise):
            name = "Exception"
            if s.exc is not None:
                e = s.exc.func if isinstance(s.exc, ast.Call) else s.exc
                name = ast.unparse(e).split(".")[-1]
            raise Raised(name, ast.unparse(s.exc) if s.exc is not None else "")
        elif isinstance(s, ast.Try):
            try:
                self.exec_block(s.body, env)
            except Raised as r:
                for h in s.handlers:
                    names = []
                    if h.type is not None:
                        for e in h.type.elts if isinstance(h.type, ast.Tuple) else [h.type]:
                            names.append(ast.unparse(e).split(".")[-1])
                    if h.type is None or r.name in names or "Exception" in names or "BaseException" in names or (
                        "ArithmeticError" in names and r.name in ("OverflowError", "ZeroDivisionError")
                    ):
                        if h.name:
                            env[h.name] = r
                        self.exec_block(h.body, env)
                        break
                else:
                    raise
            else:
                self.exec_block(s.orelse, env)
            finally:
                self.exec_block(s.finalbody, env)
        elif isinstance(s, ast.Assert):
            if not self.truth(self.eval(s.test, env)):
                raise Raised("AssertionError")
        elif isinstance(s, (ast.FunctionDef, ast.Import, ast.ImportFrom, ast.Global, ast.Nonlocal)):
            if isinstance(s, ast.FunctionDef):
                env[s.name] = ("__fn__", s, env)
        else:
            raise Unsupported(f"statement {type(s).__name__} at line {s.lineno}")

    def assign(self, t: ast.AST, v: Any, env: dict[str, Any]) -> None:
        if isinstance(t, ast.Name):
            env[t.id] = v
        elif isinstance(t, (ast.Tuple, ast.List)):
            vs = list(v)
            if len(vs) != len(t.elts):
                raise Raised("ValueError", "unpack")
            for e, x in zip(t.elts, vs):
                self.assign(e, x, env)
        elif isinstance(t, ast.Attribute):
            obj = self.eval(t.value, env)
            if isinstance(obj, Record):
                obj.__dict__[t.attr] = v
            else:
                raise Unsupported(f"attribute store on {type(obj).__name__}")
        elif isinstance(t, ast.Subscript):
            obj = self.eval(t.value, env)
            obj[self.eval(t.slice, env)] = v
        else:
            raise Unsupported(f"assignment target {type(t).__name__}")

    # ------------------------------------------------------------------ expressions
    def truth(self, v: Any) -> bool:
        return bool(v)

    def binop(self, op: type, a: Any, b: Any) -> Any:
        f = _BIN.get(op)
        if f is None:
            raise Unsupported(f"operator {op.__name__}")
        try:
            return f(a, b)
        except OverflowError as e:
            raise Raised("OverflowError", str(e))
        except ZeroDivisionError as e:
            raise Raised("ZeroDivisionError", str(e))
        except TypeError as e:
            raise Raised("TypeError", str(e))

    def eval(self, e: ast.AST, env: dict[str, Any]) -> Any:
        self.steps += 1
        if self.steps > self.max_steps:
            raise Unsupported("step budget exceeded")
        m = getattr(self, "e_" + type(e).__name__, None)
        if m is None:
            raise Unsupported(f"expression {type(e).__name__}: {ast.unparse(e)[:60]}")
        return m(e, env)

    def e_Constant(self, e, env):
        return e.value

    def e_Name(self, e, env):
        if e.id in env:
            return env[e.id]
        if e.id in _BUILTINS:
            return _BUILTINS[e.id] if e.id != "isinstance" else self._isinstance
        raise Unsupported(f"unbound name {e.id}")

    def _isinstance(self, obj, cls):
        names = cls if isinstance(cls, tuple) else (cls,)
        if isinstance(obj, Record):
            return any(n == obj._cls or n in getattr(obj, "_bases", ()) for n in names)
        for n in names:
            if isinstance(n, type) and isinstance(obj, n):
                return True
        return False

    def e_Attribute(self, e, env):
        obj = self.eval(e.value, env)
        if isinstance(obj, Record):
            if e.attr in obj.__dict__:
                return obj.__dict__[e.attr]
            fn = self.classes.get(obj._cls, {}).get(e.attr)
            if fn is not None:
                decos = {ast.unparse(d).split(".")[-1] for d in fn.decorator_list}
                if decos & {"property", "cached_property"}:
                    return self.call_function(fn, {"self": obj})
                if decos - {"override"}:
                    raise Unsupported(f"decorated method {obj._cls}.{e.attr}")
                names = [p.arg for p in fn.args.posonlyargs + fn.args.args][1:]
                return lambda *a, **k: self.call_function(fn, {"self": obj, **dict(zip(names, a)), **k})
            raise Unsupported(f"record {obj._cls} has no attribute {e.attr}")
        if isinstance(obj, ("".__class__, list, set, frozenset, dict, tuple)):
            allowed = _SAFE_METHODS.get(type(obj), set())
            if e.attr in allowed:
                return getattr(obj, e.attr)
        if obj is math and e.attr in ("inf", "isfinite", "isinf", "isnan", "floor", "ceil", "pow", "log2", "log"):
            return getattr(math, e.attr)
        raise Unsupported(f"attribute {e.attr} of {type(obj).__name__}")

    def e_Subscript(self, e, env):
        obj = self.eval(e.value, env)
        if isinstance(e.slice, ast.Slice):
            lo = self.eval(e.slice.lower, env) if e.slice.lower else None
            hi = self.eval(e.slice.upper, env) if e.slice.upper else None
            st = self.eval(e.slice.step, env) if e.slice.step else None
            return obj[lo:hi:st]
        k = self.eval(e.slice, env)
        try:
            return obj[k]
        except IndexError as x:
            raise Raised("IndexError", str(x))
        except KeyError as x:
            raise Raised("KeyError", str(x))

    def e_BinOp(self, e, env):
        return self.binop(type(e.op), self.eval(e.left, env), self.eval(e.right, env))

    def e_UnaryOp(self, e, env):
        v = self.eval(e.operand, env)
        if isinstance(e.op, ast.Not):
            return not self.truth(v)
        if isinstance(e.op, ast.USub):
            return -v
        if isinstance(e.op, ast.UAdd):
            return +v
        raise Unsupported("unary op")

    def e_BoolOp(self, e, env):
        if isinstance(e.op, ast.And):
            v = True
            for x in e.values:
                v = self.eval(x, env)
                if not self.truth(v):
                    return v
            return v
        v = False
        for x in e.values:
            v = self.eval(x, env)
            if self.truth(v):
                return v
        return v

    def e_Compare(self, e, env):
        left = self.eval(e.left, env)
        for op, c in zip(e.ops, e.comparators):
            right = self.eval(c, env)
            f = _CMP[type(op)]
            try:
                r = f(left, right)
            except TypeError as x:
                raise Raised("TypeError", str(x))
            if not self.truth(r):
                return r
            left = right
        return True

    def e_IfExp(self, e, env):
        return self.eval(e.body if self.truth(self.eval(e.test, env)) else e.orelse, env)

    def e_Tuple(self, e, env):
        return tuple(self._elts(e.elts, env))

    def e_List(self, e, env):
        return list(self._elts(e.elts, env))

    def e_Set(self, e, env):
        return set(self._elts(e.elts, env))

    def _elts(self, elts, env):
        out = []
        for x in elts:
            if isinstance(x, ast.Starred):
                out.extend(self.eval(x.value, env))
            else:
                out.append(self.eval(x, env))
        return out

    def e_Dict(self, e, env):
        d = {}
        for k, v in zip(e.keys, e.values):
            if k is None:
                d.update(self.eval(v, env))
            else:
                d[self.eval(k, env)] = self.eval(v, env)
        return d

    def e_JoinedStr(self, e, env):
        out = []
        for v in e.values:
            if isinstance(v, ast.Constant):
                out.append(str(v.value))
            else:
                x = self.eval(v.value, env)
                spec = self.eval(v.format_spec, env) if v.format_spec is not None else ""
                if v.conversion == ord("r"):
                    x = repr(x)
                out.append(format(x, spec))
        return "".join(out)

    def _comp(self, gens, env, emit):
        def rec(i, env):
            if i == len(gens):
                emit(env)
                return
            g = gens[i]
            for v in self.eval(g.iter, env):
                e2 = dict(env)
                self.assign(g.target, v, e2)
                if all(self.truth(self.eval(c, e2)) for c in g.ifs):
                    rec(i + 1, e2)

        rec(0, env)

    def e_ListComp(self, e, env):
        out = []
        self._comp(e.generators, env, lambda en: out.append(self.eval(e.elt, en)))
        return out

    def e_SetComp(self, e, env):
        out = set()
        self._comp(e.generators, env, lambda en: out.add(self.eval(e.elt, en)))
        return out

    def e_GeneratorExp(self, e, env):
        return iter(self.e_ListComp(e, env))

    def e_DictComp(self, e, env):
        out = {}
        self._comp(e.generators, env, lambda en: out.__setitem__(self.eval(e.key, en), self.eval(e.value, en)))
        return out

    def e_Await(self, e, env):
        return self.eval(e.value, env)

    def e_Yield(self, e, env):
        if not hasattr(self, "yielded"):
            raise Unsupported("yield outside call_generator")
        self.yielded.append(self.eval(e.value, env) if e.value is not None else None)
        return None

    def call_generator(self, fn: ast.AST, args: dict[str, Any]) -> list:
        """Evaluate a (sync or async) generator function to exhaustion: the finite list of what it yields."""
        self.yielded: list = []
        self.call_function(fn, args)
        return self.yielded

    def e_Lambda(self, e, env):
        return ("__lambda__", e, env)

    def e_Call(self, e, env):
        name = _dotted(e.func)
        if name in self.hooks:
            args = self._elts(e.args, env)
            kw = {}
            for k in e.keywords:
                if k.arg is None:
                    kw.update(self.eval(k.value, env))
                else:
                    kw[k.arg] = self.eval(k.value, env)
            return self.hooks[name](*args, **kw)
        f = self.eval(e.func, env)
        args = self._elts(e.args, env)
        kw = {}
        for k in e.keywords:
            if k.arg is None:
                kw.update(self.eval(k.value, env))
            else:
                kw[k.arg] = self.eval(k.value, env)
        return self.apply(f, args, kw)

    def apply(self, f, args, kw):
        if isinstance(f, tuple) and f and f[0] == "__lambda__":
            _, lam, cenv = f
            env = dict(cenv)
            for p, a in zip(lam.args.args, args):
                env[p.arg] = a
            return self.eval(lam.body, env)
        if isinstance(f, tuple) and f and f[0] == "__fn__":
            _, fn, cenv = f
            sub = Interp(cenv, self.hooks, self.max_steps)
            sub.steps = self.steps
            names = [p.arg for p in fn.args.args]
            return sub.call_function(fn, {**dict(zip(names, args)), **kw})
        if isinstance(f, Record):
            fn = self.classes.get(f._cls, {}).get("__call__")
            if fn is None:
                raise Unsupported(f"record {f._cls} is not callable")
            names = [p.arg for p in fn.args.posonlyargs + fn.args.args][1:]
            return self.call_function(fn, {"self": f, **dict(zip(names, args)), **kw})
        if f is next:
            try:
                return next(*args)
            except StopIteration:
                raise Raised("StopIteration")
        if f in (min, max) or f is sorted:
            key = kw.get("key")
            if key is not None:
                kw = dict(kw)
                kw["key"] = lambda x: self.apply(key, [x], {})
            try:
                return f(*args, **kw)
            except ValueError as x:
                raise Raised("ValueError", str(x))
        if callable(f):
            try:
                return f(*args, **kw)
            except (IndexError, KeyError, ValueError, TypeError, OverflowError, ZeroDivisionError) as x:
                raise Raised(type(x).__name__, str(x))
        raise Unsupported(f"call of {f!r}")


def _dotted(e: ast.AST) -> str | None:
    if isinstance(e, ast.Name):
        return e.id
    if isinstance(e, ast.Attribute):
        b = _dotted(e.value)
        return f"{b}.{e.attr}" if b else None
    return None


def _load(t: ast.AST) -> ast.AST:
    import copy

    n = copy.copy(t)
    n.ctx = ast.Load()
    return n
