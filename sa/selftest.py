"""Checker validation: run a property's rules on in-memory variants of the consulted files.

A *breaking twin* edits one construct so that the property breaks while the code still
compiles; the rule named in ``expect`` must report a violation that the unchanged tree does not
have.  A *benign twin* is a behaviour-preserving rewrite of the same construct; no new
violation may appear.  Nothing is written into /repo or /verif: the variant exists only as
an overlay of the parsed index.  Twins test the checker, not the repository: a twin whose
anchor text no longer occurs in the tree is reported as skipped.
"""

from __future__ import annotations

import random
import sys
import traceback
from dataclasses import dataclass

from .index import AnchorError, Repo
from .report import Check


@dataclass
class Twin:
    name: str
    rel: str
    old: str
    new: str
    expect: str | None  # rule id prefix that must fire; None = benign twin, nothing new may fire
    count: int = 1


def multi(rel: str, edits: list[tuple[str, str]]) -> tuple[str, str]:
    """(old, new) for a twin that needs several coordinated edits of one file: the anchor is the whole current text of the
    file (so the twin is skipped, not mis-applied, once any of the edited places has changed)."""
    from .index import repo_root

    try:
        src = (repo_root() / rel).read_text(encoding="utf-8")
    except OSError:
        return "\0file missing", ""
    out = src
    for a, b in edits:
        if a not in out:
            return "\0anchor missing: " + a[:40], ""
        out = out.replace(a, b, 1)
    return src, out


def _violation_keys(mod, repo: Repo, pid: str) -> tuple[set[str], str | None]:
    chk = Check(pid, repo, "quick", 0, quiet=True, write=False)
    try:
        mod.run(chk)
    except AnchorError as e:
        return set(), f"anchor-error: {e}"
    return {o.key for o in chk.violations()}, None


def run_selftest(pid: str, mod, repo: Repo, seed: int = 0) -> dict:
    twins: list[Twin] = list(getattr(mod, "TWINS", []))
    rng = random.Random(seed)
    rng.shuffle(twins)
    base, err = _violation_keys(mod, repo, pid)
    res = {"twins": len(twins), "breaking_detected": 0, "benign_silent": 0, "skipped": [], "failed": [], "details": []}
    if err:
        res["failed"].append(f"base tree: {err}")
        return res
    for t in twins:
        try:
            src = repo.by_rel[t.rel].src if t.rel in repo.by_rel else repo.read_text(t.rel)
        except (AnchorError, KeyError):
            res["skipped"].append(f"{t.name}: file {t.rel} missing")
            continue
        if src.count(t.old) < 1:
            res["skipped"].append(f"{t.name}: anchor text not present in {t.rel}")
            continue
        new_src = src.replace(t.old, t.new, t.count)
        try:
            variant = repo.with_overlay({t.rel: new_src})
        except SyntaxError as e:
            res["failed"].append(f"{t.name}: variant does not parse ({e})")
            continue
        try:
            keys, err = _violation_keys(mod, variant, pid)
        except Exception:
            res["failed"].append(f"{t.name}: checker crashed on variant: {traceback.format_exc(limit=3)}")
            continue
        new = keys - base
        if t.expect is None:
            if err or new:
                res["failed"].append(f"benign twin `{t.name}` raised {err or sorted(new)}")
            else:
                res["benign_silent"] += 1
                res["details"].append({"twin": t.name, "kind": "benign", "result": "silent"})
        else:
            hit = [k for k in new if k.startswith(t.expect)]
            if hit:
                res["breaking_detected"] += 1
                res["details"].append({"twin": t.name, "kind": "breaking", "result": hit[0]})
            else:
                res["failed"].append(f"breaking twin `{t.name}` not reported by {t.expect} (got {err or sorted(new)})")
    return res


if __name__ == "__main__":
    import importlib
    import json

    repo = Repo()
    rc = 0
    for pid in sys.argv[1:]:
        mod = importlib.import_module(f"sa.props.{pid.lower()}")
        r = run_selftest(pid.upper(), mod, repo)
        print(pid, json.dumps({k: v for k, v in r.items() if k != "details"}, indent=1))
        rc |= bool(r["failed"])
    sys.exit(rc)
