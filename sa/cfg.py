"""Statement-level control-flow graph for one Python function (no execution).

Nodes are simple statements and the *headers* of compound statements (If/While test,
For iterator, With items, Match subject / case patterns, except-handler heads).  Edges carry
labels: next, T, F, loop, done, exc, cancel, match, nomatch.  ``finally`` bodies are
duplicated per continuation kind (normal / return / break / continue / exception) so that
paths through them stay feasible.  Exception edges leave every statement that contains a
call, await, yield, raise or assert.
"""

from __future__ import annotations

import ast
from dataclasses import dataclass, field
from typing import Callable, Iterable, Iterator

from .index import FuncNode


@dataclass(eq=False)
class Node:
    idx: int
    kind: str  # entry exit raise stmt test iter with handler subject case
    ast: ast.AST | None
    tag: str = ""  # which finally-copy this node belongs to ("" = primary)

    def __repr__(self) -> str:  # pragma: no cover - debugging aid
        if self.ast is None:
            return f"<{self.kind}>"
        return f"<{self.kind}@{getattr(self.ast, 'lineno', '?')}{self.tag}>"

    @property
    def line(self) -> int:
        return getattr(self.ast, "lineno", 0) if self.ast is not None else 0


Dangling = list  # list[tuple[Node, str]]


@dataclass
class _Frame:
    kind: str  # loop | try | finally
    # loop
    head: Node | None = None
    breaks: list = field(default_factory=list)
    # try
    handlers: list = field(default_factory=list)  # list[(Node, ast.ExceptHandler)]
    # finally
    pending: dict = field(default_factory=dict)  # kind -> dangling list


def _may_raise(stmt: ast.AST) -> tuple[bool, bool]:
    """(can raise an ordinary exception, can be cancelled / thrown into)."""
    raises = cancel = False
    stack = [stmt]
    first = True
    while stack:
        n = stack.pop()
        if not first and isinstance(n, FuncNode + (ast.Lambda, ast.ClassDef)):
            continue
        first = False
        if isinstance(n, (ast.Call, ast.Raise, ast.Assert, ast.Subscript, ast.Attribute, ast.BinOp)):
            raises = True
        if isinstance(n, (ast.Await, ast.Yield, ast.YieldFrom)):
            raises = cancel = True
        stack.extend(ast.iter_child_nodes(n))
    return raises, cancel


def _header_exprs(stmt: ast.AST) -> list[ast.AST]:
    if isinstance(stmt, (ast.If, ast.While)):
        return [stmt.test]
    if isinstance(stmt, (ast.For, ast.AsyncFor)):
        return [stmt.iter]
    if isinstance(stmt, (ast.With, ast.AsyncWith)):
        return [i.context_expr for i in stmt.items]
    if isinstance(stmt, ast.Match):
        return [stmt.subject]
    return [stmt]


def _catches_all(h: ast.ExceptHandler) -> str:
    """'all' (bare / BaseException), 'exception' (Exception), 'some'."""
    t = h.type
    if t is None:
        return "all"
    names = []
    for e in t.elts if isinstance(t, ast.Tuple) else [t]:
        names.append(ast.unparse(e).split(".")[-1])
    if "BaseException" in names:
        return "all"
    if "Exception" in names:
        return "exception"
    return "some"


class CFG:
    def __init__(self, fn: ast.AST):
        self.fn = fn
        self.nodes: list[Node] = []
        self.succ: dict[Node, list[tuple[str, Node]]] = {}
        self.pred: dict[Node, list[tuple[str, Node]]] = {}
        self._frames: list[_Frame] = []
        self._tag = ""
        self._tagn = 0
        self.entry = self._new("entry", None)
        self.exit = self._new("exit", None)
        self.raise_exit = self._new("raise", None)
        out = self._block(fn.body, [(self.entry, "next")])
        self._connect(out, self.exit)
        self._by_ast: dict[int, list[Node]] = {}
        for n in self.nodes:
            if n.ast is not None:
                self._by_ast.setdefault(id(n.ast), []).append(n)

    # ------------------------------------------------------------------ construction
    def _new(self, kind: str, node: ast.AST | None) -> Node:
        n = Node(len(self.nodes), kind, node, self._tag)
        self.nodes.append(n)
        self.succ[n] = []
        self.pred[n] = []
        return n

    def _edge(self, a: Node, label: str, b: Node) -> None:
        if (label, b) not in self.succ[a]:
            self.succ[a].append((label, b))
            self.pred[b].append((label, a))

    def _connect(self, dangling: Dangling, target: Node) -> None:
        for n, label in dangling:
            self._edge(n, label, target)

    def _jump(self, kind: str, dangling: Dangling, depth: int | None = None, cancel_only: bool = False) -> None:
        """Route a non-local continuation outward through the frame stack."""
        if not dangling:
            return
        i = (len(self._frames) if depth is None else depth) - 1
        while i >= 0:
            fr = self._frames[i]
            if fr.kind == "finally":
                fr.pending.setdefault((kind, cancel_only), []).extend(dangling)
                return
            if fr.kind == "loop" and kind in ("break", "continue"):
                if kind == "break":
                    fr.breaks.extend(dangling)
                else:
                    self._connect(dangling, fr.head)
                return
            if fr.kind == "try" and kind == "exc":
                for hnode, h in fr.handlers:
                    c = _catches_all(h)
                    if c == "all":
                        self._connect(dangling, hnode)
                        return
                    if c == "exception":
                        if cancel_only:
                            continue
                        self._connect(dangling, hnode)
                        # ordinary exceptions stop here; a cancellation raised at an
                        # await/yield (BaseException) is not caught by `except Exception`
                        dangling = [(n, "cancel") for n, _l in dangling if getattr(n, "_cancel", False)]
                        cancel_only = True
                        if not dangling:
                            return
                    else:
                        self._connect(dangling, hnode)
            i -= 1
        if kind == "return":
            self._connect(dangling, self.exit)
        elif kind == "exc":
            self._connect(dangling, self.raise_exit)
        else:  # break/continue outside loop: malformed, treat as exit
            self._connect(dangling, self.exit)

    def _stmt_node(self, kind: str, stmt: ast.AST, incoming: Dangling, exc_src: ast.AST | None = None) -> Node:
        n = self._new(kind, stmt)
        self._connect(incoming, n)
        raises, cancel = (False, False)
        for e in ([exc_src] if exc_src is not None else _header_exprs(stmt)):
            r, c = _may_raise(e)
            raises |= r
            cancel |= c
        if isinstance(stmt, (ast.AsyncWith, ast.AsyncFor)):
            raises = cancel = True
        n._cancel = cancel  # type: ignore[attr-defined]
        if raises:
            self._jump("exc", [(n, "exc")])
        return n

    def _block(self, stmts: list[ast.stmt], incoming: Dangling) -> Dangling:
        cur = incoming
        for s in stmts:
            cur = self._stmt(s, cur)
        return cur

    def _stmt(self, s: ast.stmt, incoming: Dangling) -> Dangling:
        if isinstance(s, ast.If):
            t = self._stmt_node("test", s, incoming)
            a = self._block(s.body, [(t, "T")])
            b = self._block(s.orelse, [(t, "F")]) if s.orelse else [(t, "F")]
            return a + b
        if isinstance(s, ast.While):
            t = self._stmt_node("test", s, incoming)
            fr = _Frame("loop", head=t)
            self._frames.append(fr)
            body_out = self._block(s.body, [(t, "T")])
            self._frames.pop()
            self._connect(body_out, t)
            const_true = isinstance(s.test, ast.Constant) and bool(s.test.value)
            out: Dangling = [] if const_true else [(t, "F")]
            if s.orelse:
                out = self._block(s.orelse, out)
            return out + fr.breaks
        if isinstance(s, (ast.For, ast.AsyncFor)):
            t = self._stmt_node("iter", s, incoming)
            fr = _Frame("loop", head=t)
            self._frames.append(fr)
            body_out = self._block(s.body, [(t, "loop")])
            self._frames.pop()
            self._connect(body_out, t)
            out = [(t, "done")]
            if s.orelse:
                out = self._block(s.orelse, out)
            return out + fr.breaks
        if isinstance(s, (ast.With, ast.AsyncWith)):
            w = self._stmt_node("with", s, incoming)
            return self._block(s.body, [(w, "next")])
        if isinstance(s, ast.Try) or (hasattr(ast, "TryStar") and isinstance(s, ast.TryStar)):
            return self._try(s, incoming)
        if isinstance(s, ast.Match):
            subj = self._stmt_node("subject", s, incoming)
            cur: Dangling = [(subj, "next")]
            outs: Dangling = []
            for case in s.cases:
                c = self._new("case", case)
                self._connect(cur, c)
                outs += self._block(case.body, [(c, "match")])
                irrefutable = case.guard is None and (
                    (isinstance(case.pattern, ast.MatchAs) and case.pattern.pattern is None)
                )
                cur = [] if irrefutable else [(c, "nomatch")]
            return outs + cur
        if isinstance(s, ast.Return):
            n = self._stmt_node("stmt", s, incoming)
            self._jump("return", [(n, "next")])
            return []
        if isinstance(s, ast.Raise):
            n = self._new("stmt", s)
            self._connect(incoming, n)
            txt = ast.unparse(s.exc) if s.exc is not None else ""
            n._cancel = s.exc is None or any(  # type: ignore[attr-defined]
                k in txt for k in ("Cancelled", "BaseException", "KeyboardInterrupt", "GeneratorExit", "SystemExit")
            )
            self._jump("exc", [(n, "exc")])
            return []
        if isinstance(s, ast.Break):
            n = self._stmt_node("stmt", s, incoming)
            self._jump("break", [(n, "next")])
            return []
        if isinstance(s, ast.Continue):
            n = self._stmt_node("stmt", s, incoming)
            self._jump("continue", [(n, "next")])
            return []
        n = self._stmt_node("stmt", s, incoming)
        return [(n, "next")]

    def _try(self, s: ast.Try, incoming: Dangling) -> Dangling:
        fin = _Frame("finally") if s.finalbody else None
        if fin:
            self._frames.append(fin)
        # handler head nodes exist before the body so exception edges can target them
        hnodes = []
        for h in s.handlers:
            hn = self._new("handler", h)
            hn._cancel = False  # type: ignore[attr-defined]
            hnodes.append((hn, h))
        tr = _Frame("try", handlers=hnodes)
        self._frames.append(tr)
        body_out = self._block(s.body, incoming)
        self._frames.pop()
        if s.orelse:
            body_out = self._block(s.orelse, body_out)
        outs: Dangling = list(body_out)
        for hn, h in hnodes:
            outs += self._block(h.body, [(hn, "next")])
        if not fin:
            return outs
        self._frames.pop()
        # normal completion copy
        result = self._block(s.finalbody, outs) if outs else []
        # one copy per pending continuation kind
        for (kind, cancel_only), dang in list(fin.pending.items()):
            saved = self._tag
            self._tagn += 1
            self._tag = f"/{kind}{self._tagn}"
            fout = self._block(s.finalbody, dang)
            self._tag = saved
            self._jump(kind, fout, cancel_only=cancel_only)
        return result

    # ------------------------------------------------------------------ queries
    def nodes_of(self, a: ast.AST) -> list[Node]:
        """CFG nodes for a statement (several when inside a duplicated ``finally``)."""
        return list(self._by_ast.get(id(a), []))

    def node_of_containing(self, expr: ast.AST) -> list[Node]:
        """CFG nodes of the statement/header that contains ``expr``."""
        from .index import parent

        cur: ast.AST | None = expr
        while cur is not None:
            ns = self._by_ast.get(id(cur))
            if ns:
                # a compound statement's node is only its header
                if isinstance(cur, (ast.If, ast.While, ast.For, ast.AsyncFor, ast.With, ast.AsyncWith, ast.Match)):
                    hdr = _header_exprs(cur)
                    if not any(_contains(h, expr) for h in hdr):
                        return []
                return list(ns)
            cur = parent(cur)
        return []

    def reach(
        self,
        starts: Iterable[Node],
        blocked: Iterable[Node] = (),
        blocked_edges: Iterable[tuple[Node, str]] = (),
        labels_excluded: Iterable[str] = (),
        include_starts: bool = True,
    ) -> set[Node]:
        blocked = set(blocked)
        be = set(blocked_edges)
        lx = set(labels_excluded)
        seen: set[Node] = set()
        stack = []
        for s in starts:
            if include_starts:
                if s not in blocked:
                    stack.append(s)
            else:
                for label, t in self.succ[s]:
                    if (s, label) not in be and label not in lx and t not in blocked:
                        stack.append(t)
        while stack:
            n = stack.pop()
            if n in seen:
                continue
            seen.add(n)
            for label, t in self.succ[n]:
                if (n, label) in be or label in lx or t in blocked or t in seen:
                    continue
                stack.append(t)
        return seen

    def branch_edges(self) -> list[tuple[Node, str]]:
        out = []
        for n in self.nodes:
            if n.kind in ("test", "iter", "case"):
                for label in {l for l, _t in self.succ[n] if l not in ("exc", "cancel")}:
                    out.append((n, label))
        return out

    def guards(self, target: Node, start: Node | None = None, labels_excluded: Iterable[str] = ()) -> list[tuple[Node, str]]:
        """Branch edges that every path start→target traverses (edge dominators)."""
        start = start or self.entry
        res = []
        if target not in self.reach([start], labels_excluded=labels_excluded):
            return res
        for e in self.branch_edges():
            if target not in self.reach([start], blocked_edges=[e], labels_excluded=labels_excluded):
                res.append(e)
        return res

    def must_pass(
        self,
        starts: Iterable[Node],
        targets: Iterable[Node],
        through: Iterable[Node],
        labels_excluded: Iterable[str] = (),
        include_starts: bool = True,
    ) -> list[Node]:
        """Targets reachable from starts on a path avoiding every ``through`` node (= offenders)."""
        r = self.reach(starts, blocked=through, labels_excluded=labels_excluded, include_starts=include_starts)
        return [t for t in targets if t in r]

    def path(self, start: Node, target: Node, blocked: Iterable[Node] = (), labels_excluded: Iterable[str] = ()) -> list[Node]:
        blocked = set(blocked)
        lx = set(labels_excluded)
        prev: dict[Node, Node | None] = {start: None}
        queue = [start]
        while queue:
            n = queue.pop(0)
            if n is target:
                out = []
                cur: Node | None = n
                while cur is not None:
                    out.append(cur)
                    cur = prev[cur]
                return list(reversed(out))
            for label, t in self.succ[n]:
                if t in prev or t in blocked or label in lx:
                    continue
                prev[t] = n
                queue.append(t)
        return []

    def stmt_nodes(self, pred: Callable[[ast.AST], bool]) -> list[Node]:
        return [n for n in self.nodes if n.ast is not None and pred(n.ast)]

    def describe_path(self, path: list[Node]) -> list[str]:
        return [f"{n.kind}@{n.line}{n.tag}" for n in path]


def _contains(root: ast.AST, target: ast.AST) -> bool:
    return any(n is target for n in ast.walk(root))


def header_contains(stmt: ast.AST, expr: ast.AST) -> bool:
    return any(_contains(h, expr) for h in _header_exprs(stmt))


def exprs_in_node(n: Node) -> Iterator[ast.AST]:
    """All AST nodes evaluated *at* this CFG node (header only for compound statements)."""
    if n.ast is None:
        return
    if n.kind == "handler":
        if n.ast.type is not None:
            yield from ast.walk(n.ast.type)
        return
    if n.kind == "case":
        yield from ast.walk(n.ast.pattern)
        if n.ast.guard is not None:
            yield from ast.walk(n.ast.guard)
        return
    for h in _header_exprs(n.ast):
        stack = [h]
        first = True
        while stack:
            x = stack.pop()
            if not first and isinstance(x, FuncNode + (ast.Lambda, ast.ClassDef)):
                continue
            first = False
            yield x
            stack.extend(ast.iter_child_nodes(x))
