"""Helper inlining and helper-predicate expansion, so that rules stated over one function survive
"extract method" refactorings.

`inline_module(mod, protected)` returns a view of a module in which calls to *unprotected* private helpers
(module-level functions or methods of the same class that the rules do not bind as anchors) are replaced by the
helper's body: parameters substituted by the (simple) arguments, clashing locals renamed, tail returns turned
into an assignment of a result variable (guard-style early returns are first normalised into if/else).  Only the
analysis sees this view; nothing is written anywhere.

`implied_facts(mod, call, positive)` gives the atoms that hold when a boolean helper returned truthy / falsy:
the intersection, over its return sites that can produce that truth value, of the path facts and the atoms of
the returned expression, with parameters substituted by the call's arguments.
"""

from __future__ import annotations

import ast
import itertools
from typing import Iterable

from .index import FuncNode, Module, _set_parents, parent, qualname_of

_counter = itertools.count(1)


def clone(e: ast.AST) -> ast.AST:
    new = type(e)()
    for fld, val in ast.iter_fields(e):
        if isinstance(val, ast.AST):
            setattr(new, fld, clone(val))
        elif isinstance(val, list):
            setattr(new, fld, [(clone(v) if isinstance(v, ast.AST) else v) for v in val])
        else:
            setattr(new, fld, val)
    for a in ("lineno", "col_offset", "end_lineno", "end_col_offset"):
        if hasattr(e, a):
            setattr(new, a, getattr(e, a))
    return new


def _simple(e: ast.AST) -> bool:
    if isinstance(e, (ast.Name, ast.Constant)):
        return True
    if isinstance(e, ast.Attribute):
        return _simple(e.value)
    if isinstance(e, ast.Subscript):
        return _simple(e.value) and _simple(e.slice)
    return False


def _assigned(fn_or_stmts) -> set[str]:
    out: set[str] = set()
    nodes = fn_or_stmts if isinstance(fn_or_stmts, list) else [fn_or_stmts]
    for root in nodes:
        for n in ast.walk(root):
            if isinstance(n, ast.Name) and isinstance(n.ctx, (ast.Store, ast.Del)):
                out.add(n.id)
            elif isinstance(n, ast.arg):
                out.add(n.arg)
    return out


class _Subst(ast.NodeTransformer):
    def __init__(self, mapping: dict[str, ast.AST], rename: dict[str, str]):
        self.mapping = mapping
        self.rename = rename

    def visit_Name(self, n: ast.Name) -> ast.AST:
        if n.id in self.mapping and isinstance(n.ctx, ast.Load):
            return clone(self.mapping[n.id])
        if n.id in self.rename:
            return ast.copy_location(ast.Name(id=self.rename[n.id], ctx=n.ctx), n)
        return n

    def visit_Lambda(self, n):  # do not touch lambda params
        return n


def _always_returns(stmts: list[ast.stmt]) -> bool:
    if not stmts:
        return False
    s = stmts[-1]
    if isinstance(s, (ast.Return, ast.Raise)):
        return True
    if isinstance(s, ast.If):
        return bool(s.orelse) and _always_returns(s.body) and _always_returns(s.orelse)
    return False


def _normalise_guards(stmts: list[ast.stmt]) -> list[ast.stmt]:
    """`if c: …return…` followed by more statements  ->  `if c: … else: <rest>` (recursively)."""
    out: list[ast.stmt] = []
    for i, s in enumerate(stmts):
        if isinstance(s, ast.If) and not s.orelse and _always_returns(s.body) and i + 1 < len(stmts):
            new = ast.copy_location(ast.If(test=s.test, body=_normalise_guards(s.body), orelse=_normalise_guards(stmts[i + 1:])), s)
            out.append(new)
            return out
        if isinstance(s, ast.If):
            s = ast.copy_location(ast.If(test=s.test, body=_normalise_guards(s.body), orelse=_normalise_guards(s.orelse)), s)
        out.append(s)
    return out


class _NoInline(Exception):
    pass


def _tail_to_assign(stmts: list[ast.stmt], retvar: str) -> list[ast.stmt]:
    """Turn tail returns into `retvar = value`; any other return makes inlining impossible."""
    if not stmts:
        return [ast.Assign(targets=[ast.Name(id=retvar, ctx=ast.Store())], value=ast.Constant(value=None), lineno=0, col_offset=0)]
    head, last = stmts[:-1], stmts[-1]
    for s in head:
        for n in ast.walk(s):
            if isinstance(n, ast.Return) and _owner_fn(n, s) is None:
                raise _NoInline("non-tail return")
    if isinstance(last, ast.Return):
        val = last.value if last.value is not None else ast.Constant(value=None)
        tail = [ast.copy_location(ast.Assign(targets=[ast.Name(id=retvar, ctx=ast.Store())], value=val), last)]
    elif isinstance(last, ast.If):
        tail = [ast.copy_location(ast.If(test=last.test, body=_tail_to_assign(last.body, retvar), orelse=_tail_to_assign(last.orelse, retvar) if last.orelse else _tail_to_assign([], retvar)), last)]
    elif isinstance(last, (ast.With, ast.AsyncWith)):
        new = clone(last)
        new.body = _tail_to_assign(last.body, retvar)
        tail = [new]
    elif isinstance(last, ast.Try):
        new = clone(last)
        new.body = _tail_to_assign(last.body, retvar) if not last.orelse else last.body
        new.orelse = _tail_to_assign(last.orelse, retvar) if last.orelse else []
        new.handlers = [ast.copy_location(ast.ExceptHandler(type=h.type, name=h.name, body=_tail_to_assign(h.body, retvar)), h) for h in last.handlers]
        for n in ast.walk(ast.Module(body=last.finalbody, type_ignores=[])):
            if isinstance(n, ast.Return):
                raise _NoInline("return in finally")
        tail = [new]
    elif isinstance(last, ast.Raise):
        tail = [last]
    else:
        for n in ast.walk(last):
            if isinstance(n, ast.Return) and _owner_fn(n, last) is None:
                raise _NoInline("return inside loop/other statement")
        tail = [last, ast.Assign(targets=[ast.Name(id=retvar, ctx=ast.Store())], value=ast.Constant(value=None), lineno=getattr(last, "lineno", 0), col_offset=0)]
    return head + tail


def _owner_fn(node: ast.AST, root: ast.AST) -> ast.AST | None:
    """nearest enclosing def of node strictly inside root (returns inside nested defs do not count)"""
    # walk root collecting nested function bodies
    for n in ast.walk(root):
        if isinstance(n, FuncNode + (ast.Lambda,)) and n is not root:
            if any(x is node for x in ast.walk(n)):
                return n
    return None


class Inliner:
    def __init__(self, mod: Module, protected: Iterable[str]):
        self.mod = mod
        self.protected = set(protected)
        self.inlined_calls = 0
        self.folded: set[str] = set()

    # ------------------------------------------------------------------ which helpers
    def helper_for(self, call: ast.Call, cls: ast.ClassDef | None) -> tuple[ast.AST, bool] | None:
        f = call.func
        h = None
        is_method = False
        if isinstance(f, ast.Name) and f.id in self.mod.functions and "." not in f.id:
            h = self.mod.functions[f.id]
            q = f.id
        elif isinstance(f, ast.Attribute) and isinstance(f.value, ast.Name) and cls is not None and f.value.id in ("self", "cls", cls.name):
            q = f"{qualname_of(cls)}.{f.attr}"
            h = self.mod.functions.get(q)
            is_method = True
            if h is not None:
                decos = [ast.unparse(d).split(".")[-1] for d in h.decorator_list]
                if decos == ["staticmethod"]:
                    is_method = False  # no receiver parameter: the call's arguments map to the parameters as they are
                elif f.value.id != "self":
                    h = None  # cls.f / ClassName.f of a plain or class method: not a helper call on this instance
        if h is None:
            return None
        name = q.split(".")[-1]
        if q in self.protected or name in self.protected or not name.startswith("_") or name.startswith("__"):
            return None
        if any(isinstance(n, (ast.Yield, ast.YieldFrom)) for n in ast.walk(h)):
            return None
        if h.args.vararg or h.args.kwarg or [ast.unparse(d).split(".")[-1] for d in h.decorator_list] not in ([], ["staticmethod"]):
            return None
        if any(isinstance(n, ast.Call) and n is not call and ((isinstance(n.func, ast.Name) and n.func.id == name) or (isinstance(n.func, ast.Attribute) and n.func.attr == name)) for n in ast.walk(h)):
            return None  # recursive
        return h, is_method

    # ------------------------------------------------------------------ one call
    def expand_call(self, call: ast.Call, caller: ast.AST, cls: ast.ClassDef | None) -> tuple[list[ast.stmt], ast.AST] | None:
        got = self.helper_for(call, cls)
        if got is None:
            return None
        h, is_method = got
        params = [a.arg for a in h.args.posonlyargs + h.args.args]
        if is_method:
            params = params[1:]
        kwonly = [a.arg for a in h.args.kwonlyargs]
        if any(isinstance(a, ast.Starred) for a in call.args) or any(k.arg is None for k in call.keywords):
            return None
        n = next(_counter)
        bind: dict[str, ast.AST] = {}
        for p, a in zip(params, call.args):
            bind[p] = a
        for k in call.keywords:
            bind[k.arg] = k.value
        defaults = dict(zip(params[len(params) - len(h.args.defaults):], h.args.defaults)) if h.args.defaults else {}
        for p, d in zip(kwonly, h.args.kw_defaults):
            if d is not None:
                defaults[p] = d
        pre: list[ast.stmt] = []
        mapping: dict[str, ast.AST] = {}
        helper_assigned = _assigned(h.body)
        for p in params + kwonly:
            if p not in bind:
                if p in defaults:
                    bind[p] = defaults[p]
                else:
                    return None
            arg = bind[p]
            if _simple(arg) and p not in helper_assigned:
                mapping[p] = arg
            else:
                fresh = f"{p}__i{n}"
                pre.append(ast.copy_location(ast.Assign(targets=[ast.Name(id=fresh, ctx=ast.Store())], value=clone(arg)), call))
                mapping[p] = ast.Name(id=fresh, ctx=ast.Load())
        clash = (helper_assigned - set(params) - set(kwonly)) & (_assigned(caller) | {a.arg for a in ast.walk(caller) if isinstance(a, ast.arg)})
        rename = {name: f"{name}__i{n}" for name in clash}
        retvar = f"ret__i{n}"
        body = [clone(s) for s in h.body]
        if body and isinstance(body[0], ast.Expr) and isinstance(body[0].value, ast.Constant) and isinstance(body[0].value.value, str):
            body = body[1:]
        try:
            body = _tail_to_assign(_normalise_guards(body), retvar)
        except _NoInline:
            return None
        sub = _Subst(mapping, rename)
        body = [sub.visit(s) for s in body]
        for s in body:
            ast.fix_missing_locations(s)
        self.inlined_calls += 1
        self.folded.add(h.name)
        return pre + body, ast.Name(id=retvar, ctx=ast.Load())

    # ------------------------------------------------------------------ expression helpers (single `return <expr>`)
    def _expr_helper_body(self, h: ast.AST) -> ast.AST | None:
        body = list(h.body)
        if body and isinstance(body[0], ast.Expr) and isinstance(body[0].value, ast.Constant) and isinstance(body[0].value.value, str):
            body = body[1:]
        if isinstance(h, ast.AsyncFunctionDef):
            return None
        return self._returns_as_expr(body)

    def _returns_as_expr(self, body: list[ast.stmt]) -> ast.AST | None:
        """`return e`  |  `if c: return a` … `return z`  |  `if c: return a else: return b`  as one (conditional) expression."""
        if not body:
            return None
        s = body[0]
        if isinstance(s, ast.Return):
            return s.value if s.value is not None else ast.Constant(value=None)
        if isinstance(s, ast.If):
            then = self._returns_as_expr(s.body)
            if then is None:
                return None
            other = self._returns_as_expr(s.orelse) if s.orelse else None
            if s.orelse and other is None:
                return None
            rest = other if s.orelse else self._returns_as_expr(body[1:])
            if rest is None:
                return None
            return ast.IfExp(test=s.test, body=then, orelse=rest)
        return None

    def subst_expr_helpers(self, expr: ast.AST, cls, depth: int = 3) -> ast.AST:
        """Replace calls to expression helpers inside `expr` by the helper's returned expression (parameters substituted)."""
        if depth <= 0:
            return expr
        outer = self

        class R(ast.NodeTransformer):
            def visit_Call(self, c: ast.Call):
                self.generic_visit(c)
                got = outer.helper_for(c, cls)
                if got is None:
                    return c
                h, is_method = got
                ret = outer._expr_helper_body(h)
                if ret is None or any(isinstance(a, ast.Starred) for a in c.args) or any(k.arg is None for k in c.keywords):
                    return c
                params = [a.arg for a in h.args.posonlyargs + h.args.args]
                if is_method:
                    params = params[1:]
                kwonly = [a.arg for a in h.args.kwonlyargs]
                bind = dict(zip(params, c.args))
                for k in c.keywords:
                    bind[k.arg] = k.value
                defaults = dict(zip(params[len(params) - len(h.args.defaults):], h.args.defaults)) if h.args.defaults else {}
                for p_, d in zip(kwonly, h.args.kw_defaults):
                    if d is not None:
                        defaults[p_] = d
                for p_ in params + kwonly:
                    if p_ not in bind:
                        if p_ not in defaults:
                            return c
                        bind[p_] = defaults[p_]
                outer.inlined_calls += 1
                outer.folded.add(h.name)
                new = _Subst({k: v for k, v in bind.items()}, {}).visit(clone(ret))
                new = ast.copy_location(new, c)
                ast.fix_missing_locations(new)
                return outer.subst_expr_helpers(new, cls, depth - 1)

            def visit_Lambda(self, n):
                return n

        return R().visit(expr)

    # ------------------------------------------------------------------ statements
    def _find_call(self, expr: ast.AST, caller, cls) -> ast.Call | None:
        for n in ast.walk(expr):
            if isinstance(n, (ast.Lambda,) + FuncNode + (ast.ListComp, ast.SetComp, ast.DictComp, ast.GeneratorExp)):
                continue
            if isinstance(n, ast.Call) and self.helper_for(n, cls) is not None and not _inside_scope(expr, n):
                return n
        return None

    def inline_block(self, stmts: list[ast.stmt], caller: ast.AST, cls: ast.ClassDef | None, depth: int) -> list[ast.stmt]:
        out: list[ast.stmt] = []
        for s in stmts:
            out.extend(self.inline_stmt(s, caller, cls, depth))
        return out

    def _unroll(self, s: ast.For) -> list[ast.stmt] | None:
        """`for f in (helper_a, helper_b): … f(…) …`  →  the body once per helper, with the name substituted."""
        if s.orelse or not isinstance(s.iter, (ast.Tuple, ast.List)) or not isinstance(s.target, ast.Name) or not s.iter.elts:
            return None
        if not all(isinstance(e, ast.Name) and e.id in self.mod.functions and "." not in e.id for e in s.iter.elts):
            return None
        if any(isinstance(x, (ast.Break, ast.Continue)) for b in s.body for x in ast.walk(b)):
            return None
        if any(isinstance(x, ast.Name) and x.id == s.target.id and isinstance(x.ctx, ast.Store) for b in s.body for x in ast.walk(b)):
            return None
        out: list[ast.stmt] = []
        for e in s.iter.elts:
            sub = _Subst({s.target.id: e}, {})
            for b in s.body:
                nb = sub.visit(clone(b))
                ast.copy_location(nb, b)
                ast.fix_missing_locations(nb)
                out.append(nb)
        return out

    def inline_stmt(self, s: ast.stmt, caller, cls, depth: int) -> list[ast.stmt]:
        if isinstance(s, FuncNode + (ast.ClassDef,)):
            return [s]
        if isinstance(s, ast.For):
            un = self._unroll(s)
            if un is not None:
                self.inlined_calls += 1
                return self.inline_block(un, caller, cls, depth)
        # expression helpers are substituted in place, in every expression position of the statement header
        for fld, val in list(ast.iter_fields(s)):
            if fld in ("body", "orelse", "finalbody", "handlers", "cases"):
                continue
            if isinstance(val, ast.expr):
                setattr(s, fld, self.subst_expr_helpers(val, cls))
            elif isinstance(val, list) and val and isinstance(val[0], ast.expr):
                setattr(s, fld, [self.subst_expr_helpers(v, cls) for v in val])
            elif isinstance(val, list) and val and isinstance(val[0], ast.withitem):
                for wi in val:
                    wi.context_expr = self.subst_expr_helpers(wi.context_expr, cls)
        # compound statements: recurse into blocks; headers: only If tests of the non-hoistable kind are left alone
        for fld in ("body", "orelse", "finalbody"):
            blk = getattr(s, fld, None)
            if isinstance(blk, list) and blk and isinstance(blk[0], ast.stmt):
                setattr(s, fld, self.inline_block(blk, caller, cls, depth))
        if isinstance(s, ast.Try):
            for h in s.handlers:
                h.body = self.inline_block(h.body, caller, cls, depth)
        if isinstance(s, ast.Match):
            for c in s.cases:
                c.body = self.inline_block(c.body, caller, cls, depth)
        if depth <= 0:
            return [s]
        # value positions where hoisting the helper's body in front of the statement keeps the analysis meaningful
        if isinstance(s, (ast.Expr, ast.Assign, ast.AnnAssign, ast.AugAssign, ast.Return)):
            val = s.value
            if val is None:
                return [s]
            call = self._find_call(val, caller, cls)
            if call is None:
                return [s]
            got = self.expand_call(call, caller, cls)
            if got is None:
                return [s]
            body, res = got
            new_s = _replace_node(s, call, res)
            # an await directly around the helper call disappears with it (the body's own awaits remain)
            new_s = _strip_await_of(new_s, res)
            body = self.inline_block(body, caller, cls, depth - 1)
            tail = [] if (isinstance(new_s, ast.Expr) and isinstance(new_s.value, ast.Name)) else self.inline_stmt(new_s, caller, cls, depth)
            return body + tail
        return [s]

    # ------------------------------------------------------------------ module
    def run(self, depth: int = 3) -> Module:
        tree = clone(self.mod.tree)
        _set_parents(tree)
        for node in ast.walk(tree):
            if isinstance(node, FuncNode):
                cls = parent(node) if isinstance(parent(node), ast.ClassDef) else None
                node.body = self.inline_block(node.body, node, cls, depth)
        self._drop_folded_helpers(tree)
        ast.fix_missing_locations(tree)
        _set_parents(tree)
        m = Module(self.mod.name, self.mod.path, self.mod.rel, self.mod.src, tree)
        return m

    def _drop_folded_helpers(self, tree: ast.Module) -> None:
        """A helper whose every use was folded into its callers has no life of its own any more: remove its definition from
        the view, so that rules which scan all functions of a module do not meet the same statements twice."""
        used: set[str] = set()
        for n in ast.walk(tree):
            if isinstance(n, ast.Name) and isinstance(n.ctx, ast.Load):
                used.add(n.id)
            elif isinstance(n, ast.Attribute):
                used.add(n.attr)
            elif isinstance(n, ast.Constant) and isinstance(n.value, str) and n.value.isidentifier():
                used.add(n.value)
        for owner in [tree] + [c for c in ast.walk(tree) if isinstance(c, ast.ClassDef)]:
            keep = []
            for st in owner.body:
                if isinstance(st, FuncNode) and st.name in self.folded and st.name not in used and st.name not in self.protected:
                    continue
                keep.append(st)
            if keep:
                owner.body = keep


def _inside_scope(root: ast.AST, node: ast.AST) -> bool:
    for n in ast.walk(root):
        if isinstance(n, (ast.Lambda, ast.ListComp, ast.SetComp, ast.DictComp, ast.GeneratorExp)) and n is not root:
            if any(x is node for x in ast.walk(n)):
                return True
    return False


def _replace_node(root: ast.AST, old: ast.AST, new: ast.AST) -> ast.AST:
    class R(ast.NodeTransformer):
        def generic_visit(self, n):
            for fld, val in ast.iter_fields(n):
                if val is old:
                    setattr(n, fld, new)
                elif isinstance(val, list):
                    setattr(n, fld, [new if v is old else (self.visit(v) if isinstance(v, ast.AST) else v) for v in val])
                elif isinstance(val, ast.AST):
                    self.visit(val)
            return n

    return R().visit(root)


def _strip_await_of(root: ast.AST, res: ast.AST) -> ast.AST:
    class R(ast.NodeTransformer):
        def visit_Await(self, n: ast.Await):
            if n.value is res:
                return res
            self.generic_visit(n)
            return n

    return R().visit(root)


def inline_module(mod: Module, protected: Iterable[str], depth: int = 3) -> tuple[Module, int]:
    inl = Inliner(mod, protected)
    new = inl.run(depth)
    return new, inl.inlined_calls


# ---------------------------------------------------------------------------- helper predicates


def implied_facts(mod: Module, call: ast.Call, positive: bool, cls: ast.ClassDef | None = None, depth: int = 2) -> set[tuple[str, bool]]:
    """Atoms that hold at the call site when the boolean helper `call` returned truthy (positive) / falsy:
    intersection over the helper's return sites that can produce that truth value of (path facts + atoms of the
    returned expression), with the helper's parameters replaced by the call's arguments."""
    from .astx import atoms, facts_at
    from .cfg import CFG

    f = call.func
    h = None
    is_method = False
    if isinstance(f, ast.Name) and f.id in mod.functions and "." not in f.id:
        h = mod.functions[f.id]
    elif isinstance(f, ast.Attribute) and isinstance(f.value, ast.Name) and f.value.id == "self" and cls is not None:
        h = mod.functions.get(f"{qualname_of(cls)}.{f.attr}")
        is_method = True
    if h is None or isinstance(h, ast.AsyncFunctionDef) or any(isinstance(a, ast.Starred) for a in call.args):
        return set()
    params = [a.arg for a in h.args.posonlyargs + h.args.args]
    if is_method:
        params = params[1:]
    bind = dict(zip(params, call.args))
    for k in call.keywords:
        if k.arg:
            bind[k.arg] = k.value
    if set(params) - set(bind):
        return set()
    assigned = _assigned(h.body)
    mapping = {p_: a for p_, a in bind.items() if p_ not in assigned}
    cfg = CFG(h)
    result: set[tuple[str, bool]] | None = None
    for n in cfg.nodes:
        if not isinstance(n.ast, ast.Return) or n.tag:
            continue
        val = n.ast.value
        if val is None or (isinstance(val, ast.Constant) and bool(val.value) != positive):
            continue  # this return cannot produce the truth value asked for
        facts = set(facts_at(cfg, n, expand_locals=True, mod=mod if depth > 1 else None, _depth=depth - 1))
        if not isinstance(val, ast.Constant):
            from .astx import expand
            for variant in (val, expand(val, n.ast)):
                facts |= set(atoms(variant, positive)) if _splits(variant, positive) else set()
        result = facts if result is None else (result & facts)
    if not result:
        return set()
    # substitute parameters by arguments in the atom texts (through the AST, not by string replacement)
    out: set[tuple[str, bool]] = set()
    for text, pol in result:
        try:
            e = ast.parse(text, mode="eval").body
        except SyntaxError:
            continue
        e2 = _Subst(mapping, {}).visit(e)
        for t2, p2 in atoms(e2, True):
            out.add((t2, pol if p2 else not pol))
    return out


def _splits(e: ast.AST, positive: bool) -> bool:
    """atoms(e, positive) yields facts that really hold (an `or` known true / an `and` known false gives one opaque atom, which is fine too)"""
    return True
