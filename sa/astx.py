"""AST helpers: dotted names, call matching, predicate normalisation, syntactic reaching
definitions for straight-line locals, guard facts from the CFG."""

from __future__ import annotations

import ast
import copy
from typing import Iterable, Iterator

from .cfg import CFG, Node
from .index import FuncNode, parent, walk_shallow

# ---------------------------------------------------------------------------- names / calls


def dotted(e: ast.AST | None) -> str | None:
    if isinstance(e, ast.Name):
        return e.id
    if isinstance(e, ast.Attribute):
        b = dotted(e.value)
        return f"{b}.{e.attr}" if b is not None else None
    if isinstance(e, ast.Call):  # a().b
        return None
    return None


def call_name(c: ast.AST) -> str | None:
    if isinstance(c, ast.Await):
        c = c.value
    if isinstance(c, ast.Call):
        d = dotted(c.func)
        if d is not None:
            return d
        if isinstance(c.func, ast.Attribute):
            return "?." + c.func.attr
    return None


def last(name: str | None) -> str | None:
    return name.rsplit(".", 1)[-1] if name else None


def calls(root: ast.AST, *, shallow: bool = True) -> Iterator[ast.Call]:
    it = walk_shallow(root) if shallow else ast.walk(root)
    for n in it:
        if isinstance(n, ast.Call):
            yield n
    if isinstance(root, ast.Call):
        yield root


def calls_named(root: ast.AST, *names: str, shallow: bool = True) -> list[ast.Call]:
    """Calls whose callee's last component (or full dotted name) is in names."""
    out = []
    for c in calls(root, shallow=shallow):
        n = call_name(c)
        if n is None:
            continue
        if n in names or last(n) in names:
            out.append(c)
    return sorted(set(out), key=lambda c: (c.lineno, c.col_offset))


def kwarg(c: ast.Call, name: str, pos: int | None = None) -> ast.AST | None:
    for k in c.keywords:
        if k.arg == name:
            return k.value
    if pos is not None and len(c.args) > pos and not any(isinstance(a, ast.Starred) for a in c.args[: pos + 1]):
        return c.args[pos]
    return None


def enclosing_stmt(n: ast.AST) -> ast.stmt | None:
    cur: ast.AST | None = n
    while cur is not None and not isinstance(cur, ast.stmt):
        cur = parent(cur)
    return cur


def stmt_list_of(stmt: ast.AST) -> tuple[list[ast.stmt], int] | None:
    p = parent(stmt)
    if p is None:
        return None
    for fld in ("body", "orelse", "finalbody"):
        lst = getattr(p, fld, None)
        if isinstance(lst, list) and any(x is stmt for x in lst):
            return lst, next(i for i, x in enumerate(lst) if x is stmt)
    if isinstance(p, ast.Try):
        for h in p.handlers:
            if any(x is stmt for x in h.body):
                return h.body, next(i for i, x in enumerate(h.body) if x is stmt)
    return None


def assigned_names(stmt: ast.AST) -> set[str]:
    out: set[str] = set()
    for n in ast.walk(stmt):
        if isinstance(n, ast.Name) and isinstance(n.ctx, (ast.Store, ast.Del)):
            out.add(n.id)
        elif isinstance(n, FuncNode + (ast.ClassDef,)):
            out.add(n.name)
    return out


def reaching_def(name: str, at: ast.AST) -> ast.AST | None:
    """Value expression of the nearest *unconditional* straight-line assignment to ``name``
    that precedes statement ``at`` (searching enclosing blocks outward).  None if the name is
    assigned conditionally in between or not found (parameters, globals)."""
    stmt = enclosing_stmt(at)
    while stmt is not None and not isinstance(stmt, FuncNode):
        loc = stmt_list_of(stmt)
        if loc is None:
            break
        lst, i = loc
        for prev in reversed(lst[:i]):
            if isinstance(prev, ast.Assign) and len(prev.targets) == 1 and isinstance(prev.targets[0], ast.Name) and prev.targets[0].id == name:
                return prev.value
            if isinstance(prev, ast.AnnAssign) and isinstance(prev.target, ast.Name) and prev.target.id == name and prev.value is not None:
                return prev.value
            # `a, b, c = X`  binds  b  to  X[1]  (no starred targets)
            if isinstance(prev, ast.Assign) and len(prev.targets) == 1 and isinstance(prev.targets[0], (ast.Tuple, ast.List)) \
                    and not any(isinstance(t, ast.Starred) for t in prev.targets[0].elts):
                for i_, t in enumerate(prev.targets[0].elts):
                    if isinstance(t, ast.Name) and t.id == name:
                        if isinstance(prev.value, (ast.Tuple, ast.List)) and len(prev.value.elts) == len(prev.targets[0].elts):
                            return prev.value.elts[i_]
                        if isinstance(prev.value, (ast.Name, ast.Attribute, ast.Subscript)):
                            return ast.copy_location(ast.Subscript(value=prev.value, slice=ast.Constant(value=i_), ctx=ast.Load()), prev.value)
            if name in assigned_names(prev):
                return None
        p = parent(stmt)
        # a loop body may be re-entered after a later assignment in the same loop
        if isinstance(p, (ast.For, ast.AsyncFor, ast.While)) and name in assigned_names(p):
            # assignments found above in this iteration dominate the use; not found => unknown
            return None
        while p is not None and not isinstance(p, ast.stmt):
            p = parent(p)
        stmt = p
    return None


def _mutated_in_place(name: str, at: ast.AST) -> bool:
    fn = at
    while fn is not None and not isinstance(fn, FuncNode):
        fn = parent(fn)
    if fn is None:
        return False
    cache = fn.__dict__.setdefault("_mutated_names", None)
    if cache is None:
        cache = set()
        for x in ast.walk(fn):
            if isinstance(x, ast.Call) and isinstance(x.func, ast.Attribute) and x.func.attr in MUTATORS and isinstance(x.func.value, ast.Name):
                cache.add(x.func.value.id)
            elif isinstance(x, ast.Subscript) and isinstance(x.ctx, (ast.Store, ast.Del)) and isinstance(x.value, ast.Name):
                cache.add(x.value.id)
            elif isinstance(x, ast.AugAssign) and isinstance(x.target, ast.Name):
                cache.add(x.target.id)
        fn.__dict__["_mutated_names"] = cache
    return name in cache


def expand(e: ast.AST, at: ast.AST | None = None, depth: int = 4, stop: Iterable[str] = (), provenance: bool = False) -> ast.AST:
    """Substitute straight-line local definitions into ``e`` (copy; original untouched).
    Names in ``stop`` are kept opaque.  By default a name bound to a container that is later filled in place is kept
    opaque too (its defining expression is not its value at the use); ``provenance=True`` substitutes it anyway, for rules
    that ask where an object comes from rather than what it holds."""
    at = at if at is not None else e
    return _expand_lockstep(e, at, depth, frozenset(), frozenset(stop), provenance)


def _expand_lockstep(e: ast.AST, at: ast.AST, depth: int, bound: frozenset = frozenset(), stop: frozenset = frozenset(), prov: bool = False) -> ast.AST:
    if isinstance(e, ast.Name) and isinstance(e.ctx, ast.Load) and depth > 0 and e.id not in bound and e.id not in stop:
        d = reaching_def(e.id, at)
        if d is not None and not prov and _mutated_in_place(e.id, at):
            d = None  # the binding is a container that is filled in place: its initial value says nothing about the use
        if d is not None and not isinstance(d, (ast.Await, ast.Yield, ast.YieldFrom)):
            return _expand_lockstep(d, d, depth - 1, frozenset(), stop, prov)
        return ast.Name(id=e.id, ctx=ast.Load())
    if isinstance(e, ast.Lambda):
        bound = bound | {a.arg for a in e.args.args + e.args.kwonlyargs + e.args.posonlyargs}
    if isinstance(e, (ast.ListComp, ast.SetComp, ast.DictComp, ast.GeneratorExp)):
        names = set()
        for g in e.generators:
            names |= {n.id for n in ast.walk(g.target) if isinstance(n, ast.Name)}
        bound = bound | names
    new = copy.copy(e)
    for fld, val in ast.iter_fields(e):
        if isinstance(val, ast.AST):
            setattr(new, fld, _expand_lockstep(val, at, depth, bound, stop, prov))
        elif isinstance(val, list):
            setattr(new, fld, [(_expand_lockstep(v, at, depth, bound, stop, prov) if isinstance(v, ast.AST) else v) for v in val])
    return new



# ---------------------------------------------------------------------------- flow-insensitive dependence slice


class Slice:
    """What the value of a local may depend on: every right-hand side that can flow into it (transitively through
    locals of the same function), the tests of the branches that choose between its assignments, and the leaves
    (names without a local assignment, i.e. parameters/globals, or names in ``stop``)."""

    def __init__(self) -> None:
        self.exprs: list[ast.AST] = []
        self.leaves: set[str] = set()
        self.locals: set[str] = set()

    def calls(self) -> list[ast.Call]:
        return [c for e in self.exprs for c in ast.walk(e) if isinstance(c, ast.Call)]

    def attrs(self) -> set[str]:
        return {ast.unparse(a) for e in self.exprs for a in ast.walk(e) if isinstance(a, ast.Attribute)}

    def text(self) -> str:
        return " ; ".join(ast.unparse(e) for e in self.exprs)


def dep_slice(fn: ast.AST, start: ast.AST | str, stop: Iterable[str] = ()) -> Slice:
    """Over-approximate (may) dependence of ``start`` (a name or an expression inside fn). Sound for "depends on
    nothing but …" rules: every assignment to a name anywhere in fn counts, whatever the path."""
    stop = set(stop)
    assigned: dict[str, list[tuple[ast.AST, ast.AST]]] = {}
    for st in ast.walk(fn):
        if isinstance(st, ast.Assign):
            for t in st.targets:
                for n in ast.walk(t):
                    if isinstance(n, ast.Name):
                        assigned.setdefault(n.id, []).append((st.value, st))
        elif isinstance(st, (ast.AnnAssign, ast.AugAssign)) and isinstance(st.target, ast.Name) and st.value is not None:
            assigned.setdefault(st.target.id, []).append((st.value, st))
        elif isinstance(st, ast.NamedExpr) and isinstance(st.target, ast.Name):
            assigned.setdefault(st.target.id, []).append((st.value, st))
        elif isinstance(st, (ast.For, ast.AsyncFor, ast.comprehension)):
            for n in ast.walk(st.target):
                if isinstance(n, ast.Name):
                    assigned.setdefault(n.id, []).append((st.iter, st))
        elif isinstance(st, (ast.With, ast.AsyncWith)):
            for it in st.items:
                if it.optional_vars is not None:
                    for n in ast.walk(it.optional_vars):
                        if isinstance(n, ast.Name):
                            assigned.setdefault(n.id, []).append((it.context_expr, st))
        # in-place fills: what is stored into / appended to a local container flows into it
        if isinstance(st, ast.Assign):
            for t in st.targets:
                if isinstance(t, ast.Subscript) and isinstance(t.value, ast.Name):
                    assigned.setdefault(t.value.id, []).append((st.value, st))
                    assigned.setdefault(t.value.id, []).append((t.slice, st))
        elif isinstance(st, ast.Expr) and isinstance(st.value, ast.Call) and isinstance(st.value.func, ast.Attribute) and isinstance(st.value.func.value, ast.Name) \
                and st.value.func.attr in ("append", "extend", "add", "update", "insert", "setdefault", "appendleft"):
            for a_ in list(st.value.args) + [k_.value for k_ in st.value.keywords]:
                assigned.setdefault(st.value.func.value.id, []).append((a_, st))
    out = Slice()
    work: list[str] = []

    def push(e: ast.AST) -> None:
        out.exprs.append(e)
        for x in ast.walk(e):
            if isinstance(x, ast.Name) and isinstance(x.ctx, ast.Load):
                work.append(x.id)

    if isinstance(start, str):
        work.append(start)
    else:
        push(start)
    seen: set[str] = set()
    while work:
        n = work.pop()
        if n in seen:
            continue
        seen.add(n)
        if n in stop or n not in assigned:
            out.leaves.add(n)
            continue
        out.locals.add(n)
        defs = assigned[n]
        for v, st in defs:
            push(v)
        if len(defs) > 1:
            # the branches that choose between the assignments
            for v, st in defs:
                p = parent(st)
                while p is not None and p is not fn:
                    if isinstance(p, (ast.If, ast.While)) and not any(p.test is e for e in out.exprs):
                        inside = sum(1 for _v, s2 in defs if any(y is s2 for y in ast.walk(p)))
                        if inside < len(defs) or _chooses(p, defs):
                            push(p.test)
                    p = parent(p)
    return out


def _chooses(ifnode: ast.AST, defs) -> bool:
    """Does this If assign the name differently in its two arms (so that its test selects the value)?"""
    in_body = [s for _v, s in defs if any(y is s for b in ifnode.body for y in ast.walk(b))]
    in_else = [s for _v, s in defs if any(y is s for b in getattr(ifnode, "orelse", []) for y in ast.walk(b))]
    return bool(in_body) and bool(in_else)


# ---------------------------------------------------------------------------- predicate normal form

_FLIP = {ast.Gt: ast.Lt, ast.GtE: ast.LtE}
_NEG = {
    ast.Lt: ast.GtE, ast.GtE: ast.Lt, ast.Gt: ast.LtE, ast.LtE: ast.Gt,
    ast.Eq: ast.NotEq, ast.NotEq: ast.Eq, ast.Is: ast.IsNot, ast.IsNot: ast.Is,
    ast.In: ast.NotIn, ast.NotIn: ast.In,
}
_SYM = (ast.Eq, ast.NotEq, ast.Is, ast.IsNot)
_OPTXT = {ast.Lt: "<", ast.LtE: "<=", ast.Eq: "==", ast.NotEq: "!=", ast.Is: "is", ast.IsNot: "is not", ast.In: "in", ast.NotIn: "not in", ast.Gt: ">", ast.GtE: ">="}


def _u(e: ast.AST) -> str:
    return " ".join(ast.unparse(e).split())


def atoms(test: ast.AST, positive: bool = True) -> list[tuple[str, bool]]:
    """Facts known when ``test`` evaluated to ``positive``: list of (normalised atom, polarity).
    `a and b` true -> both; `a or b` false -> both negated; otherwise the whole expression is one atom."""
    if isinstance(test, ast.UnaryOp) and isinstance(test.op, ast.Not):
        return atoms(test.operand, not positive)
    if isinstance(test, ast.IfExp):
        # a conditional expression with a constant arm is a conjunction / disjunction in disguise
        def _c(x: ast.AST) -> bool | None:
            return x.value if isinstance(x, ast.Constant) and isinstance(x.value, bool) else None
        nt = ast.UnaryOp(op=ast.Not(), operand=test.test)
        b, o = _c(test.body), _c(test.orelse)
        if b is False:
            return atoms(ast.BoolOp(op=ast.And(), values=[nt, test.orelse]), positive)
        if b is True:
            return atoms(ast.BoolOp(op=ast.Or(), values=[test.test, test.orelse]), positive)
        if o is False:
            return atoms(ast.BoolOp(op=ast.And(), values=[test.test, test.body]), positive)
        if o is True:
            return atoms(ast.BoolOp(op=ast.Or(), values=[nt, test.body]), positive)
    if isinstance(test, ast.BoolOp):
        if isinstance(test.op, ast.And) and positive or isinstance(test.op, ast.Or) and not positive:
            out = []
            for v in test.values:
                out += atoms(v, positive)
            return out
        # not splittable: a disjunction known true, or a conjunction known false.  Both are written as one
        # canonical disjunction of signed literals (De Morgan), so that `not (a and b)` and `not a or not b` agree.
        lits: list[str] = []
        simple = True
        for v in test.values:
            sub = atoms(v, positive)
            if len(sub) != 1:
                simple = False
                break
            t_, p_ = sub[0]
            lits.append(("" if p_ else "not ") + t_)
        if simple:
            return [("(" + " or ".join(sorted(set(lits))) + ")", True)]
        return [(_norm_atom(test)[0], positive)]
    txt, pol = _norm_atom(test)
    return [(txt, positive == pol)]


def _norm_atom(e: ast.AST) -> tuple[str, bool]:
    """Canonical text and polarity (True = as written) for an atomic predicate."""
    if isinstance(e, ast.BoolOp):
        parts = sorted(_norm_signed(v) for v in e.values)
        j = " and " if isinstance(e.op, ast.And) else " or "
        return "(" + j.join(parts) + ")", True
    if isinstance(e, ast.Compare) and len(e.ops) == 1:
        op, l, r = type(e.ops[0]), e.left, e.comparators[0]
        pol = True
        if op in _FLIP:
            op, l, r = _FLIP[op], r, l
        # canonical polarity: represent >=-family through its negation  (a >= b  ==  not a < b)
        # after the flip only <, <= remain for orderings; keep both (different strictness matters)
        # len(x) > 0  / len(x) != 0 / len(x) >= 1 -> truthiness of x
        t = _len_truthiness(op, l, r)
        if t is not None:
            return t
        if op in (ast.NotEq, ast.IsNot, ast.NotIn):
            op, pol = _NEG[op], False
        if op is ast.LtE:  # x <= y  ==  not (y < x): one strict form for all orderings
            op, l, r, pol = ast.Lt, r, l, False
        lt, rt = _u(l), _u(r)
        if op in _SYM and rt < lt:
            lt, rt = rt, lt
        return f"{lt} {_OPTXT[op]} {rt}", pol
    if isinstance(e, ast.Call) and call_name(e) == "bool" and len(e.args) == 1:
        return _norm_atom(e.args[0])
    return _u(e), True


def _norm_signed(e: ast.AST) -> str:
    a = atoms(e, True)
    if len(a) == 1:
        return ("" if a[0][1] else "not ") + a[0][0]
    return " and ".join(sorted(("" if p else "not ") + t for t, p in a))


def _len_truthiness(op: type, l: ast.AST, r: ast.AST) -> tuple[str, bool] | None:
    def is_len(x: ast.AST) -> ast.AST | None:
        if isinstance(x, ast.Call) and call_name(x) == "len" and len(x.args) == 1:
            return x.args[0]
        return None

    def const(x: ast.AST) -> int | None:
        return x.value if isinstance(x, ast.Constant) and isinstance(x.value, int) and not isinstance(x.value, bool) else None

    # after flip: forms  `0 < len(x)`, `len(x) != 0`, `len(x) == 0`, `1 <= len(x)`, `len(x) < 1`, `len(x) <= 0`
    if is_len(r) is not None and const(l) is not None:
        x, c = is_len(r), const(l)
        if op is ast.Lt and c == 0 or op is ast.LtE and c == 1:
            return _u(x), True
    if is_len(l) is not None and const(r) is not None:
        x, c = is_len(l), const(r)
        if op is ast.NotEq and c == 0:
            return _u(x), True
        if op is ast.Eq and c == 0 or op is ast.Lt and c == 1 or op is ast.LtE and c == 0:
            return _u(x), False
    return None


def facts_at(cfg: CFG, node: Node, *, expand_locals: bool = True, labels_excluded: Iterable[str] = (), mod=None, _depth: int = 2) -> set[tuple[str, bool]]:
    """Atomic facts that hold on every path from entry to ``node`` (from dominating branch
    edges; loop-carried re-assignment of tested names is NOT tracked — callers use this for
    tests over values that are stable between test and use, and say so).  A fact that is a call of
    a boolean helper of the same module is expanded into the facts its truth value implies."""
    from .index import enclosing_class, module_of

    out: set[tuple[str, bool]] = set()
    if mod is None and _depth > 0:
        mod = module_of(cfg.fn)
    cls = enclosing_class(cfg.fn) if cfg.fn is not None else None
    for tnode, label in cfg.guards(node, labels_excluded=labels_excluded):
        if tnode.kind != "test":
            continue
        test = tnode.ast.test
        pos = label == "T"
        for variant in ([test, expand(test, tnode.ast)] if expand_locals else [test]):
            for a in atoms(variant, pos):
                out.add(a)
            if mod is not None and _depth > 0:
                for call, cpos in _helper_calls_in(variant, pos):
                    from .inline import implied_facts
                    for a in implied_facts(mod, call, cpos, cls, _depth):
                        out.add(a)
    # an `assert cond` that every normal path to the node executes is a guard too (the failing side raises)
    lx = tuple(labels_excluded) or ("exc", "cancel")
    for a_node in cfg.nodes:
        if isinstance(a_node.ast, ast.Assert) and a_node is not node and a_node.kind != "test":
            if node in cfg.reach([cfg.entry], labels_excluded=lx) and node not in cfg.reach([cfg.entry], blocked=[a_node], labels_excluded=lx):
                for variant in ([a_node.ast.test, expand(a_node.ast.test, a_node.ast)] if expand_locals else [a_node.ast.test]):
                    out.update(atoms(variant, True))
    return out


def _helper_calls_in(test: ast.AST, positive: bool) -> list[tuple[ast.Call, bool]]:
    """(call, polarity) for each conjunct of the known truth value that is a plain call f(...) / self.f(...)."""
    if isinstance(test, ast.UnaryOp) and isinstance(test.op, ast.Not):
        return _helper_calls_in(test.operand, not positive)
    if isinstance(test, ast.BoolOp):
        if isinstance(test.op, ast.And) and positive or isinstance(test.op, ast.Or) and not positive:
            out = []
            for v in test.values:
                out += _helper_calls_in(v, positive)
            return out
        return []
    if isinstance(test, ast.Call) and (isinstance(test.func, ast.Name) or (isinstance(test.func, ast.Attribute) and isinstance(test.func.value, ast.Name) and test.func.value.id == "self")):
        return [(test, positive)]
    return []


def has_fact(facts: set[tuple[str, bool]], text: str, polarity: bool = True) -> bool:
    e = ast.parse(text, mode="eval").body
    want = atoms(e, polarity)
    return all(w in facts for w in want)


# ---------------------------------------------------------------------------- attribute access


MUTATORS = {
    "append", "insert", "extend", "remove", "pop", "clear", "update", "add", "discard",
    "setdefault", "popitem", "sort", "reverse", "appendleft", "popleft",
}


def attr_writes(root: ast.AST, attr: str, *, shallow: bool = False) -> list[tuple[ast.AST, str]]:
    """Sites that write attribute ``.attr`` of any receiver: (node, kind) with kind in
    assign / augassign / del / mutcall:<m> / substore / heap:<fn>."""
    out: list[tuple[ast.AST, str]] = []
    it = walk_shallow(root) if shallow else ast.walk(root)
    for n in it:
        if isinstance(n, ast.Attribute) and n.attr == attr:
            p = parent(n)
            if isinstance(n.ctx, ast.Store):
                out.append((n, "augassign" if isinstance(p, ast.AugAssign) else "assign"))
            elif isinstance(n.ctx, ast.Del):
                out.append((n, "del"))
            elif isinstance(p, ast.Attribute) and p.attr in MUTATORS and isinstance(parent(p), ast.Call) and parent(p).func is p:
                out.append((n, f"mutcall:{p.attr}"))
            elif isinstance(p, ast.Subscript) and p.value is n and isinstance(p.ctx, (ast.Store, ast.Del)):
                out.append((n, "substore"))
            elif isinstance(p, ast.Call) and n in p.args and last(call_name(p)) in ("heappush", "heappop", "heapify", "heappushpop", "heapreplace"):
                out.append((n, f"heap:{last(call_name(p))}"))
    return sorted(out, key=lambda t: (t[0].lineno, t[0].col_offset))


def attr_reads(root: ast.AST, attr: str) -> list[ast.Attribute]:
    return [n for n in ast.walk(root) if isinstance(n, ast.Attribute) and n.attr == attr and isinstance(n.ctx, ast.Load)]


def isinstance_classes(test: ast.AST) -> list[str]:
    """Class names tested by `isinstance(x, C)` / `isinstance(x, (A, B))` conjuncts in test."""
    out = []
    for n in ast.walk(test):
        if isinstance(n, ast.Call) and call_name(n) == "isinstance" and len(n.args) == 2:
            t = n.args[1]
            for e in t.elts if isinstance(t, ast.Tuple) else [t]:
                d = dotted(e)
                if d:
                    out.append(d)
    return out


def is_suspension(n: ast.AST) -> bool:
    return isinstance(n, (ast.Await, ast.AsyncWith, ast.AsyncFor, ast.Yield, ast.YieldFrom))


def contains(root: ast.AST, target: ast.AST) -> bool:
    return any(x is target for x in ast.walk(root))


# ---------------------------------------------------------------------------- case analysis on a finite-domain subject


def specialize(test: ast.AST, subject: str, value: str, domain: Iterable[str]) -> ast.AST:
    """Partially evaluate ``test`` knowing that the expression whose source is ``subject`` equals the domain member whose
    source is ``value`` (members are pairwise distinct). Comparisons of the subject with a domain member fold to constants,
    and/or/not fold around them; everything else is kept."""
    domain = set(domain)

    def const(b: bool) -> ast.Constant:
        return ast.Constant(value=b)

    def is_const(e: ast.AST) -> bool | None:
        return e.value if isinstance(e, ast.Constant) and isinstance(e.value, bool) else None

    def rec(e: ast.AST) -> ast.AST:
        if isinstance(e, ast.Compare) and len(e.ops) == 1:
            l, r, op = ast.unparse(e.left), ast.unparse(e.comparators[0]), e.ops[0]
            if l in domain and r == subject:
                l, r = r, l
            if l == subject and r in domain and isinstance(op, (ast.Eq, ast.Is, ast.NotEq, ast.IsNot)):
                same = r == value
                return const(same if isinstance(op, (ast.Eq, ast.Is)) else not same)
            if l == subject and isinstance(op, (ast.In, ast.NotIn)) and isinstance(e.comparators[0], (ast.Tuple, ast.List, ast.Set)):
                elts = [ast.unparse(x) for x in e.comparators[0].elts]
                if all(x in domain for x in elts):
                    return const((value in elts) if isinstance(op, ast.In) else (value not in elts))
            return e
        if isinstance(e, ast.UnaryOp) and isinstance(e.op, ast.Not):
            v = rec(e.operand)
            c = is_const(v)
            return const(not c) if c is not None else ast.UnaryOp(op=ast.Not(), operand=v)
        if isinstance(e, ast.BoolOp):
            vals = [rec(v) for v in e.values]
            absorbing = isinstance(e.op, ast.Or)
            keep = []
            for v in vals:
                c = is_const(v)
                if c is None:
                    keep.append(v)
                elif c == absorbing:
                    # `True or …` / `False and …` — but only operands *before* it are evaluated; the result is decided anyway
                    return const(absorbing)
            if not keep:
                return const(not absorbing)
            return keep[0] if len(keep) == 1 else ast.BoolOp(op=e.op, values=keep)
        return e

    return rec(test)


def facts_given(cfg: CFG, node: Node, subject: str, value: str, domain: Iterable[str], mod=None) -> tuple[bool, set[tuple[str, bool]]]:
    """(reachable, facts): can ``node`` be reached on a normal path when ``subject == value``, and which atomic facts hold
    on every such path (branch conditions are specialised to the case before they are split into atoms)."""
    from .index import enclosing_class, module_of
    domain = list(domain)
    lx = ("exc", "cancel")
    infeasible: list[tuple[Node, str]] = []
    spec: dict[Node, ast.AST] = {}
    for t in cfg.nodes:
        if t.kind != "test" or not hasattr(t.ast, "test"):
            continue
        sp = specialize(t.ast.test, subject, value, domain)
        spec[t] = sp
        if isinstance(sp, ast.Constant) and isinstance(sp.value, bool):
            infeasible.append((t, "F" if sp.value else "T"))
    if node not in cfg.reach([cfg.entry], blocked_edges=infeasible, labels_excluded=lx):
        return False, set()
    facts: set[tuple[str, bool]] = set()
    mod = mod if mod is not None else (module_of(cfg.fn) if cfg.fn is not None else None)
    cls = enclosing_class(cfg.fn) if cfg.fn is not None else None
    for e in cfg.branch_edges():
        t, label = e
        if e in infeasible or t not in spec or label not in ("T", "F"):
            continue
        if node not in cfg.reach([cfg.entry], blocked_edges=infeasible + [e], labels_excluded=lx):
            for a in atoms(spec[t], label == "T"):
                facts.add(a)
                for b in atoms(expand(ast.parse(a[0], mode="eval").body, t.ast, depth=3), a[1]) if _parses(a[0]) else ():
                    facts.add(b)
    if mod is not None:
        from .inline import implied_facts
        for a, pol in list(facts):
            if _parses(a):
                c = ast.parse(a, mode="eval").body
                if isinstance(c, ast.Call):
                    facts |= implied_facts(mod, c, pol, cls, 2)
    return True, facts


def _parses(txt: str) -> bool:
    try:
        ast.parse(txt, mode="eval")
        return True
    except SyntaxError:
        return False


# ---------------------------------------------------------------------------- reachability under assumed boolean facts


def _tv(e: ast.AST, state: dict[str, bool]) -> bool | None:
    """Three-valued value of a condition given known truth values of expressions (by normalised source text)."""
    t = " ".join(ast.unparse(e).split())
    if t in state:
        return state[t]
    if isinstance(e, ast.Constant) and isinstance(e.value, bool):
        return e.value
    if isinstance(e, ast.UnaryOp) and isinstance(e.op, ast.Not):
        v = _tv(e.operand, state)
        return None if v is None else (not v)
    if isinstance(e, ast.BoolOp):
        vals = [_tv(v, state) for v in e.values]
        if isinstance(e.op, ast.And):
            if any(v is False for v in vals):
                return False
            return True if all(v is True for v in vals) else None
        if any(v is True for v in vals):
            return True
        return False if all(v is False for v in vals) else None
    if isinstance(e, ast.Call) and call_name(e) == "bool" and len(e.args) == 1:
        return _tv(e.args[0], state)
    return None


def reach_assuming(cfg: CFG, start: Node, assume: dict[str, bool], labels_excluded: Iterable[str] = ("exc", "cancel")) -> set[Node]:
    """Nodes reachable from ``start`` (exclusive, unless re-entered) when the expressions in ``assume`` have the given truth
    values at ``start``.  Knowledge is propagated forward: `flag = <expr>` records the three-valued value of <expr>, a test
    whose value is known takes only that edge, re-binding a name forgets every fact that mentions it, joins keep what agrees."""
    import re as _re
    lx = set(labels_excluded)
    states: dict[Node, dict[str, bool]] = {}
    work: list[tuple[Node, dict[str, bool]]] = []

    def forget(state: dict[str, bool], name: str) -> dict[str, bool]:
        pat = _re.compile(rf"(?<![A-Za-z0-9_.]){_re.escape(name)}(?![A-Za-z0-9_])")
        return {k: v for k, v in state.items() if not pat.search(k)}

    def transfer(n: Node, state: dict[str, bool]) -> dict[str, bool]:
        a = n.ast
        if n.kind in ("test", "iter") or a is None:
            if n.kind == "iter" and a is not None and hasattr(a, "target"):
                for x in ast.walk(a.target):
                    if isinstance(x, ast.Name):
                        state = forget(state, x.id)
            return state
        bound: list[tuple[str, ast.AST | None]] = []
        if isinstance(a, ast.Assign):
            for t in a.targets:
                if isinstance(t, ast.Name):
                    bound.append((t.id, a.value))
                else:
                    bound += [(x.id, None) for x in ast.walk(t) if isinstance(x, ast.Name) and isinstance(x.ctx, ast.Store)]
        elif isinstance(a, ast.AnnAssign) and isinstance(a.target, ast.Name) and a.value is not None:
            bound.append((a.target.id, a.value))
        elif isinstance(a, ast.AugAssign) and isinstance(a.target, ast.Name):
            bound.append((a.target.id, None))
        elif isinstance(a, (ast.With, ast.AsyncWith)):
            for it in a.items:
                if it.optional_vars is not None:
                    bound += [(x.id, None) for x in ast.walk(it.optional_vars) if isinstance(x, ast.Name)]
        for x in ast.walk(a) if not isinstance(a, (ast.If, ast.While, ast.For, ast.AsyncFor, ast.Try, ast.With, ast.AsyncWith)) else ():
            if isinstance(x, ast.NamedExpr) and isinstance(x.target, ast.Name):
                bound.append((x.target.id, None))
        for name, val in bound:
            v = _tv(val, state) if val is not None else None
            state = forget(state, name)
            if v is not None:
                state[name] = v
        return state

    def push(n: Node, state: dict[str, bool]) -> None:
        old = states.get(n)
        if old is None:
            states[n] = dict(state)
            work.append((n, dict(state)))
            return
        merged = {k: v for k, v in old.items() if state.get(k) == v}
        if merged != old:
            states[n] = merged
            work.append((n, dict(merged)))

    out_state = transfer(start, dict(assume))
    for label, t in cfg.succ[start]:
        if label not in lx:
            push(t, out_state)
    while work:
        n, state = work.pop()
        state = dict(states[n])
        taken: set[str] | None = None
        if n.kind == "test" and hasattr(n.ast, "test"):
            v = _tv(n.ast.test, state)
            if v is not None:
                taken = {"T"} if v else {"F"}
        st = transfer(n, state)
        for label, t in cfg.succ[n]:
            if label in lx or (taken is not None and label in ("T", "F") and label not in taken):
                continue
            s2 = dict(st)
            if n.kind == "test" and hasattr(n.ast, "test") and label in ("T", "F"):
                for atxt, pol in atoms(n.ast.test, label == "T"):
                    if _parses(atxt):
                        s2.setdefault(atxt, pol)
            push(t, s2)
    return set(states)


# ---------------------------------------------------------------------------- stale aliases of a re-bound attribute


def stale_alias_reads(cfg: CFG, attr: str, labels_excluded: Iterable[str] = ("exc", "cancel")) -> list[tuple[ast.AST, ast.AST, ast.AST]]:
    """(alias definition, re-binding statement, stale use) triples: a local is bound to `<x>.<attr>` (or to something
    read through it), `<x>.<attr> = …` is executed afterwards, and the local is read after that without having been bound
    again — it still refers to the object the attribute held before.  Loop back edges count: an alias captured before a
    loop is stale in the iteration after the one that re-binds the attribute."""
    fn = cfg.fn
    lx = tuple(labels_excluded)
    rebinds = [s_ for s_ in ast.walk(fn) if isinstance(s_, (ast.Assign, ast.AnnAssign)) for t in (s_.targets if isinstance(s_, ast.Assign) else [s_.target])
               if isinstance(t, ast.Attribute) and t.attr == attr and isinstance(t.value, ast.Name)]
    if not rebinds:
        return []
    roots = {t.value.id for s_ in rebinds for t in (s_.targets if isinstance(s_, ast.Assign) else [s_.target]) if isinstance(t, ast.Attribute) and t.attr == attr}
    out = []
    for d in ast.walk(fn):
        if not (isinstance(d, (ast.Assign, ast.AnnAssign)) and getattr(d, "value", None) is not None):
            continue
        tg = d.targets[0] if isinstance(d, ast.Assign) and len(d.targets) == 1 else (d.target if isinstance(d, ast.AnnAssign) else None)
        if not isinstance(tg, ast.Name):
            continue
        reads = [x for x in ast.walk(d.value) if isinstance(x, ast.Attribute) and x.attr == attr and isinstance(x.value, ast.Name) and x.value.id in roots]
        if not reads:
            continue
        dn = cfg.nodes_of(d)
        if not dn:
            continue
        # every binding of the alias name re-synchronises it
        resync = [n for x in ast.walk(fn) if isinstance(x, (ast.Assign, ast.AnnAssign, ast.AugAssign)) for t in ([x.target] if not isinstance(x, ast.Assign) else x.targets)
                  if isinstance(t, ast.Name) and t.id == tg.id for n in cfg.nodes_of(x)]
        after_d = cfg.reach([t for n in dn for lab, t in cfg.succ[n] if lab not in lx], blocked=resync, labels_excluded=lx)
        for r in rebinds:
            rn = [n for n in cfg.nodes_of(r) if n in after_d]
            if not rn:
                continue
            after_r = cfg.reach([t for n in rn for lab, t in cfg.succ[n] if lab not in lx], blocked=resync, labels_excluded=lx)
            for u in ast.walk(fn):
                if isinstance(u, ast.Name) and u.id == tg.id and isinstance(u.ctx, ast.Load):
                    st = enclosing_stmt(u)
                    if any(n in after_r for n in cfg.nodes_of(st)) or any(n in after_r for n in cfg.node_of_containing(u)):
                        out.append((d, r, u))
                        break
    return out


# ---------------------------------------------------------------------------- per-iteration must-pass


def iteration_can_skip(cfg: CFG, loop: ast.AST, must: Iterable[ast.AST], labels_excluded: Iterable[str] = ("exc", "cancel")) -> bool:
    """Can an iteration of ``loop`` (a For / AsyncFor statement of cfg.fn) reach the next one, or leave the loop normally,
    without executing any of the ``must`` expressions/statements?  (`continue`, a filter, a conditional around the target.)"""
    heads = [n for n in cfg.nodes if n.kind == "iter" and n.ast is loop]
    if not heads:
        raise AnchorError("iteration_can_skip: loop not found in the CFG")
    h = heads[0]
    targets = [x for m_ in must for x in (cfg.nodes_of(m_) or cfg.node_of_containing(m_))]
    if not targets:
        return True
    starts = [t for lab, t in cfg.succ[h] if lab == "loop"]
    r = cfg.reach(starts, blocked=targets, labels_excluded=tuple(labels_excluded))
    after = [t for lab, t in cfg.succ[h] if lab == "done"]
    return h in r or any(a in r for a in after) and any(isinstance(x, ast.Break) for x in ast.walk(loop)) and False


from .index import AnchorError  # noqa: E402  (late import: astx is imported by index users)
