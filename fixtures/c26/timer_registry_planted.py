"""Planted positive example for C26.R7 (never imported, only parsed): a timer task that stays in the cancellable
registry while it owns the `releasing` state, and whose cleanup also runs after it was cancelled.  The check must
report both shapes here on every run (the repository has zero of the second shape), otherwise exit 2."""


class PlantedDecorator:
    def __init__(self, lifecycle, idle_timeout):
        self._timers = {}
        self._lifecycle = lifecycle
        self._idle_timeout = idle_timeout

    def _spawn(self, coro):
        task = asyncio.create_task(coro)
        return task

    def _cancel_timer(self, run_id):
        task = self._timers.pop(run_id, None)
        if task is not None and not task.done():
            task.cancel()

    def _schedule_timer(self, run_id):
        self._cancel_timer(run_id)
        self._timers[run_id] = self._spawn(self._timer(run_id))

    async def _timer(self, run_id):
        try:
            await asyncio.sleep(self._idle_timeout)
            if await self._lifecycle.begin_release(run_id):
                await self._send_release_tick(run_id)
        finally:
            self._timers.pop(run_id, None)

    async def _send_release_tick(self, run_id):
        ...
