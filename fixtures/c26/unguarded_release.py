"""Planted positive examples for C26 (never imported, only parsed): an idle-release branch with no idle
guard and a lifecycle transition without its expected-state conjunct.  The check must recognise both on
every run, otherwise its matchers have gone blind (exit 2)."""


def reduce_planted(tick, init):
    if isinstance(tick, TickIdleRelease):
        return init, [CommandCompleteRun(result=IdleReleasedEvent())]
    return init, []


async def begin_release_planted(self, run_id):
    row = await self._pool.fetchrow(
        f"UPDATE {self._table_ref} SET state = $1, updated_at = $2 WHERE run_id = $3 RETURNING run_id",
        RunLifecycleState.releasing.value,
        now(),
        run_id,
    )
    return row is not None
