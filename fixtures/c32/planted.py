"""Planted positive example for C32 (analysed on every run, never imported or executed).

`find_deployment_id` below has two deliberate defects the rules must report:
  * R1: the 63-character cut is not followed by stripping a trailing hyphen, and the random suffix is
        appended after a 60-character cut (60 + 1 + 5 = 66 > 63);
  * R1 (draw): the suffix characters are drawn from `string.hexdigits`, which also holds A-F: upper-case characters reach the id;
  * R2: the suffix decision looks at the length of the sanitized id, so "a-b" gets no suffix.
"""
import random
import re
import string


async def validate_deployment_id(deployment_id: str) -> bool:
    return True


def _append_random_suffix(deployment_id: str, max_length: int) -> str:
    hex_suffix = "".join(random.choices(string.hexdigits, k=5))
    if not deployment_id:
        return "x" + hex_suffix
    return f"{deployment_id[:60]}-{hex_suffix}"


async def find_deployment_id(name: str, force_suffix: bool = False) -> str:
    deployment_id = re.sub(r"[^a-z0-9]", "-", name.lower())
    deployment_id = re.sub(r"-+", "-", deployment_id).strip("-")
    if deployment_id and not deployment_id[0].isalpha():
        deployment_id = "d-" + deployment_id
    deployment_id = deployment_id[:63]
    base = deployment_id
    if len(deployment_id) < 3 or force_suffix:
        deployment_id = _append_random_suffix(base, 63)
    while not await validate_deployment_id(deployment_id):
        deployment_id = _append_random_suffix(base, 63)
    return deployment_id
