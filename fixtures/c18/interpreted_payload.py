"""Planted readers for C18.R10 (never imported; parsed with ast on every run).  The writer of all of them is

    {"__is_pydantic": True, "value": value.model_dump(mode="json"), "qualified_name": get_qualified_name(value)}

i.e. the payload is stored opaquely.  Classes named Bad* hand the payload to the inverse constructor after it went through
the tagging decoder (each in another shape) and must be reported; classes named Ok* use the decoder only where it cannot
flow into the constructor argument and must stay silent."""
from __future__ import annotations


class BadSeedForm:
    def deserialize_value(self, data):
        if isinstance(data, dict):
            if data.get("__is_pydantic") and data.get("qualified_name"):
                module_class = import_module_from_qualified_name(data["qualified_name"])
                return module_class.model_validate(self.deserialize_value(data["value"]))
            return {k: self.deserialize_value(v) for k, v in data.items()}
        elif isinstance(data, list):
            return [self.deserialize_value(item) for item in data]
        return data


class BadViaLocal:
    def deserialize_value(self, data):
        if isinstance(data, dict):
            if data.get("__is_component") and data.get("qualified_name"):
                module_class = import_module_from_qualified_name(data["qualified_name"])
                payload = data["value"]
                rehydrated = self.deserialize_value(payload)
                return module_class.from_dict(rehydrated)
            return {k: self.deserialize_value(v) for k, v in data.items()}
        return data


class BadChildrenFirst:
    def deserialize_value(self, data):
        if isinstance(data, list):
            return list(map(self.deserialize_value, data))
        if not isinstance(data, dict):
            return data
        data = {k: self.deserialize_value(v) for k, v in data.items()}
        if data.get("__is_pydantic") and data.get("qualified_name"):
            return import_module_from_qualified_name(data["qualified_name"]).model_validate(data["value"])
        return data


class BadInPlace:
    def deserialize_value(self, data):
        if isinstance(data, dict):
            for key in data:
                data[key] = self.deserialize_value(data[key])
            if data.get("__is_pydantic") and data.get("qualified_name"):
                cls = import_module_from_qualified_name(data["qualified_name"])
                return cls.model_validate(obj=data["value"])
        return data


class BadThroughWrapper:
    def deserialize(self, text):
        return self.deserialize_value(json.loads(text))

    def deserialize_value(self, data):
        if isinstance(data, dict) and data.get("__is_pydantic") and data.get("qualified_name"):
            cls = import_module_from_qualified_name(data["qualified_name"])
            return cls.model_validate(self.deserialize(json.dumps(data["value"])))
        return data


class OkRebindElsewhere:
    def deserialize_value(self, data):
        if isinstance(data, list):
            data = [self.deserialize_value(item) for item in data]
            return data
        if isinstance(data, dict):
            if data.get("__is_pydantic") and data.get("qualified_name"):
                module_class = import_module_from_qualified_name(data["qualified_name"])
                payload = dict(data["value"])
                return module_class.model_validate(payload)
            data = {k: self.deserialize_value(v) for k, v in data.items()}
        return data


class OkResultOnly:
    def deserialize_value(self, data):
        out = data
        if isinstance(data, dict):
            if data.get("__is_component") and data.get("qualified_name"):
                out = import_module_from_qualified_name(data["qualified_name"]).from_dict(data["value"])
            else:
                out = {k: self.deserialize_value(v) for k, v in data.items()}
        elif isinstance(data, list):
            out = [self.deserialize_value(item) for item in data]
        return out
