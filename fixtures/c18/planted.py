"""Planted positives for C18.R3 (never imported; parsed with ast on every run): persisted model fields that carry an
event, an exception or a class object without a Serializable alias."""
from __future__ import annotations

from pydantic import BaseModel


class TickPlanted(BaseModel):
    type: str = "planted"
    event: Event
    error: Exception | None = None
    waiting_for: type[Event]
