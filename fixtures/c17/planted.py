"""Planted positives for C17.R2 / C17.R5 (never imported; parsed with ast on every run).

reader_advances_on_id_line: the cursor moves when the id line is seen; a drop before the data line
resumes after an event that was never handed over.
iterate_yields_first: the event is yielded before the published sequence is updated.
reader_resumes_from_consumer_cursor: the reconnect header carries the consumer's cursor (queued events are requested again).
reader_resumes_from_stale_cursor: the reconnect header is the reader's cursor computed once, before the retry loop.
"""


async def reader_advances_on_id_line(response, queue, last_sequence):
    current_id = None
    async for line in response.aiter_lines():
        stripped = line.strip()
        if stripped.startswith("id:"):
            current_id = stripped[3:].strip()
            last_sequence = int(current_id)
        elif stripped.startswith("data:"):
            await queue.put((last_sequence, stripped[5:].strip()))
    return last_sequence


class Stream:
    async def iterate_yields_first(self):
        while True:
            item = await self._queue.get()
            yield item.event
            self._last_sequence = item.sequence


async def reader_resumes_from_consumer_cursor(client, stream, queue, after_sequence):
    """C17.R5 planted: on a reconnect the header the server prefers carries the consumer's cursor."""
    last_sequence = after_sequence
    attempts = 0
    while True:
        headers = {"Connection": "keep-alive"}
        if attempts > 0:
            headers["Last-Event-ID"] = str(stream.last_sequence)
        try:
            async with client.stream("GET", "/events/x", params={"after_sequence": str(last_sequence)}, headers=headers) as response:
                async for line in response.aiter_lines():
                    last_sequence = int(line)
                    await queue.put((last_sequence, line))
            return
        except ConnectionError:
            attempts += 1


async def reader_resumes_from_stale_cursor(client, queue, after_sequence):
    """C17.R5 planted: the header is computed from the reader's cursor, but once, before the retry loop."""
    last_sequence = after_sequence
    headers = {"Last-Event-ID": str(last_sequence)}
    while True:
        try:
            async with client.stream("GET", "/events/x", params={"after_sequence": str(last_sequence)}, headers=headers) as response:
                async for line in response.aiter_lines():
                    last_sequence = int(line)
                    await queue.put((last_sequence, line))
            return
        except ConnectionError:
            pass
