"""Planted positives for C17.R2 (never imported; parsed with ast on every run).

reader_advances_on_id_line: the cursor moves when the id line is seen; a drop before the data line
resumes after an event that was never handed over.
iterate_yields_first: the event is yielded before the published sequence is updated.
"""


async def reader_advances_on_id_line(response, queue, last_sequence):
    current_id = None
    async for line in response.aiter_lines():
        stripped = line.strip()
        if stripped.startswith("id:"):
            current_id = stripped[3:].strip()
            last_sequence = int(current_id)
        elif stripped.startswith("data:"):
            await queue.put((last_sequence, stripped[5:].strip()))
    return last_sequence


class Stream:
    async def iterate_yields_first(self):
        while True:
            item = await self._queue.get()
            yield item.event
            self._last_sequence = item.sequence
