-- migration: 2
ALTER TABLE handlers ADD COLUMN run_id TEXT;
