-- migration: 2
ALTER TABLE handlers ADD COLUMN idle_since TEXT;
