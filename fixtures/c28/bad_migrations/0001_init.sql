-- migration: 1
CREATE TABLE IF NOT EXISTS handlers (
    handler_id TEXT PRIMARY KEY,
    status TEXT
);
