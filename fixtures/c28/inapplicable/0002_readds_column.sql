-- migration: 2
ALTER TABLE handlers ADD COLUMN run_id TEXT;
CREATE INDEX idx_h ON handlers (run_id);
