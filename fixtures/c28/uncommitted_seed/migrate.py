"""Planted positive example for C28.R5 (parsed with ast by sa/props/c28.py, never imported or run).

A migration runner with the same interface as llama_agents/server/_store/sqlite/migrate.py that is correct except for one thing:
the rows that the legacy bootstrap writes to schema_migrations are not committed by the runner.  On a default sqlite3 connection the
INSERT opens a transaction implicitly; it is only ever committed as a side effect of the `executescript` of a *pending* script.  A legacy
database that is already at the newest version has nothing pending, so `run_migrations` returns with the seed rows in an open
transaction and a caller that closes the connection loses them.
"""
from __future__ import annotations

import sqlite3

from llama_agents.server._store import SQLITE_MIGRATION_SOURCE
from llama_agents.server._store.migration_utils import (
    iter_migration_files,
    parse_target_version,
)

_MIGRATIONS_PKG = SQLITE_MIGRATION_SOURCE[1]

_SCHEMA_MIGRATIONS_DDL = """\
CREATE TABLE IF NOT EXISTS schema_migrations (
    package TEXT NOT NULL,
    version INTEGER NOT NULL,
    applied_at TEXT NOT NULL DEFAULT (datetime('now')),
    PRIMARY KEY (package, version)
)
"""


def _bootstrap_schema_migrations(conn: sqlite3.Connection) -> None:
    known = conn.execute(
        "SELECT 1 FROM sqlite_master WHERE type='table' AND name='schema_migrations'"
    ).fetchone()
    if known:
        return
    found = conn.execute("PRAGMA user_version").fetchone()
    legacy = int(found[0]) if found else 0
    conn.executescript(_SCHEMA_MIGRATIONS_DDL)
    # planted defect: no commit after the seeding
    conn.executemany(
        "INSERT OR IGNORE INTO schema_migrations (package, version) VALUES (?, ?)",
        [("server", n) for n in range(1, legacy + 1)],
    )


def run_migrations(
    conn: sqlite3.Connection,
    sources: list[tuple[str, str]] | None = None,
) -> None:
    if sources is None:
        sources = [("server", _MIGRATIONS_PKG)]
    _bootstrap_schema_migrations(conn)
    for package_name, source_pkg in sources:
        done = {
            int(r[0])
            for r in conn.execute(
                "SELECT version FROM schema_migrations WHERE package = ?",
                (package_name,),
            ).fetchall()
        }
        for path in iter_migration_files(source_pkg):
            text = path.read_text()
            version = parse_target_version(text) or 0
            if version == 0 or version in done:
                continue
            try:
                conn.executescript("BEGIN;\n" + text)
                conn.execute(
                    "INSERT INTO schema_migrations (package, version) VALUES (?, ?)",
                    (package_name, version),
                )
            except Exception:
                conn.rollback()
                raise
            conn.commit()
            done.add(version)
