-- migration: 3

-- Add idle_since column for tracking when a workflow became idle
ALTER TABLE handlers ADD COLUMN idle_since TEXT;
