-- migration: 2

-- Add new columns for extended handler persistence
ALTER TABLE handlers ADD COLUMN run_id TEXT;
ALTER TABLE handlers ADD COLUMN error TEXT;
ALTER TABLE handlers ADD COLUMN result TEXT;
ALTER TABLE handlers ADD COLUMN started_at TEXT;
ALTER TABLE handlers ADD COLUMN updated_at TEXT;
ALTER TABLE handlers ADD COLUMN completed_at TEXT;

-- planted for C28.R4: this statement used to be in the released 0004
CREATE INDEX IF NOT EXISTS idx_handlers_run_id ON handlers (run_id);
