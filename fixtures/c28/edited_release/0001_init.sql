-- migration: 1

-- Initial table creation matching the original minimal schema
CREATE TABLE IF NOT EXISTS handlers (
    handler_id TEXT PRIMARY KEY,
    workflow_name TEXT,
    status TEXT,
    ctx TEXT
);
