-- migration: 4

CREATE TABLE IF NOT EXISTS ticks (
    id INTEGER PRIMARY KEY AUTOINCREMENT,
    run_id TEXT NOT NULL,
    sequence INTEGER NOT NULL,
    timestamp TEXT NOT NULL,
    tick_data TEXT NOT NULL
);

CREATE INDEX IF NOT EXISTS idx_ticks_run_id ON ticks (run_id);
CREATE INDEX IF NOT EXISTS idx_ticks_run_id_sequence ON ticks (run_id, sequence);

CREATE TABLE IF NOT EXISTS workflow_state (
    run_id TEXT PRIMARY KEY,
    state_json TEXT NOT NULL DEFAULT '{}',
    state_type TEXT NOT NULL DEFAULT 'DictState',
    state_module TEXT NOT NULL DEFAULT 'workflows.context.state_store',
    created_at TEXT NOT NULL,
    updated_at TEXT NOT NULL
);

CREATE TABLE IF NOT EXISTS events (
    id INTEGER PRIMARY KEY AUTOINCREMENT,
    run_id TEXT NOT NULL,
    sequence INTEGER NOT NULL,
    timestamp TEXT NOT NULL,
    event_json TEXT NOT NULL
);

CREATE INDEX IF NOT EXISTS idx_events_run_id_sequence ON events (run_id, sequence);
