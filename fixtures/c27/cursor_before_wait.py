"""Planted examples for C27.R7 (never imported, only parsed): shapes of an adapter's wait_for_next_task in which the
replay cursor moves although the expected task is not delivered, plus the correct shapes that must NOT be reported.
The check analyses this file on every run with the same predicate it applies to /repo (`cursor_escapes`); if a faulty
shape is no longer found or a correct one is reported, the rule has gone blind / trigger-happy (floor / exit 2)."""
import asyncio


class Result:
    def __init__(self, completed, started):
        self.completed = completed
        self.started = started


class Planted:
    async def planted_advance_before_wait(self, tasks, started, timeout):
        # the entry is consumed as soon as it is matched; a timeout of the wait then returns nothing
        journal = self._get_or_create_journal()
        await journal.load()
        key = journal.next_expected_key()
        target = tasks[key]
        journal.advance()
        try:
            await asyncio.wait_for(asyncio.shield(target), timeout=timeout)
        except (asyncio.TimeoutError, TimeoutError):
            return Result(None, started)
        return Result(target, started)

    async def planted_timeout_falls_through_to_record(self, tasks, started, timeout):
        # the handler swallows the timeout and the code goes on to the fresh branch: advance and record for one completion
        journal = self._get_or_create_journal()
        await journal.load()
        key = journal.next_expected_key()
        if key is not None:
            target = tasks[key]
            journal.advance()
            try:
                await asyncio.wait_for(asyncio.shield(target), timeout=timeout)
                return Result(target, started)
            except (asyncio.TimeoutError, TimeoutError):
                pass
        done, _ = await asyncio.wait(list(tasks.values()), timeout=timeout)
        if not done:
            return Result(None, started)
        completed = done.pop()
        await journal.record(self.key_of(completed))
        return Result(completed, started)

    async def planted_cancellation_caught_after_advance(self, tasks, started, timeout):
        # advance after the timed wait, but a further await follows inside a try whose handler returns nothing
        journal = self._get_or_create_journal()
        await journal.load()
        target = tasks[journal.next_expected_key()]
        try:
            await asyncio.wait_for(asyncio.shield(target), timeout=timeout)
            journal.advance()
            await asyncio.sleep(0)
        except BaseException:
            return Result(None, started)
        return Result(target, started)

    async def correct_advance_after_try(self, tasks, started, timeout):
        journal = self._get_or_create_journal()
        await journal.load()
        target = tasks[journal.next_expected_key()]
        try:
            await asyncio.wait_for(asyncio.shield(target), timeout=timeout)
        except (asyncio.TimeoutError, TimeoutError):
            return Result(None, started)
        journal.advance()
        return Result(target, started)

    async def correct_advance_in_else(self, tasks, started, timeout):
        journal = self._get_or_create_journal()
        await journal.load()
        target = tasks[journal.next_expected_key()]
        try:
            await asyncio.wait_for(asyncio.shield(target), timeout=timeout)
        except (asyncio.TimeoutError, TimeoutError):
            return Result(None, started)
        else:
            journal.advance()
            return Result(target, started)

    async def correct_advance_last_in_try(self, tasks, started, timeout):
        # the cursor step is the last statement of the try body: only its own failure could reach the handler
        journal = self._get_or_create_journal()
        await journal.load()
        target = tasks[journal.next_expected_key()]
        try:
            await asyncio.wait_for(asyncio.shield(target), timeout=timeout)
            journal.advance()
        except (asyncio.TimeoutError, TimeoutError):
            return Result(None, started)
        return Result(target, started)

    async def correct_failure_after_advance_propagates(self, tasks, started, timeout):
        # a failure after the step leaves the function by raising (execution aborted): not an offender
        journal = self._get_or_create_journal()
        await journal.load()
        target = tasks[journal.next_expected_key()]
        try:
            await asyncio.wait_for(asyncio.shield(target), timeout=timeout)
        except (asyncio.TimeoutError, TimeoutError):
            return Result(None, started)
        journal.advance()
        await asyncio.sleep(0)
        return Result(target, started)
