"""Planted positive examples for C27.R1 (never imported, only parsed): a reducer-like function that reads the wall
clock, the global RNG, a uuid and datetime.now() directly, plus one *seeded* RNG that must NOT be reported.  The check
must recognise the four sources on every run, otherwise its matcher has gone blind (exit 2)."""
import random
import time
import uuid
from datetime import datetime


def reduce_planted(tick, state, seed):
    stamp = time.time()
    jitter = random.random()
    ident = uuid.uuid4()
    when = datetime.now()
    rng = random.Random(seed)
    return state, [stamp, jitter, ident, when, rng.random()]
