"""Planted positive example for C34.R1 (parsed on every run, never imported or executed): a strip-family call whose argument
is a computed string, used as if it removed that suffix.

The regex describes only the `-<label>.<num>` suffix and is applied with `.search`; the base is then taken with
`version.rstrip(match.group())`.  str.rstrip deletes a *set of characters*: after `-rc.1` is gone it goes on eating `.` and
release digits that also occur in the suffix (`1.2.1-rc.1` -> `1.2rc1`, `0.0.0-a.0` -> `a0`).  pep440_to_semver and
detect_change_type are correct here: only R1 may report this file.
"""
import re

from packaging.version import Version

_PEP440_LABELS = {"a", "b", "rc"}
_SEMVER_PRERELEASE_RE = re.compile(r"-([a-zA-Z]+)\.(\d+)$")


def semver_to_pep440(version: str) -> str:
    match = _SEMVER_PRERELEASE_RE.search(version)
    if not match:
        return version
    label, num = match.groups()
    if label not in _PEP440_LABELS:
        raise ValueError("label")
    base = version.rstrip(match.group())
    return f"{base}{label}{num}"


def pep440_to_semver(version: str) -> str:
    v = Version(version)
    base = ".".join(str(x) for x in v.release)
    if v.pre is None:
        return base
    label, num = v.pre
    return f"{base}-{label}.{num}"


def detect_change_type(current_version, previous_version):
    if not previous_version:
        return "major"
    current = Version(current_version)
    previous = Version(previous_version)
    if current <= previous:
        return "none"
    current_release = (current.release + (0, 0, 0))[:3]
    previous_release = (previous.release + (0, 0, 0))[:3]
    if current_release[0] > previous_release[0]:
        return "major"
    if current_release[1] > previous_release[1]:
        return "minor"
    if current_release[2] > previous_release[2]:
        return "patch"
    return "minor"
