"""Negative control for C34.R1 (parsed on every run, never imported or executed): strip-family calls with a computed argument
whose character set cannot meet the end of the receiver.

The regex is applied with `.search` but is anchored at both ends and captures the base; `base.rstrip(label)` deletes letters
from the end of a dotted digit string and `num.lstrip(label)` letters from the front of a digit string: both are no-ops for
every version, so all round trips hold.  Nothing may be reported for this file: the verdict comes from the character-set
semantics of the strip family, not from the presence of such a call.
"""
import re

from packaging.version import Version

_PEP440_LABELS = {"a", "b", "rc"}
_SEMVER_PRERELEASE_RE = re.compile(r"^(\d+(?:\.\d+)*)-([a-zA-Z]+)\.(\d+)$")


def semver_to_pep440(version: str) -> str:
    match = _SEMVER_PRERELEASE_RE.search(version)
    if not match:
        return version
    base, label, num = match.groups()
    if label not in _PEP440_LABELS:
        raise ValueError("label")
    base = base.rstrip(label)
    num = num.lstrip(label)
    return f"{base}{label}{num}"


def pep440_to_semver(version: str) -> str:
    v = Version(version)
    base = ".".join(str(x) for x in v.release)
    if v.pre is None:
        return base
    label, num = v.pre
    return f"{base}-{label}.{num}"


def detect_change_type(current_version, previous_version):
    if not previous_version:
        return "major"
    current = Version(current_version)
    previous = Version(previous_version)
    if current <= previous:
        return "none"
    current_release = (current.release + (0, 0, 0))[:3]
    previous_release = (previous.release + (0, 0, 0))[:3]
    if current_release[0] > previous_release[0]:
        return "major"
    if current_release[1] > previous_release[1]:
        return "minor"
    if current_release[2] > previous_release[2]:
        return "patch"
    return "minor"
