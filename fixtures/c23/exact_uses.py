# Planted positives for C23.R1 (analysed on every run; never imported or executed).
# Every function below classifies a boundary event class by exact identity instead of issubclass.
from workflows.events import HumanResponseEvent, InputRequiredEvent, StartEvent, StopEvent


def by_identity(ev_type):
    return ev_type is StopEvent


def by_membership(produced):
    return InputRequiredEvent in produced


def by_set_algebra(consumed):
    return bool({HumanResponseEvent} & consumed)


def by_lookup(table):
    return table.get(StartEvent)


def by_name(ev_type):
    return ev_type.__name__ == "StopEvent"


def conventional(ev_type):
    return issubclass(ev_type, (StopEvent, InputRequiredEvent))
