"""Planted positive examples for C33 (parsed on every run, never imported or executed).

A defective miniature of backup/archive.py + encryption.py in one file:
  R1  the reader tests `.yaml` before `.secret.yaml` (a clear secret is read as a CR named `x.secret`)
  R2  decrypt takes the nonce from [SALT_LENGTH : SALT_LENGTH + SALT_LENGTH]
  R3  manifest flag `is not None`, writer branch by truthiness
  R4  the reader asks the manifest for a key the writer never writes; the meta reader asks for `gen`
  R6  the CR is dumped with allow_unicode=True (U+0085 written raw, folded into a space by safe_load)
  R5  the reader strips the password before decrypting, the writer encrypts with it verbatim
  R7  the generation file is written under `generations.get(name)` (truthiness): generation 0 is backed up as absent
"""
import io
import json
import os
import tarfile
from dataclasses import dataclass

import yaml

SALT_LENGTH = 16
NONCE_LENGTH = 12


def _derive_key(password, salt):
    return kdf(salt).derive(password.encode("utf-8"))


def encrypt(plaintext, password):
    salt = os.urandom(SALT_LENGTH)
    nonce = os.urandom(NONCE_LENGTH)
    key = _derive_key(password, salt)
    ciphertext = AESGCM(key).encrypt(nonce, plaintext, None)
    return salt + nonce + ciphertext


def decrypt(data, password):
    salt = data[:SALT_LENGTH]
    nonce = data[SALT_LENGTH : SALT_LENGTH + SALT_LENGTH]
    ciphertext = data[SALT_LENGTH + NONCE_LENGTH :]
    key = _derive_key(password, salt)
    return AESGCM(key).decrypt(nonce, ciphertext, None)


@dataclass
class BackupEntry:
    name: str
    cr: dict
    secret: dict | None = None
    generation: int | None = None


def _add_bytes_to_tar(tar, name, data):
    info = tarfile.TarInfo(name=name)
    info.size = len(data)
    tar.addfile(info, io.BytesIO(data))


def create_backup_archive(deployments, secrets, namespace, timestamp, encryption_password=None, generations=None):
    buf = io.BytesIO()
    with tarfile.open(fileobj=buf, mode="w:gz") as tar:
        manifest = {"version": 1, "encrypted": encryption_password is not None}
        _add_bytes_to_tar(tar, "manifest.json", json.dumps(manifest).encode())
        for cr in deployments:
            name = cr["metadata"]["name"]
            _add_bytes_to_tar(tar, f"{name}.yaml", yaml.dump(cr, allow_unicode=True).encode())
            secret_data = secrets.get(name)
            if secret_data is not None:
                secret_yaml = yaml.dump(secret_data).encode()
                if encryption_password:
                    _add_bytes_to_tar(tar, f"{name}.secret.enc", encrypt(secret_yaml, encryption_password))
                else:
                    _add_bytes_to_tar(tar, f"{name}.secret.yaml", secret_yaml)
            if generations and generations.get(name):
                _add_bytes_to_tar(tar, f"{name}.meta.json", json.dumps({"generation": generations[name]}).encode())
    return buf.getvalue()


def read_backup_archive(data, encryption_password=None):
    cr_files = {}
    secret_files = {}
    meta_files = {}
    manifest_data = None
    with tarfile.open(fileobj=io.BytesIO(data), mode="r:gz") as tar:
        for member in tar.getmembers():
            content = tar.extractfile(member).read()
            name = member.name
            if name == "manifest.json":
                manifest_data = json.loads(content)
            elif name.endswith(".yaml"):
                deploy_name = name.removesuffix(".yaml")
                cr_files[deploy_name] = yaml.safe_load(content)
            elif name.endswith(".secret.enc"):
                deploy_name = name.removesuffix(".secret.enc")
                if not encryption_password:
                    raise ValueError("password needed")
                secret_files[deploy_name] = yaml.safe_load(decrypt(content, encryption_password.strip()))
            elif name.endswith(".secret.yaml"):
                deploy_name = name.removesuffix(".secret.yaml")
                secret_files[deploy_name] = yaml.safe_load(content)
            elif name.endswith(".meta.json"):
                deploy_name = name.removesuffix(".meta.json")
                meta_files[deploy_name] = json.loads(content)
    version = manifest_data["version"]
    stamp = manifest_data["timestamp"]
    entries = []
    for name, cr in cr_files.items():
        meta = meta_files.get(name, {})
        entries.append(BackupEntry(name=name, cr=cr, secret=secret_files.get(name), generation=meta.get("gen")))
    return entries
