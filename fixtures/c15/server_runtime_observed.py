"""Planted example for C15.R2 (never imported, only parsed).

A stand-in for llama_agents/server/_runtime/server_runtime.py in which the server *does* observe
the end of every run task: `ServerRuntimeDecorator.run_workflow` (the choke point every
`workflow.run(...)` of a served workflow passes through) attaches an observer that writes a
terminal status when the task ends with an exception and no terminal event was recorded.
The check overlays this file on the real module on every run and must find every
`workflow.run(...)` start site of the server package *observed*; it then applies the textual
variants listed in c15.py (FIXTURE_VARIANTS) and must judge each of them as stated there.
"""

import asyncio
import logging

from workflows.runtime.runtime_decorators import BaseRuntimeDecorator

from .._store.abstract_workflow_store import HandlerQuery, is_terminal_status

logger = logging.getLogger(__name__)


class ServerRuntimeDecorator(BaseRuntimeDecorator):
    def __init__(self, decorated, store, *, persistence_backoff=None):
        super().__init__(decorated)
        self._store = store
        self._observers = set()

    def _spawn_task(self, coro):
        task = asyncio.create_task(coro)
        self._observers.add(task)
        task.add_done_callback(self._observers.discard)
        return task

    async def _handle_status_update(self, run_id, status, result=None, error=None):
        await self._store.update_handler_status(run_id, status=status, result=result, error=error)

    def run_workflow(self, run_id, workflow, init_state, start_event=None, serialized_state=None, serializer=None):
        adapter = super().run_workflow(
            run_id, workflow, init_state, start_event=start_event, serialized_state=serialized_state, serializer=serializer
        )
        self._spawn_task(self._observe_completion(run_id, adapter))
        return adapter

    async def _observe_completion(self, run_id, adapter):
        try:
            await adapter.get_result()
        except asyncio.CancelledError:
            raise
        except Exception as e:
            found = await self._store.query(HandlerQuery(run_id_in=[run_id]))
            if found and not is_terminal_status(found[0].status):
                await self._handle_status_update(run_id, "failed", error=str(e))

    async def _mark_failed(self, run_id, e):
        await self._handle_status_update(run_id, "failed", error=str(e))
