"""Planted positives / negatives for C19.R5 (never imported; parsed with ast on every run).

Each function stands for `create_cleared_state(state_type)`: the value it returns is installed by `clear()` as the live state
of an in-memory store and then mutated in place by `set` / `edit_state`.
planted_*: the returned default instance outlives the call (each must be reported); clean_*: a new instance per call.
"""

import copy
import functools
from functools import lru_cache

_DEFAULTS = {}
_SINGLETON = None


@functools.lru_cache(maxsize=None)
def planted_lru_cache(state_type):
    try:
        return state_type()
    except TypeError:
        raise ValueError("State must have defaults for all fields")


@functools.cache
def planted_functools_cache(state_type):
    return state_type()


def planted_module_level_memo(state_type):
    if state_type not in _DEFAULTS:
        _DEFAULTS[state_type] = state_type()
    return _DEFAULTS[state_type]


def planted_memo_through_setdefault(state_type):
    try:
        return _DEFAULTS[state_type]
    except KeyError:
        return _DEFAULTS.setdefault(state_type, state_type())


def planted_default_argument_memo(state_type, _memo={}):
    cached = _memo.get(state_type)
    if cached is None:
        cached = _memo[state_type] = state_type()
    return cached


def planted_class_attribute_singleton(state_type):
    inst = getattr(state_type, "_cleared_instance", None)
    if inst is None:
        inst = state_type()
        state_type._cleared_instance = inst
    return inst


def planted_global_singleton(state_type):
    global _SINGLETON
    if _SINGLETON is None:
        _SINGLETON = state_type()
    return _SINGLETON


@lru_cache(maxsize=32)
def _prototype(state_type):
    return state_type()


def planted_memoised_inner_helper(state_type):
    return _prototype(state_type)


def planted_shallow_copy_of_prototype(state_type):
    return _prototype(state_type).model_copy()


_build_once = functools.lru_cache(maxsize=None)(lambda state_type: state_type())


def planted_memoised_callable_bound_at_module_level(state_type):
    return _build_once(state_type)


def clean_constructor(state_type):
    try:
        return state_type()
    except TypeError:
        raise ValueError("State must have defaults for all fields")


def clean_through_locals(state_type):
    factory = state_type
    fresh = factory()
    return fresh


def clean_deep_copy_of_prototype(state_type):
    return _prototype(state_type).model_copy(deep=True)


def clean_deepcopy_function(state_type):
    return copy.deepcopy(_prototype(state_type))


@lru_cache(maxsize=None)
def _has_defaults(state_type):
    return all(not f.is_required() for f in state_type.model_fields.values())


def clean_memoised_check_only(state_type):
    if not _has_defaults(state_type):
        raise ValueError("State must have defaults for all fields")
    return state_type()
