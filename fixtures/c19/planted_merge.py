"""Planted positives / negatives for C19.R4 (never imported; parsed with ast on every run).

planted_*: a parent-type merge that loses fields (each must be reported); clean_*: harmless shapes (must be accepted).
"""


def planted_incoming_exclude_unset(current_state, incoming):
    current_type = type(current_state)
    parent_data = incoming.model_dump(exclude_unset=True)
    return current_type.model_validate({**current_state.model_dump(), **parent_data})


def planted_incoming_exclude_none_in_place(current_state, incoming):
    data = current_state.model_dump()
    data.update(incoming.model_dump(exclude_none=True))
    return type(current_state).model_validate(data)


def planted_current_include(current_state, incoming):
    kept = current_state.model_dump(include={"name"})
    return type(current_state)(**{**kept, **incoming.model_dump()})


def planted_only_set_fields(current_state, incoming):
    parent_data = {k: v for k, v in incoming.model_dump().items() if k in incoming.model_fields_set}
    return type(current_state).model_validate({**current_state.model_dump(), **parent_data})


def planted_current_wins(current_state, incoming):
    return type(current_state).model_validate({**incoming.model_dump(), **current_state.model_dump()})


def clean_explicit_false(current_state, incoming):
    parent_data = incoming.model_dump(exclude_unset=False, exclude=None, mode="python")
    merged = current_state.model_dump() | parent_data
    return type(current_state).model_validate(merged)


def clean_copy_update(current_state, incoming):
    if isinstance(incoming, type(current_state)):
        return incoming
    return current_state.model_copy(update=incoming.model_dump())
