"""Planted positive examples for C37 (parsed on every run, never imported or executed).

One deliberately defective miniature of the three llamactl config classes; every rule must report
its planted defect:
  R1  EnvService.switch_environment changes the environment and keeps the profile pointer;
      ConfigManager.purge_environment falls back to the default environment and clears the pointer only if the stored name
      is one of the purged environment's profiles (a value-dependent DELETE is not a clear)
  R2  ConfigManager.get_profile looks the name up across all environments
  R3  EnvService.probe_environment lets a probe service select a profile
  R4  switch_environment does not check that the url is known; delete_environment never resets
  R5  ConfigManager.update_profile rewrites the stored name keyed on the old name alone; AuthService stores a literal name
"""
import sqlite3

DEFAULT_ENVIRONMENT = None


class ConfigManager:
    def set_settings_current_profile(self, name):
        with sqlite3.connect(self.db_path) as conn:
            if name is None:
                conn.execute("DELETE FROM settings WHERE key = 'current_profile'")
            else:
                conn.execute("INSERT OR REPLACE INTO settings (key, value) VALUES ('current_profile', ?)", (name,))

    def get_settings_current_profile_name(self):
        return None

    def set_settings_current_environment(self, api_url):
        with sqlite3.connect(self.db_path) as conn:
            conn.execute("INSERT OR REPLACE INTO settings (key, value) VALUES ('current_environment_api_url', ?)", (api_url,))

    def get_current_profile(self, env_url):
        current_name = self.get_settings_current_profile_name()
        if current_name:
            return self.get_profile(current_name, env_url)
        return None

    def get_profile(self, name, env_url):
        with sqlite3.connect(self.db_path) as conn:
            return conn.execute("SELECT id, name FROM profiles WHERE name = ?", (name,)).fetchone()

    def update_profile(self, profile, old_name):
        with sqlite3.connect(self.db_path) as conn:
            conn.execute("UPDATE settings SET value = ? WHERE key = 'current_profile' AND value = ?", (profile.name, old_name))
            conn.execute("UPDATE profiles SET name = ? WHERE id = ?", (profile.name, profile.id))

    def delete_environment(self, api_url):
        with sqlite3.connect(self.db_path) as conn:
            conn.execute("DELETE FROM environments WHERE api_url = ?", (api_url,))
            conn.commit()
            return True

    def purge_environment(self, api_url):
        with sqlite3.connect(self.db_path) as conn:
            conn.execute("DELETE FROM settings WHERE key = 'current_profile' AND value IN (SELECT name FROM profiles WHERE api_url = ?)", (api_url,))
            conn.execute("DELETE FROM profiles WHERE api_url = ?", (api_url,))
            conn.execute("INSERT OR REPLACE INTO settings (key, value) VALUES ('current_environment_api_url', ?)", ("default",))
            conn.commit()


class AuthService:
    def __init__(self, config_manager, env):
        self.config_manager = config_manager
        self.env = env

    def set_current_profile(self, name):
        self.config_manager.set_settings_current_profile(name)

    def select_any_profile(self):
        self.set_current_profile("first")

    def get_current_profile(self):
        return self.config_manager.get_current_profile(self.env.api_url)


class EnvService:
    def __init__(self, config_manager):
        self.config_manager = config_manager

    def get_current_environment(self):
        return self.config_manager().get_current_environment()

    def switch_environment(self, api_url):
        self.config_manager().set_settings_current_environment(api_url)
        return api_url

    def current_auth_service(self):
        return AuthService(self.config_manager(), self.get_current_environment())

    def probe_environment(self, api_url):
        svc = AuthService(self.config_manager(), api_url)
        svc.select_any_profile()
        return api_url
