"""Planted positive examples for C37.R6 (parsed on every run, never imported or executed).

A miniature of the three llamactl config classes in which values computed from the stored current environment are kept
across calls.  Expected verdicts (checked exactly by sa/props/c37.py, see FIX6_EXPECT there):

  kept, and dropped on every path of every method that can change the environment  -> accepted (negative control)
      ConfigManager._current: reset by set_settings_current_environment and, inside the fall-back branch, by delete_environment
  kept, and NOT dropped by a method that changes the environment only through a callee -> reported
      EnvService._auth_service: reset by switch_environment, forgotten by delete_environment (which delegates to
      ConfigManager.delete_environment, whose fall-back to the default environment is the change)
  kept, dropped only under a test unrelated to the change                          -> reported
      EnvService._auth_service in create_or_update_environment (`if env.requires_auth:`)
  memoised by a decorator and never cleared                                        -> reported for every changer
      EnvService.get_current_environment under functools.lru_cache
"""
import functools
import sqlite3


class ConfigManager:
    def __init__(self):
        self.db_path = "profiles.db"
        self._current = None

    def set_settings_current_profile(self, name):
        with sqlite3.connect(self.db_path) as conn:
            conn.execute("DELETE FROM settings WHERE key = 'current_profile'")

    def set_settings_current_environment(self, api_url):
        with sqlite3.connect(self.db_path) as conn:
            conn.execute("INSERT OR REPLACE INTO settings (key, value) VALUES ('current_environment_api_url', ?)", (api_url,))
        self._current = None

    def get_current_environment(self):
        if self._current is None:
            with sqlite3.connect(self.db_path) as conn:
                row = conn.execute("SELECT value FROM settings WHERE key = 'current_environment_api_url'").fetchone()
            self._current = row[0] if row else "default"
        return self._current

    def create_or_update_environment(self, api_url):
        with sqlite3.connect(self.db_path) as conn:
            conn.execute("INSERT OR REPLACE INTO environments (api_url) VALUES (?)", (api_url,))

    def delete_environment(self, api_url):
        with sqlite3.connect(self.db_path) as conn:
            conn.execute("DELETE FROM profiles WHERE api_url = ?", (api_url,))
            conn.execute("DELETE FROM environments WHERE api_url = ?", (api_url,))
            row = conn.execute("SELECT value FROM settings WHERE key = 'current_environment_api_url'").fetchone()
            if row and row[0] == api_url:
                conn.execute("INSERT OR REPLACE INTO settings (key, value) VALUES ('current_environment_api_url', ?)", ("default",))
                conn.execute("DELETE FROM settings WHERE key = 'current_profile'")
                self._current = None
            conn.commit()
            return True


class AuthService:
    def __init__(self, config_manager, env):
        self.config_manager = config_manager
        self.env = env


class EnvService:
    def __init__(self, config_manager):
        self.config_manager = config_manager
        self._auth_service = None

    @functools.lru_cache(maxsize=1)
    def get_current_environment(self):
        return self.config_manager().get_current_environment()

    def switch_environment(self, api_url):
        self.config_manager().set_settings_current_environment(api_url)
        self.config_manager().set_settings_current_profile(None)
        self._auth_service = None
        return api_url

    def create_or_update_environment(self, env):
        self.config_manager().create_or_update_environment(env.api_url)
        self.config_manager().set_settings_current_environment(env.api_url)
        self.config_manager().set_settings_current_profile(None)
        if env.requires_auth:
            self._auth_service = None

    def delete_environment(self, api_url):
        return self.config_manager().delete_environment(api_url)

    def current_auth_service(self):
        if self._auth_service is None:
            self._auth_service = AuthService(self.config_manager(), self.get_current_environment())
        return self._auth_service
