"""Planted example for C21.R5 (never imported, never executed; parsed by sa/props/c21.py on every run).

`StreamingStore` hands out `_shared_conn` in single-connection mode and a fresh connection per call otherwise.  At every
point where a coroutine / generator method gives up control (yield / yield from / await / async with / async for) the
connection must be quiescent: no SELECT still un-exhausted, no write still uncommitted.

Must be reported (statement open across a suspension): `stream_lazy` (iterates `conn.execute(...)` and yields in the loop),
`stream_cursor_loop` (same through a named cursor), `stream_fetchone` (fetchone loop), `stream_genexp` (a generator
expression over the cursor is consumed after the block), `stream_delegate` (`yield from` the cursor), `read_await`
(await between execute and fetchall), `stream_break` (leaves the row loop early and then yields), `write_await`
(await between the INSERT and its commit).
Must be accepted: `stream_pages` (fetchall, yield after the block), `stream_inside_scope` (fetchall, yield inside the
block: only an idle connection is held), `stream_list` / `stream_comprehension` (materialised by list() / a list
comprehension), `stream_drained` (the row loop runs to exhaustion without suspending, then yields), `stream_guarded`
(lazy iteration only on the branch where the connection is the call's own), `write_then_notify` (commit, then await).
"""

import sqlite3
from contextlib import contextmanager


def make(row):
    return row


class StreamingStore:
    def __init__(self, path, connection=None):
        self._path = path
        self._shared_conn = connection

    @contextmanager
    def _connect(self):
        if self._shared_conn is not None:
            yield self._shared_conn
        else:
            conn = sqlite3.connect(self._path)
            try:
                yield conn
            finally:
                conn.close()

    # ------------------------------------------------------------------ planted: must be reported
    async def stream_lazy(self, run):
        with self._connect() as conn:
            for row in conn.execute("SELECT a FROM t WHERE run = ? ORDER BY a", (run,)):
                yield make(row)  # planted: the SELECT is still running on the shared connection

    async def stream_cursor_loop(self, run):
        with self._connect() as conn:
            cur = conn.cursor()
            cur.execute("SELECT a FROM t WHERE run = ? ORDER BY a", (run,))
            for row in cur:
                item = make(row)
                yield item  # planted

    async def stream_fetchone(self, run):
        with self._connect() as conn:
            cur = conn.execute("SELECT a FROM t WHERE run = ? ORDER BY a", (run,))
            row = cur.fetchone()
            while row is not None:
                yield make(row)  # planted: fetchone leaves the statement active
                row = cur.fetchone()

    async def stream_genexp(self, run):
        with self._connect() as conn:
            cur = conn.execute("SELECT a FROM t WHERE run = ? ORDER BY a", (run,))
            items = (make(row) for row in cur)
        for item in items:
            yield item  # planted: the generator expression pulls from the live cursor

    def stream_delegate(self, run):
        with self._connect() as conn:
            yield from conn.execute("SELECT a FROM t WHERE run = ?", (run,))  # planted

    async def read_await(self, run, gate):
        with self._connect() as conn:
            cur = conn.cursor()
            cur.execute("SELECT a FROM t WHERE run = ?", (run,))
            await gate.wait()  # planted: other operations run on the shared connection while the SELECT is open
            rows = cur.fetchall()
        return rows

    async def stream_break(self, run, limit):
        with self._connect() as conn:
            cur = conn.execute("SELECT a FROM t WHERE run = ? ORDER BY a", (run,))
            taken = []
            for row in cur:
                if len(taken) >= limit:
                    break
                taken.append(row)
            yield taken  # planted: the loop may have been left before the cursor was exhausted

    async def write_await(self, value, gate):
        with self._connect() as conn:
            conn.execute("INSERT INTO t VALUES (?)", (value,))
            await gate.wait()  # planted: the write is pending while other operations run
            conn.commit()

    # ------------------------------------------------------------------ must be accepted
    async def stream_pages(self, run):
        with self._connect() as conn:
            cur = conn.cursor()
            cur.execute("SELECT a FROM t WHERE run = ? ORDER BY a", (run,))
            rows = cur.fetchall()
        for row in rows:
            yield make(row)

    async def stream_inside_scope(self, run):
        with self._connect() as conn:
            rows = conn.execute("SELECT a FROM t WHERE run = ? ORDER BY a", (run,)).fetchall()
            for row in rows:
                yield make(row)

    async def stream_list(self, run):
        with self._connect() as conn:
            rows = list(conn.execute("SELECT a FROM t WHERE run = ? ORDER BY a", (run,)))
        for row in rows:
            yield make(row)

    async def stream_comprehension(self, run):
        with self._connect() as conn:
            cur = conn.execute("SELECT a FROM t WHERE run = ? ORDER BY a", (run,))
            items = [make(row) for row in cur]
            for item in items:
                yield item

    async def stream_drained(self, run):
        items = []
        with self._connect() as conn:
            for row in conn.execute("SELECT a FROM t WHERE run = ? ORDER BY a", (run,)):
                items.append(make(row))
            yield items

    async def stream_guarded(self, run):
        with self._connect() as conn:
            cur = conn.execute("SELECT a FROM t WHERE run = ? ORDER BY a", (run,))
            if self._shared_conn is None:
                for row in cur:
                    yield make(row)
            else:
                for row in cur.fetchall():
                    yield make(row)

    async def write_then_notify(self, value, gate):
        with self._connect() as conn:
            conn.execute("INSERT INTO t VALUES (?)", (value,))
            conn.commit()
        await gate.wait()
