"""Planted example for C21.R4 (never imported, never executed; parsed by sa/props/c21.py on every run).

`TxStore` borrows `_shared_conn` from whoever created it.  Every write operation must be its own transaction in both
modes: commit on the connection it used before it returns normally.

Must be reported as leaving a write pending: `save_gated` (commit only when "we obtained the connection ourselves and
nobody shares it"), `save_mode_gated` (commit only in per-call mode), `load_forgets` (hands its connection to the
helper `_put`, which leaves the commit to its caller, and then does not commit).
Must be accepted: `save_ok`, `save_early` (early-return form), `_put` + `load` (helper leaves the commit to the caller,
the caller commits), `save_with` (sqlite3 connection used as a context manager commits on success).
Roll-back sites on a value that may be the shared connection (reported because writes can be pending here):
`failing_op` and `save_with` (`with conn:`), `undo` (`rollback()`); `undo_own` rolls back under an ownership test and is not a site.
"""

import sqlite3


class TxStore:
    def __init__(self, path, connection=None):
        self._path = path
        self._shared_conn = connection

    def _connect(self):
        if self._shared_conn is not None:
            return self._shared_conn
        return sqlite3.connect(self._path)

    def _release(self, conn):
        if conn is not self._shared_conn:
            conn.close()

    def save_gated(self, value, conn=None):
        owns = conn is None and self._shared_conn is None
        if conn is None:
            conn = self._connect()
        try:
            conn.execute("INSERT INTO t VALUES (?)", (value,))
            if owns:
                conn.commit()  # planted: in shared mode nobody commits this write
        finally:
            if owns:
                self._release(conn)

    def save_mode_gated(self, value):
        conn = self._connect()
        try:
            conn.execute("UPDATE t SET v = ?", (value,))
            if self._shared_conn is None:
                conn.commit()  # planted: commit only in per-call mode
        finally:
            self._release(conn)

    def save_ok(self, value):
        conn = self._connect()
        try:
            conn.execute("INSERT INTO t VALUES (?)", (value,))
            conn.commit()
        finally:
            self._release(conn)

    def save_early(self, value):
        conn = self._connect()
        try:
            cur = conn.cursor()
            cur.execute("DELETE FROM t WHERE v = ?", (value,))
            if cur.rowcount == 0:
                conn.commit()
                return 0
            conn.commit()
            return cur.rowcount
        finally:
            self._release(conn)

    def _put(self, value, conn=None):
        mine = conn is None
        if conn is None:
            conn = self._connect()
        try:
            conn.execute("INSERT INTO t VALUES (?)", (value,))
            if mine:
                conn.commit()
        finally:
            if mine:
                self._release(conn)

    def load(self):
        conn = self._connect()
        try:
            row = conn.execute("SELECT v FROM t").fetchone()
            if row is None:
                self._put(0, conn)
                conn.commit()
                return 0
            return row[0]
        finally:
            self._release(conn)

    def load_forgets(self):
        conn = self._connect()
        try:
            row = conn.execute("SELECT v FROM t").fetchone()
            if row is None:
                self._put(0, conn)  # planted: the helper leaves the commit to us, and we do not commit
                return 0
            return row[0]
        finally:
            self._release(conn)

    def save_with(self, value):
        conn = self._connect()
        with conn:
            conn.execute("INSERT INTO t VALUES (?)", (value,))

    def failing_op(self, value):
        conn = self._connect()
        with conn:  # planted: ROLLBACK of the shared connection when the body raises
            conn.execute("SELECT ?", (value,))
            raise ValueError(value)

    def undo(self):
        self._connect().rollback()  # planted

    def undo_own(self):
        conn = self._connect()
        if conn is not self._shared_conn:
            conn.rollback()
            conn.close()
