"""Planted example for C21.R3 (never imported, never executed; parsed by sa/props/c21.py on every run).

`CountingStore` runs on a connection that may be shared (`_shared_conn`) or opened per call.  The methods in the first
group derive a per-call result from state that belongs to the *lifetime of the connection* (must be reported); the
methods in the second group take it from the cursor of the statement just executed, from a difference of two reads, from
an ownership-guarded read, or use the state only for transaction housekeeping (must be accepted).
"""

import sqlite3


class CountingStore:
    def __init__(self, path, connection=None):
        self._path = path
        self._shared_conn = connection

    def _connect(self):
        if self._shared_conn is not None:
            return self._shared_conn
        return sqlite3.connect(self._path)

    # ------------------------------------------------------------------ planted: must be reported
    def purge(self, key):
        conn = self._connect()
        conn.execute("DELETE FROM t WHERE k = ?", (key,))
        conn.commit()
        return conn.total_changes  # planted: every write ever made through the shared connection

    def purge_via_cursor(self, key):
        conn = self._connect()
        cur = conn.cursor()
        cur.execute("DELETE FROM t WHERE k = ?", (key,))
        conn.commit()
        return cur.connection.total_changes  # planted: the cursor's connection is the same shared object

    def purge_sql(self, key):
        conn = self._connect()
        conn.execute("DELETE FROM t WHERE k = ?", (key,))
        return conn.execute("SELECT total_changes()").fetchone()[0]  # planted: same counter through SQL

    def count_of_last_write(self):
        conn = self._connect()
        return conn.execute("SELECT changes()").fetchone()[0]  # planted: no statement of this call precedes it

    def upsert(self, key, value):
        conn = self._connect()
        conn.execute("INSERT INTO t (k, v) VALUES (?, ?) ON CONFLICT(k) DO UPDATE SET v = excluded.v", (key, value))
        conn.commit()
        # planted: an upsert that updates leaves last_insert_rowid() at whatever the connection inserted last
        return conn.execute("SELECT last_insert_rowid()").fetchone()[0]

    def is_busy(self):
        conn = self._connect()
        return conn.in_transaction  # planted: a transaction left open by an earlier operation is visible only when shared

    def _written(self, conn):
        return conn.total_changes  # planted: one call deep, still the shared connection

    def purge_via_helper(self, key):
        conn = self._connect()
        conn.execute("DELETE FROM t WHERE k = ?", (key,))
        return self._written(conn)

    # ------------------------------------------------------------------ must be accepted
    def purge_rowcount(self, key):
        conn = self._connect()
        cur = conn.execute("DELETE FROM t WHERE k = ?", (key,))
        conn.commit()
        return cur.rowcount

    def purge_delta(self, key):
        conn = self._connect()
        before = conn.total_changes
        conn.execute("DELETE FROM t WHERE k = ?", (key,))
        conn.commit()
        return conn.total_changes - before

    def purge_guarded(self, key):
        conn = self._connect()
        cur = conn.execute("DELETE FROM t WHERE k = ?", (key,))
        conn.commit()
        if self._shared_conn is None:
            return conn.total_changes
        return cur.rowcount

    def purge_changes(self, key):
        conn = self._connect()
        conn.execute("DELETE FROM t WHERE k = ?", (key,))
        return conn.execute("SELECT changes()").fetchone()[0]

    def insert(self, key, value):
        conn = self._connect()
        conn.execute("INSERT INTO t (k, v) VALUES (?, ?)", (key, value))
        rowid = conn.execute("SELECT last_insert_rowid()").fetchone()[0]
        conn.commit()
        return rowid

    def tidy(self):
        conn = self._connect()
        if conn.in_transaction:
            conn.rollback()
