"""Planted example for C21.R1 (never imported, never executed; parsed by sa/props/c21.py on every run).

`BorrowingStore` borrows `_shared_conn` from whoever created it.  `load`, `save` and the helper `_drop` (called from
`load_via_bad_helper`) close a connection that may be the borrowed one (must be reported); `load_guarded`,
`load_identity` and the helper `_release` (called from `load_via_helper`) close only what they own (must be accepted).
"""

import sqlite3


class BorrowingStore:
    def __init__(self, path, connection=None):
        self._path = path
        self._shared_conn = connection

    def _connect(self):
        if self._shared_conn is not None:
            return self._shared_conn
        return sqlite3.connect(self._path)

    def load(self):
        conn = self._connect()
        try:
            return conn.execute("SELECT 1").fetchone()
        finally:
            conn.close()  # planted: closes the borrowed connection

    def save(self, value, conn=None):
        should_close = conn is None
        if conn is None:
            conn = self._connect()
        try:
            conn.execute("INSERT INTO t VALUES (?)", (value,))
        finally:
            if should_close:
                conn.close()  # planted: "we obtained it" is not "we own it"

    def load_guarded(self):
        conn = self._connect()
        try:
            return conn.execute("SELECT 1").fetchone()
        finally:
            if self._shared_conn is None:
                conn.close()

    def load_identity(self):
        conn = self._connect()
        owns = conn is not self._shared_conn
        try:
            return conn.execute("SELECT 1").fetchone()
        finally:
            if owns:
                conn.close()

    def _release(self, conn):
        if conn is not self._shared_conn:
            conn.close()

    def load_via_helper(self):
        conn = self._connect()
        try:
            return conn.execute("SELECT 1").fetchone()
        finally:
            self._release(conn)

    def _drop(self, conn):
        conn.close()  # planted: one call deep, still the borrowed connection

    def load_via_bad_helper(self):
        conn = self._connect()
        try:
            return conn.execute("SELECT 1").fetchone()
        finally:
            self._drop(conn)
