"""Planted positive example for the C16 rules (never imported or run; parsed and interpreted by the checker).

Defects on purpose:
  * sequences start at 1                                  -> C16.R1 consecutive
  * query_events uses `>=`                                -> C16.R2 cursor
  * subscribe_events never returns after a terminal event -> C16.R3 terminal-end
  * subscribe_events reads the batch, then acquires the condition and waits (check-then-wait window) -> C16.R3 complete
"""
import asyncio
from datetime import datetime, timezone

from llama_agents.server._store.abstract_workflow_store import StoredEvent


class PlantedLog:
    def __init__(self, max_completed=None):
        self.events = {}
        self._conditions = {}

    async def append_event(self, run_id, event):
        log = self.events.setdefault(run_id, [])
        log.append(StoredEvent(run_id=run_id, sequence=len(log) + 1, timestamp=datetime.now(timezone.utc), event=event))
        cond = self._conditions.get(run_id)
        if cond is not None:
            async with cond:
                cond.notify_all()

    async def query_events(self, run_id, after_sequence=None, limit=None):
        out = list(self.events.get(run_id, []))
        if after_sequence is not None:
            out = [e for e in out if e.sequence >= after_sequence]
        return out if limit is None else out[:limit]

    async def subscribe_events(self, run_id, after_sequence=-1):
        cond = self._conditions.setdefault(run_id, asyncio.Condition())
        cursor = after_sequence
        while True:
            batch = [e for e in self.events.get(run_id, []) if e.sequence > cursor]
            if not batch:
                async with cond:
                    await cond.wait()
                continue
            for e in batch:
                yield e
                cursor = e.sequence
