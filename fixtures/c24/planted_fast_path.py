"""Planted positive example for the C24.R1 conjunction ladder (never imported or run; parsed and interpreted by the checker).

The matcher is correct for every single-filter query and for every combination whose lists are empty or long.
Defect on purpose (one, and nothing else):
  * a list filter that holds exactly three values takes a "fast path" which answers from that filter alone: every other
    filter of the query, and its "empty list matches nothing", is dropped
        -> C24.R1 must report memory:query:list-length+other and memory:delete:list-length+other, and no other R1 instance
           (no list of the product domain has three values: only the length ladder sees this).
"""


class PlantedFastPathStore:
    def __init__(self, max_completed=None):
        self.handlers = {}
        self.max_completed = max_completed

    def _match(self, handler, query):
        pairs = (
            (query.handler_id_in, handler.handler_id),
            (query.run_id_in, handler.run_id),
            (query.workflow_name_in, handler.workflow_name),
            (query.status_in, handler.status),
        )
        for want, have in pairs:
            if want is not None and len(want) == 3:
                return have in want
        for want, have in pairs:
            if want is not None and have not in want:
                return False
        if query.is_idle is not None and query.is_idle != (handler.idle_since is not None):
            return False
        return True

    async def query(self, query):
        return [h for h in self.handlers.values() if self._match(h, query)]

    async def delete(self, query):
        ids = [i for i, h in self.handlers.items() if self._match(h, query)]
        for i in ids:
            del self.handlers[i]
        return len(ids)

    async def update(self, handler):
        self.handlers[handler.handler_id] = handler
