"""Planted positive example for the C24 rules (never imported or run; parsed and interpreted by the checker).

Defects on purpose:
  * `is_idle=False` is ignored by the matcher                         -> C24.R1 must report memory:query:is_idle
  * eviction removes a re-opened (running) handler via a stale entry   -> C24.R3 must report non-terminal-kept
  * eviction pops the newest completion                                -> C24.R3 must report oldest-first
  * `idle_since=None` is treated like "not given" by the status update -> C24.R4 must report status-update-fields
"""
from datetime import datetime, timezone

from llama_agents.server._store.abstract_workflow_store import HandlerQuery, _Unset, _UNSET, is_terminal_status


class PlantedStore:
    def __init__(self, max_completed=1000):
        self.handlers = {}
        self.max_completed = max_completed
        self.order = []

    def _match(self, handler, query):
        for want, have in (
            (query.handler_id_in, handler.handler_id),
            (query.run_id_in, handler.run_id),
            (query.workflow_name_in, handler.workflow_name),
            (query.status_in, handler.status),
        ):
            if want is not None and have not in want:
                return False
        if query.is_idle and handler.idle_since is None:
            return False
        return True

    async def query(self, query):
        return [h for h in self.handlers.values() if self._match(h, query)]

    async def delete(self, query):
        ids = [i for i, h in self.handlers.items() if self._match(h, query)]
        for i in ids:
            del self.handlers[i]
        return len(ids)

    async def update(self, handler):
        self.handlers[handler.handler_id] = handler
        if is_terminal_status(handler.status):
            if handler.handler_id in self.order:
                self.order.remove(handler.handler_id)
            self.order.append(handler.handler_id)
            if self.max_completed is not None:
                live = [i for i in self.order if i in self.handlers]
                while len(live) > self.max_completed:
                    victim = live.pop() if len(live) > 2 else live.pop(0)
                    self.order.remove(victim)
                    self.handlers.pop(victim, None)

    async def update_handler_status(self, run_id, *, status=None, result=None, error=None, idle_since=_UNSET):
        found = await self.query(HandlerQuery(run_id_in=[run_id]))
        if not found:
            return
        handler = found[0]
        now = datetime.now(timezone.utc)
        if status is not None:
            handler.status = status
        handler.updated_at = now
        if status in ("completed", "failed", "cancelled"):
            handler.completed_at = now
        if error is not None:
            handler.error = error
        if not isinstance(idle_since, _Unset) and idle_since is not None:
            handler.idle_since = idle_since
        await self.update(handler)
