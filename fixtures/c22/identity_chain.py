# Planted positive for C22.R6 (matches nothing in the pinned tree; analysed on every run, never executed):
# the cycle chain holds descriptor *objects*, although a descriptor obtains its dependencies by re-evaluating the
# factory's annotations on every visit, so the same factory arrives as a new object each time round a cycle.
# The cache stays keyed by name.
from typing import get_type_hints


class _Res:
    def __init__(self, factory) -> None:
        self._factory = factory
        self.name = factory.__qualname__

    def get_dependencies(self):
        hints = get_type_hints(self._factory, include_extras=True)
        return [h.__metadata__[0] for h in hints.values() if hasattr(h, "__metadata__")]

    async def resolve(self, manager):
        kwargs = {}
        for dep in self.get_dependencies():
            kwargs[dep.name] = await manager.get(dep)
        return self._factory(**kwargs)


class ResourceManager:
    def __init__(self) -> None:
        self.resources = {}
        self._chain = []

    async def set(self, name, val) -> None:
        self.resources[name] = val

    async def get(self, resource):
        if resource in self._chain:
            raise ValueError("Circular resource dependency detected: " + " -> ".join(r.name for r in self._chain))
        if resource.name in self.resources:
            return self.resources[resource.name]
        self._chain.append(resource)
        try:
            val = await resource.resolve(self)
            await self.set(resource.name, val)
            return val
        finally:
            self._chain.remove(resource)
