# Planted positives for C22.R1 sub-rules that match nothing in the pinned tree (analysed on every run; never executed):
# a ContextVar whose default object is shared by all tasks, and per-resolution state kept in a module global.
import asyncio
from contextvars import ContextVar

_CHAIN: ContextVar[list] = ContextVar("chain", default=[])
_SEEN: dict = {}


class ResourceManager:
    def __init__(self) -> None:
        self.resources = {}

    async def set(self, name, val) -> None:
        self.resources[name] = val

    async def get(self, resource):
        _CHAIN.get().append(resource.name)
        _SEEN[resource.name] = True
        try:
            return await resource.resolve(self)
        finally:
            _SEEN.pop(resource.name, None)
