"""Planted examples for C30.R2 `release-paired` (analysed on every run, never imported).

Functions whose name starts with `bad_` release a permit on a path on which the acquire of the same semaphore did not
complete (the run was cancelled / failed while still queued in `acquire()`): the rule must report each of them.
Functions whose name starts with `good_` are the nearest correct forms: the rule must stay silent on each.
"""
import asyncio
from contextlib import asynccontextmanager


@asynccontextmanager
async def bad_acquire_inside_the_try(sem: asyncio.Semaphore):
    try:
        await sem.acquire()
        yield
    finally:
        sem.release()


@asynccontextmanager
async def bad_release_in_handler_of_the_acquiring_try(sem: asyncio.Semaphore):
    try:
        await sem.acquire()
        yield
    except BaseException:
        sem.release()
        raise
    sem.release()


@asynccontextmanager
async def bad_flag_set_before_the_acquire(sem: asyncio.Semaphore):
    acquired = False
    try:
        acquired = True
        await sem.acquire()
        yield
    finally:
        if acquired:
            sem.release()


@asynccontextmanager
async def bad_timeout_wrapped_acquire_inside_the_try(sem: asyncio.Semaphore):
    try:
        await asyncio.wait_for(sem.acquire(), 5)
        yield
    finally:
        sem.release()


@asynccontextmanager
async def good_acquire_before_the_try(sem: asyncio.Semaphore):
    await sem.acquire()
    try:
        yield
    finally:
        sem.release()


@asynccontextmanager
async def good_flag_set_after_the_acquire(sem: asyncio.Semaphore):
    acquired = False
    try:
        await sem.acquire()
        acquired = True
        yield
    finally:
        if acquired:
            sem.release()


@asynccontextmanager
async def good_async_with(sem: asyncio.Semaphore):
    async with sem:
        yield


@asynccontextmanager
async def good_nested_try(sem: asyncio.Semaphore):
    try:
        await sem.acquire()
        try:
            yield
        finally:
            sem.release()
    except asyncio.CancelledError:
        raise
