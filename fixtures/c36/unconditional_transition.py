"""Planted lifecycle lock for C36.R5 (never imported, never run; parsed with `ast` on every check run).

Each method is one shape the source-state reader of sa/props/c36.py must classify:

  begin_release                    correct compare-and-set            -> names {active}
  resume_guarded                   correct read-modify-write          -> names {released, releasing}
  complete_release_unconditional   `AND state = ?` and its bind gone  -> names nothing (the seeded fault S143)
  complete_release_unbound         placeholder kept, bind gone        -> names nothing
  resume_any_state                 guard admits every state           -> names nothing
  complete_release_from_active     names `active` for `released`      -> illegal edge active -> released
"""

from datetime import datetime, timezone
from enum import Enum


class RunLifecycleState(str, Enum):
    active = "active"
    releasing = "releasing"
    released = "released"


class PlantedLifecycleLock:
    def __init__(self, conn, table):
        self._conn = conn
        self._table_ref = table

    async def begin_release(self, run_id):
        cursor = self._conn.execute(
            f"UPDATE {self._table_ref} SET state = ?, updated_at = ? WHERE run_id = ? AND state = ?",
            (RunLifecycleState.releasing.value, datetime.now(timezone.utc).isoformat(), run_id, RunLifecycleState.active.value),
        )
        return cursor.rowcount > 0

    async def complete_release_unconditional(self, run_id):
        self._conn.execute(
            f"UPDATE {self._table_ref} SET state = ?, updated_at = ? WHERE run_id = ?",
            (RunLifecycleState.released.value, datetime.now(timezone.utc).isoformat(), run_id),
        )

    async def complete_release_unbound(self, run_id):
        await self._conn.execute(
            f"UPDATE {self._table_ref} SET state = $1, updated_at = $2 WHERE run_id = $3 AND state = $4",
            RunLifecycleState.released.value,
            datetime.now(timezone.utc),
            run_id,
        )

    async def complete_release_from_active(self, run_id):
        await self._conn.execute(
            f"UPDATE {self._table_ref} SET state = $1, updated_at = $2 WHERE run_id = $3 AND state = $4",
            RunLifecycleState.released.value,
            datetime.now(timezone.utc),
            run_id,
            RunLifecycleState.active.value,
        )

    async def resume_guarded(self, run_id, crash_timeout_seconds=None):
        row = self._conn.execute(f"SELECT state, updated_at FROM {self._table_ref} WHERE run_id = ?", (run_id,)).fetchone()
        if row is None:
            return None
        state = RunLifecycleState(row["state"])
        if state == RunLifecycleState.active:
            return None
        if state == RunLifecycleState.releasing and (crash_timeout_seconds is None or row["age"] <= crash_timeout_seconds):
            return RunLifecycleState.releasing
        self._conn.execute(
            f"UPDATE {self._table_ref} SET state = ?, updated_at = ? WHERE run_id = ?",
            (RunLifecycleState.active.value, datetime.now(timezone.utc).isoformat(), run_id),
        )
        return RunLifecycleState.released

    async def resume_any_state(self, run_id, crash_timeout_seconds=None):
        row = self._conn.execute(f"SELECT state, updated_at FROM {self._table_ref} WHERE run_id = ?", (run_id,)).fetchone()
        if row is None:
            return None
        state = RunLifecycleState(row["state"])
        if state == RunLifecycleState.releasing and crash_timeout_seconds is None:
            return RunLifecycleState.releasing
        self._conn.execute(
            f"UPDATE {self._table_ref} SET state = ?, updated_at = ? WHERE run_id = ?",
            (RunLifecycleState.active.value, datetime.now(timezone.utc).isoformat(), run_id),
        )
        return RunLifecycleState.released
