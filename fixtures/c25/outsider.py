"""Planted positive example for C25.R4 (never imported, only parsed): code outside KeyedLock that
reaches into the tables of a KeyedLock.  The rule must report both accesses on every run."""


class KeyedLock:  # stand-in so that the fixture is self-contained
    def __init__(self):
        self._locks = {}
        self._refs = {}


class Holder:
    def __init__(self):
        self._reload_lock = KeyedLock()
        self._locks = {}  # an unrelated field of the same name: must NOT be reported

    def busy(self, run_id):
        self._locks[run_id] = 1  # own field, fine
        return run_id in self._reload_lock._locks  # outsider read

    def force_release(self, run_id):
        del self._reload_lock._refs[run_id]  # outsider write
