"""Planted examples for C25.R5 (never imported, only parsed): keyed locks whose per-key acquisition is, or is not, owned by
the waiter's frame.  ``EXPECT`` says for every class what the rule must conclude about the per-key acquisition of its
``__call__``: "detached" = reported structurally and the interpretation finds a lock taken by an orphaned acquire;
"owned" = neither.  Registration / deregistration are the same correct code everywhere, so nothing else distinguishes them.
"""

import asyncio
from contextlib import asynccontextmanager

EXPECT = {
    "ShieldedAcquire": "detached",
    "TaskAcquire": "detached",
    "EnsureFutureViaLocal": "detached",
    "ShieldedHelper": "detached",
    "DirectAcquire": "owned",
    "DirectAcquireViaHelper": "owned",
    "AsyncWith": "owned",
}


class _Base:
    def __init__(self):
        self._main_lock = None
        self._locks = {}
        self._refs = {}

    def _get_main_lock(self):
        if self._main_lock is None:
            self._main_lock = asyncio.Lock()
        return self._main_lock


class ShieldedAcquire(_Base):
    @asynccontextmanager
    async def __call__(self, key):
        async with self._get_main_lock():
            if key not in self._locks:
                self._locks[key] = asyncio.Lock()
                self._refs[key] = 0
            self._refs[key] += 1
        lock = self._locks[key]
        try:
            await asyncio.shield(lock.acquire())  # a cancelled waiter leaves the inner acquire in the queue
            try:
                yield
            finally:
                lock.release()
        finally:
            async with self._get_main_lock():
                self._refs[key] -= 1
                if self._refs[key] == 0:
                    del self._locks[key]
                    del self._refs[key]


class TaskAcquire(_Base):
    @asynccontextmanager
    async def __call__(self, key):
        async with self._get_main_lock():
            if key not in self._locks:
                self._locks[key] = asyncio.Lock()
                self._refs[key] = 0
            self._refs[key] += 1
        try:
            await asyncio.get_running_loop().create_task(self._locks[key].acquire())  # task done, waiter cancelled before it resumes
            try:
                yield
            finally:
                self._locks[key].release()
        finally:
            async with self._get_main_lock():
                self._refs[key] -= 1
                if self._refs[key] == 0:
                    del self._locks[key]
                    del self._refs[key]


class EnsureFutureViaLocal(_Base):
    @asynccontextmanager
    async def __call__(self, key):
        async with self._get_main_lock():
            if key not in self._locks:
                self._locks[key] = asyncio.Lock()
                self._refs[key] = 0
            self._refs[key] += 1
        try:
            pending = self._locks[key].acquire()
            fut = asyncio.ensure_future(pending)
            await fut
            try:
                yield
            finally:
                self._locks[key].release()
        finally:
            async with self._get_main_lock():
                self._refs[key] -= 1
                if self._refs[key] == 0:
                    del self._locks[key]
                    del self._refs[key]


class ShieldedHelper(_Base):
    async def _take(self, key):
        await self._locks[key].acquire()  # direct here, but this frame is itself run by shield

    @asynccontextmanager
    async def __call__(self, key):
        async with self._get_main_lock():
            if key not in self._locks:
                self._locks[key] = asyncio.Lock()
                self._refs[key] = 0
            self._refs[key] += 1
        try:
            await asyncio.shield(self._take(key))
            try:
                yield
            finally:
                self._locks[key].release()
        finally:
            async with self._get_main_lock():
                self._refs[key] -= 1
                if self._refs[key] == 0:
                    del self._locks[key]
                    del self._refs[key]


class DirectAcquire(_Base):
    @asynccontextmanager
    async def __call__(self, key):
        async with self._get_main_lock():
            if key not in self._locks:
                self._locks[key] = asyncio.Lock()
                self._refs[key] = 0
            self._refs[key] += 1
        lock = self._locks[key]
        try:
            await lock.acquire()  # owned: asyncio.Lock.acquire itself gives the wake-up back when cancelled here
            try:
                yield
            finally:
                lock.release()
        finally:
            async with self._get_main_lock():
                self._refs[key] -= 1
                if self._refs[key] == 0:
                    del self._locks[key]
                    del self._refs[key]


class DirectAcquireViaHelper(_Base):
    async def _take(self, key):
        await self._locks[key].acquire()

    @asynccontextmanager
    async def __call__(self, key):
        async with self._get_main_lock():
            if key not in self._locks:
                self._locks[key] = asyncio.Lock()
                self._refs[key] = 0
            self._refs[key] += 1
        try:
            await self._take(key)  # the helper runs in the waiter's own task
            try:
                yield
            finally:
                self._locks[key].release()
        finally:
            async with self._get_main_lock():
                self._refs[key] -= 1
                if self._refs[key] == 0:
                    del self._locks[key]
                    del self._refs[key]


class AsyncWith(_Base):
    @asynccontextmanager
    async def __call__(self, key):
        async with self._get_main_lock():
            if key not in self._locks:
                self._locks[key] = asyncio.Lock()
                self._refs[key] = 0
            self._refs[key] += 1
        try:
            async with self._locks[key]:
                yield
        finally:
            async with self._get_main_lock():
                self._refs[key] -= 1
                if self._refs[key] == 0:
                    del self._locks[key]
                    del self._refs[key]
