import boot, asyncio, time
from workflows import Workflow, step, Context
from workflows.events import *
class A(Event): pass
class B(Event): pass
n=[0]
class W(Workflow):
    @step
    async def s(self, ev: StartEvent | B) -> A | StopEvent:
        n[0]+=1
        if n[0] > 200000: return StopEvent(result="gave up")
        return A()
    @step
    async def t(self, ev: A) -> B:
        return B()
async def main():
    t0=time.monotonic()
    try:
        r = await W(timeout=0.2).run()
    except Exception as e:
        r = type(e).__name__
    print("C31 busy loop timeout=0.2 ->", r, "after", round(time.monotonic()-t0,2), "s, iterations", n[0])
asyncio.run(main())
