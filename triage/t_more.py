import boot, asyncio, json, logging
logging.disable(logging.CRITICAL)
from workflows import Workflow, step, Context
from workflows.events import *
from workflows.runtime.control_loop import _reduce_tick
from workflows.runtime.types.internal_state import BrokerState
from workflows.runtime.types.ticks import TickIdleRelease, TickAddEvent

class Resp(Event):
    k: str = ""
    v: int = 0

# C10.R2: after resume, before requirements are rehydrated, a non-matching response is accepted
async def c10r2():
    got=[]
    class W(Workflow):
        @step
        async def s(self, ctx: Context, ev: StartEvent) -> StopEvent:
            await asyncio.sleep(0.15)   # slow prefix: rehydration replay takes a while
            r = await ctx.wait_for_event(Resp, waiter_id="w", requirements={"k": "good"}, timeout=None)
            got.append((r.k, r.v))
            return StopEvent(result=(r.k, r.v))
    w = W(timeout=5)
    h = w.run()
    await asyncio.sleep(0.3)           # waiter registered
    d = json.loads(json.dumps(h.ctx.to_dict()))
    await h.cancel_run()
    try: await h
    except Exception: pass
    ctx2 = Context.from_dict(w, d)
    h2 = w.run(ctx=ctx2)
    await asyncio.sleep(0.02)          # step is replaying its slow prefix; requirements not yet re-registered
    h2.ctx.send_event(Resp(k="bad", v=1))
    await asyncio.sleep(0.4)
    h2.ctx.send_event(Resp(k="good", v=2))
    try: r = await asyncio.wait_for(h2, 2)
    except Exception as e: r = repr(e)
    print("C10.R2 requirements {'k':'good'}; received:", got, "result:", r)

# C26.R1: TickIdleRelease while work is in progress
def c26r1():
    class W(Workflow):
        @step
        async def s(self, ev: StartEvent) -> StopEvent:
            return StopEvent()
    st = BrokerState.from_workflow(W())
    st, cmds = _reduce_tick(TickAddEvent(event=StartEvent()), st, 0.0)
    busy = {k: len(v.in_progress) for k,v in st.workers.items()}
    st2, cmds2 = _reduce_tick(TickIdleRelease(), st, 0.0)
    print("C26.R1 in_progress before release:", busy, "-> commands:", [type(c).__name__ + ":" + type(getattr(c,'result',None)).__name__ for c in cmds2])

# C24 delete on empty query
async def c24del():
    from llama_agents.server._store.memory_workflow_store import MemoryWorkflowStore
    from llama_agents.server._store.sqlite.sqlite_workflow_store import SqliteWorkflowStore
    from llama_agents.server._store.abstract_workflow_store import PersistentHandler, HandlerQuery
    import tempfile, os
    m = MemoryWorkflowStore(); s = SqliteWorkflowStore(os.path.join(tempfile.mkdtemp(),"d.db"))
    for st in (m, s):
        await st.update(PersistentHandler(handler_id="A", workflow_name="w", status="running", run_id="r"))
    print("C24 delete(HandlerQuery()): memory", await m.delete(HandlerQuery()), "sqlite", await s.delete(HandlerQuery()),
          "| query(HandlerQuery()): memory", len(await m.query(HandlerQuery())), "sqlite", len(await s.query(HandlerQuery())))

asyncio.run(c10r2()); c26r1(); asyncio.run(c24del())
