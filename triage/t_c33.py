"""C33.R3 repro on the real backup/archive.py: an archive created with encryption_password="" says
`encrypted: true` in its manifest, stores the secret in clear (`x.secret.yaml`), and is read back with ANY
password.  `cryptography` is absent from the sandbox; it is stubbed (never called on this path)."""
import sys, types, io, tarfile, json
sys.dont_write_bytecode = True
for name in ("cryptography", "cryptography.hazmat", "cryptography.hazmat.primitives", "cryptography.hazmat.primitives.ciphers",
             "cryptography.hazmat.primitives.ciphers.aead", "cryptography.hazmat.primitives.kdf", "cryptography.hazmat.primitives.kdf.pbkdf2"):
    sys.modules[name] = types.ModuleType(name)
sys.modules["cryptography.hazmat.primitives"].hashes = object()
sys.modules["cryptography.hazmat.primitives.ciphers.aead"].AESGCM = object
sys.modules["cryptography.hazmat.primitives.kdf.pbkdf2"].PBKDF2HMAC = object
S = "/repo/packages/llama-agents-control-plane/src/llama_agents"
for name, path in (("llama_agents", S), ("llama_agents.control_plane", S + "/control_plane"), ("llama_agents.control_plane.backup", S + "/control_plane/backup")):
    m = types.ModuleType(name); m.__path__ = [path]; sys.modules[name] = m
from llama_agents.control_plane.backup.archive import create_backup_archive, read_backup_archive

cr = {"metadata": {"name": "app"}, "spec": {}}
blob = create_backup_archive([cr], {"app": {"TOKEN": "s3cr3t"}}, "ns", "2026-01-01T00:00:00Z", encryption_password="")
names = tarfile.open(fileobj=io.BytesIO(blob), mode="r:gz").getnames()
man = json.loads(tarfile.open(fileobj=io.BytesIO(blob), mode="r:gz").extractfile("manifest.json").read())
print("files:", names)
print("manifest.encrypted =", man["encrypted"])
back = read_backup_archive(blob, encryption_password="a-different-password")
print("read with a different password ->", back.entries[0].secret)
print("C33 VIOLATED" if man["encrypted"] and back.entries[0].secret else "C33 ok")
