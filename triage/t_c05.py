import boot  # noqa
import asyncio, time
from workflows import Workflow, step, Context
from workflows.events import StartEvent, StopEvent
from workflows.retry_policy import retry_policy, stop_after_delay, stop_after_attempt, wait_fixed, ConstantDelayRetryPolicy
import workflows.retry_policy as rp
print([n for n in dir(rp) if not n.startswith('_')])
calls=[]
class W(Workflow):
    @step(retry_policy=rp.retry_policy(stop=rp.stop_after_delay(5), wait=rp.wait_fixed(0.05)))
    async def s(self, ctx: Context, ev: StartEvent) -> StopEvent:
        calls.append(time.time())
        print("retry_info", ctx.retry_info())
        if len(calls) < 4:
            raise ValueError("x")
        return StopEvent(result=len(calls))
async def main():
    try:
        r = await W(timeout=10).run()
        print("result", r)
    except Exception as e:
        print("EXC", type(e), e)
    print("calls", len(calls))
asyncio.run(main())
