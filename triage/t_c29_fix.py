"""Triage aid for C29.R1: run the window-boundary schedule against the pinned debounced_sorted_prefix and against the
candidate repairs used as twins in sa/props/c29.py (applied to an in-memory copy of iter_utils.py; /repo is untouched)."""
import asyncio, sys, types
sys.path.insert(0, "/verif")
import boot  # noqa: F401
from sa.props import c29

SRC = open("/repo/packages/llama-agents-core/src/llama_agents/core/iter_utils.py").read()


def load(new_body):
    src = SRC if new_body is None else SRC.replace(c29._BODY_OLD, new_body)
    assert new_body is None or src != SRC
    mod = types.ModuleType("iter_utils_variant")
    exec(compile(src, "iter_utils_variant", "exec"), mod.__dict__)
    return mod


async def trial(mod, n=200):
    bad = 0
    last = None
    lost = 0
    for _ in range(n):
        async def src():
            yield 3; yield 1
            await asyncio.sleep(0.02)  # exactly at the window
            yield 2
            yield 0
        out = [x async for x in mod.debounced_sorted_prefix(src(), key=lambda x: x, debounce_seconds=0.02, max_window_seconds=0.02)]
        if sorted(out) != [0, 1, 2, 3]:
            lost += 1
        # legal outputs: the burst (a prefix of the arrival order 3,1,2,0) sorted, then the rest in arrival order
        legal = [sorted([3, 1, 2, 0][:k]) + [3, 1, 2, 0][k:] for k in range(1, 5)]
        if out not in legal:
            bad += 1
            last = out
    return bad, lost, last


for name, body in [("pinned", None), ("fixed: local flag", c29._FIXED), ("fixed: early-continue", c29._FIXED_EARLY_CONTINUE),
                   ("fixed: two loops", c29._FIXED_TWO_LOOPS), ("broken: flag refreshed", c29._BROKEN_REFRESH), ("broken: or", c29._BROKEN_OR)]:
    print(f"{name:28s} illegal orders / lost items / example:", asyncio.run(trial(load(body))))
