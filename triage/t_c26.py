"""Triage aid for C26.R2 (not a check): in-process idle release aborts a run that its own timer woke up.

A step waits for an external event with a waiter timeout slightly shorter than idle_timeout.  The run announces idle
(idle_since is stored), the waiter timeout fires inside the run (no external send, so nobody clears idle_since), the
step continues working, and _release_idle_handler — which only looks at idle_since — aborts the control loop while the
step is running."""
import boot, asyncio, logging
logging.disable(logging.CRITICAL)
from workflows import Workflow, step, Context
from workflows.events import *
from workflows.plugins.basic import BasicRuntime
from llama_agents.server._store.memory_workflow_store import MemoryWorkflowStore
from llama_agents.server._store.abstract_workflow_store import HandlerQuery
from llama_agents.server._runtime.server_runtime import ServerRuntimeDecorator
from llama_agents.server._runtime.persistence_runtime import PersistenceDecorator
from llama_agents.server._runtime.idle_release_runtime import IdleReleaseDecorator
from llama_agents.server._service import _WorkflowService

class Resp(Event): v: int = 0
import time
log = []
T0=[0.0]
def L(m): log.append(f'{time.monotonic()-T0[0]:.2f}s {m}')

async def main():
    store = MemoryWorkflowStore()
    idle = IdleReleaseDecorator(PersistenceDecorator(BasicRuntime(), store=store), store=store, idle_timeout=0.30)
    rt = ServerRuntimeDecorator(idle, store=store, persistence_backoff=[])
    svc = _WorkflowService(rt, store)
    class W(Workflow):
        @step
        async def s(self, ctx: Context, ev: StartEvent) -> StopEvent:
            try:
                await ctx.wait_for_event(Resp, waiter_id="w", timeout=0.25)
            except asyncio.TimeoutError as e:
                L("waiter timed out inside the run; step keeps working (no external send happened)")
            try:
                await asyncio.sleep(0.4)
            except asyncio.CancelledError:
                L("step CANCELLED while running (run released as idle)")
                raise
            L("step finished, returns StopEvent(result=done)")
            return StopEvent(result="done")
    w = W(timeout=10); w._switch_workflow_name("wf"); w._switch_runtime(rt)
    await svc.start()
    T0[0]=time.monotonic()
    orig = idle._abort_inner_run
    def spy(run_id):
        L("_release_idle_handler aborts the control loop")
        return orig(run_id)
    idle._abort_inner_run = spy
    hd = await svc.start_workflow(w, "h", StartEvent())
    await asyncio.sleep(1.2)
    res = (await store.query(HandlerQuery(handler_id_in=["h"])))[0]
    print("C26.R2 timeline:"); [print("   ", x) for x in log]
    print("C26.R2 after 1.2s: status=", res.status, "idle_since set:", res.idle_since is not None, "in active set:", hd.run_id in idle._active_run_ids)
    await svc.stop()
asyncio.run(main())
