"""Triage aid (not a check): which yaml.dump options keep dump -> .encode() -> safe_load the identity (PyYAML of /venv).
Every code point U+0001..U+2FFF (+ a few beyond) alone / inside a word / after a newline, plus long and space-heavy strings
(line folding), as mapping values, list items and mapping keys.  Run: cd /verif/triage && /venv/bin/python t_c33_yaml_options.py"""
import itertools, sys
from multiprocessing import Pool
import yaml

cps = [c for c in itertools.chain(range(1, 0x3000), [0xD7FF, 0xE000, 0xFEFF, 0xFFFD, 0xFFFE, 0xFFFF, 0x1F600])]
extra = ["", " ", "  lead", "trail  ", "a " * 80, ("word " * 40).strip(), "x" * 300, "a  b   c " * 30, "l1\nl2\n", "l1\n\nl2", "\ttab", "key: value", "- item", "# c",
         "'q'", '"dq"', "yes", "null", "1", "1.5", "~", "a\r\nb", "é" * 100, "é " * 100, "long " * 30 + "\n" + "tail " * 30, " x" * 60, "a\n  b\n c " * 10]
VALUES = [f for c in cps for f in (chr(c), "x" + chr(c) + "y", "a\n" + chr(c) + "b")] + extra
CONFIGS = [dict()] + [dict(default_flow_style=v) for v in (None, True, False)] + [dict(sort_keys=False)] + [dict(indent=i) for i in (1, 4, 9)] \
    + [dict(width=w) for w in (1, 20, 200, 10**6, float("inf"))] + [dict(width=20, default_flow_style=True), dict(width=20, indent=4, default_flow_style=False)] \
    + [dict(explicit_start=True), dict(explicit_end=True), dict(explicit_start=True, explicit_end=True, default_flow_style=False)] \
    + [dict(Dumper=yaml.SafeDumper), dict(encoding="utf-8"), dict(canonical=True), dict(default_style='"'), dict(default_style="'"), dict(default_style="|"), dict(default_style=">"),
       dict(line_break="\r\n"), dict(line_break="\r")] \
    + [dict(allow_unicode=True), dict(allow_unicode=True, default_flow_style=False), dict(allow_unicode=True, default_style='"'), dict(allow_unicode=True, width=10**6)]

def one(i):
    kw = CONFIGS[i]
    bad = {}
    for j in range(0, len(VALUES), 40):
        chunk = VALUES[j:j + 40]
        doc = {"vals": chunk, "map": {(v or "empty"): v for v in chunk}}
        try:
            out = yaml.dump(doc, **kw)
            back = yaml.safe_load(out if isinstance(out, bytes) else out.encode())
        except Exception as e:  # noqa: BLE001
            back = None
        if back != doc:
            for v in chunk:  # locate
                d = {"k": v, (v or "empty"): [v]}
                try:
                    o = yaml.dump(d, **kw)
                    ok = yaml.safe_load(o if isinstance(o, bytes) else o.encode()) == d
                except Exception as e:  # noqa: BLE001
                    ok = False
                if not ok:
                    key = ",".join(sorted({f"U+{ord(ch):04X}" for ch in v if not 0x20 <= ord(ch) < 0x7F})) or repr(v[:12])
                    bad[key] = bad.get(key, 0) + 1
    label = ", ".join(f"{k}={getattr(v, '__name__', v)!r}" for k, v in kw.items()) or "(defaults)"
    return f"{label:62s} -> " + ("lossless" if not bad else f"LOSSY for {len(bad)} kinds, e.g. {sorted(bad)[:5]}")

if __name__ == "__main__":
    with Pool(10) as p:
        for line in p.imap(one, range(len(CONFIGS))):
            print(line, flush=True)
