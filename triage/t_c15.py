"""Triage for C15 (server handler record reflects the run outcome). Real package code + boot stubs.

r2a: an engine-side failure that is NOT the reducer/retry-policy case: the store's append_event fails once
     (transient) while the control loop publishes a non-terminal stream event -> write_to_event_stream raises
     inside process_command -> the run task ends with that exception, no terminal event, nobody observes
     the task -> handler stays `running`.
r2b: the retry-policy case (t_server.py::c15), kept for comparison (may be repaired engine-side).
r3 : DBOSIdleReleaseDecorator._await_and_mark_released / _do_resume write status="running" without looking
     at the stored status (needs stubs for `dbos` and `asyncpg`; lifecycle lock is the real sqlite one).
"""
import boot, asyncio, sys, types, logging
from workflows import Workflow, step, Context
from workflows.events import *
import workflows.retry_policy as rp
from workflows.plugins.basic import BasicRuntime
from llama_agents.server._store.memory_workflow_store import MemoryWorkflowStore
from llama_agents.server._store.abstract_workflow_store import HandlerQuery, PersistentHandler
from llama_agents.server._runtime.server_runtime import ServerRuntimeDecorator
from llama_agents.server._runtime.persistence_runtime import PersistenceDecorator
from llama_agents.server._runtime.idle_release_runtime import IdleReleaseDecorator
from llama_agents.server._service import _WorkflowService

logging.disable(logging.CRITICAL)


def build(store):
    rt = ServerRuntimeDecorator(IdleReleaseDecorator(PersistenceDecorator(BasicRuntime(), store=store), store=store), store=store, persistence_backoff=[0.01])
    return rt, _WorkflowService(rt, store)


class FlakyStore(MemoryWorkflowStore):
    """append_event fails exactly once, on the first non-terminal event."""
    failed = False
    async def append_event(self, run_id, event):
        if not self.failed and "StopEvent" not in ((event.types or []) + [event.type]):
            self.failed = True
            raise ConnectionError("transient store outage")
        return await super().append_event(run_id, event)


async def r2a():
    store = FlakyStore(); rt, svc = build(store)
    class W(Workflow):
        @step
        async def s(self, ev: StartEvent) -> StopEvent:
            return StopEvent(result="ok")
    w = W(timeout=5); w._switch_workflow_name("w"); w._switch_runtime(rt)
    await svc.start()
    hd = await svc.start_workflow(w, "h", StartEvent())
    hd = await svc.await_workflow(hd)
    await asyncio.sleep(0.2)
    run = svc._workflow_run_handler("w", hd.run_id)
    try:
        await asyncio.wait_for(run.stop_event_result(), 2); how = "returned"
    except Exception as e:
        how = f"raised {type(e).__name__}: {e}"
    rec = (await store.query(HandlerQuery(handler_id_in=["h"])))[0]
    print(f"r2a transient append_event failure: run task {how} -> stored status={rec.status!r} error={rec.error!r}")
    await svc.stop()


async def r2b():
    store = MemoryWorkflowStore(); rt, svc = build(store)
    def bad(e): raise RuntimeError("predicate boom")
    class W(Workflow):
        @step(retry_policy=rp.retry_policy(retry=rp.retry_if_exception(bad), wait=rp.wait_fixed(0), stop=rp.stop_after_attempt(3)))
        async def s(self, ev: StartEvent) -> StopEvent:
            raise ValueError("x")
    w = W(timeout=5); w._switch_workflow_name("bad"); w._switch_runtime(rt)
    await svc.start()
    hd = await svc.start_workflow(w, "hb", StartEvent())
    hd = await svc.await_workflow(hd)
    print("r2b retry policy raises in reducer: stored status=%r error=%r" % (hd.status, hd.error))
    await svc.stop()


async def r3():
    # stubs for the two imports that are not installed; nothing of them is used on the exercised path
    d = types.ModuleType("dbos"); d.DBOS = type("DBOS", (), {}); sys.modules["dbos"] = d
    sys.modules["asyncpg"] = types.ModuleType("asyncpg")
    import llama_agents
    pkg = types.ModuleType("llama_agents.dbos"); pkg.__path__ = ["/repo/packages/llama-agents-dbos/src/llama_agents/dbos"]
    sys.modules["llama_agents.dbos"] = pkg
    from llama_agents.dbos.idle_release import DBOSIdleReleaseDecorator

    class Life:  # minimal lifecycle double: records calls
        calls = []
        async def complete_release(self, run_id): self.calls.append("complete_release")
    class Ext:  # external adapter double: the run really completed before TickIdleRelease was consumed
        async def get_result(self): return StopEvent(result="real result")
    store = MemoryWorkflowStore()
    await store.update(PersistentHandler(handler_id="h", workflow_name="w", status="running", run_id="r"))
    await store.update_handler_status("r", status="completed", result=StopEvent(result="real result"))
    before = (await store.query(HandlerQuery(run_id_in=["r"])))[0].status
    fake = types.SimpleNamespace(_store=store)
    async def _get_lifecycle(): return Life()
    fake._get_lifecycle = _get_lifecycle
    await DBOSIdleReleaseDecorator._await_and_mark_released(fake, "r", Ext())
    after = (await store.query(HandlerQuery(run_id_in=["r"])))[0]
    print(f"r3 _await_and_mark_released after a real completion: status {before!r} -> {after.status!r} (idle_since set: {after.idle_since is not None})")


for f in (r2a, r2b, r3):
    try:
        asyncio.run(f())
    except Exception as e:  # triage aid: show, do not hide
        print(f.__name__, "could not run:", type(e).__name__, e)


# --------------------------------------------------------------------------------------------------
# Validation of the *proposed* repair for C15.R2 (not applied to /repo): the same change expressed as a
# subclass, run on the failing scenario and on the ordinary outcomes to see that nothing else changes.
from llama_agents.server._store.abstract_workflow_store import is_terminal_status
from workflows.runtime.types.plugin import ExternalRunAdapter


class ObservedRuntime(ServerRuntimeDecorator):
    def run_workflow(self, run_id, workflow, init_state, start_event=None, serialized_state=None, serializer=None):
        adapter = super().run_workflow(run_id, workflow, init_state, start_event=start_event, serialized_state=serialized_state, serializer=serializer)
        if not hasattr(self, "_completion_observers"):
            self._completion_observers = set()
        task = asyncio.create_task(self._observe_completion(run_id, adapter))
        self._completion_observers.add(task)
        task.add_done_callback(self._completion_observers.discard)
        return adapter

    async def _observe_completion(self, run_id: str, adapter: ExternalRunAdapter) -> None:
        try:
            await adapter.get_result()
        except asyncio.CancelledError:
            raise
        except Exception as e:
            found = await self._store.query(HandlerQuery(run_id_in=[run_id]))
            if found and not is_terminal_status(found[0].status):
                await self._handle_status_update(run_id, "failed", error=str(e))


def build_fixed(store, idle_timeout=60.0):
    rt = ObservedRuntime(IdleReleaseDecorator(PersistenceDecorator(BasicRuntime(), store=store), store=store, idle_timeout=idle_timeout), store=store, persistence_backoff=[0.01])
    return rt, _WorkflowService(rt, store)


async def r2_fixed():
    class Resp(HumanResponseEvent): pass
    async def one(store, wf_cls, hid, after=None, timeout=5, idle_timeout=60.0):
        rt, svc = build_fixed(store, idle_timeout)
        w = wf_cls(timeout=timeout); w._switch_workflow_name(hid); w._switch_runtime(rt)
        await svc.start()
        hd = await svc.start_workflow(w, hid, StartEvent())
        if after: await after(svc, hd)
        else: hd = await svc.await_workflow(hd)
        await asyncio.sleep(0.3)
        rec = (await store.query(HandlerQuery(handler_id_in=[hid])))[0]
        await svc.stop()
        return rec
    class Ok(Workflow):
        @step
        async def s(self, ev: StartEvent) -> StopEvent: return StopEvent(result="ok")
    class Boom(Workflow):
        @step
        async def s(self, ev: StartEvent) -> StopEvent: raise ValueError("step boom")
    class Slow(Workflow):
        @step
        async def s(self, ev: StartEvent) -> StopEvent:
            await asyncio.sleep(30); return StopEvent()
    class Waits(Workflow):
        @step
        async def s(self, ctx: Context, ev: StartEvent) -> StopEvent:
            r = await ctx.wait_for_event(Resp); return StopEvent(result="resumed")
    async def cancel(svc, hd):
        await asyncio.sleep(0.1); await svc.cancel_handler(hd.handler_id)
    async def let_release(svc, hd):
        await asyncio.sleep(0.6)
    rec = await one(FlakyStore(), Ok, "flaky"); print("fixed r2a transient append_event failure ->", rec.status, "|", rec.error)
    rec = await one(MemoryWorkflowStore(), Ok, "ok"); print("fixed completed ->", rec.status, getattr(rec.result, "result", None))
    rec = await one(MemoryWorkflowStore(), Boom, "boom"); print("fixed step failure ->", rec.status, "|", rec.error)
    rec = await one(MemoryWorkflowStore(), Slow, "slow", timeout=0.2); print("fixed timeout ->", rec.status, "|", rec.error)
    rec = await one(MemoryWorkflowStore(), Slow, "cancel", after=cancel); print("fixed cancel ->", rec.status)
    rec = await one(MemoryWorkflowStore(), Waits, "idle", after=let_release, idle_timeout=0.1); print("fixed idle-released (run task aborted, run not ended) ->", rec.status, "idle_since set:", rec.idle_since is not None)


try:
    asyncio.run(r2_fixed())
except Exception as e:
    import traceback; traceback.print_exc()
