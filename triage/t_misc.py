import boot, ast, re, random, asyncio, sys
# --- C32: extract the two pure functions from k8s_client.py
src = open("/repo/packages/llama-agents-control-plane/src/llama_agents/control_plane/k8s_client.py").read()
tree = ast.parse(src)
keep = [n for n in tree.body if isinstance(n,(ast.FunctionDef,ast.AsyncFunctionDef)) and n.name in ("_append_random_suffix","find_deployment_id")]
ns = {"re":re,"random":random}
async def validate_deployment_id(x): return True
ns["validate_deployment_id"]=validate_deployment_id
exec(compile(ast.Module(body=keep,type_ignores=[]),"k8s","exec"), ns)
DNS = re.compile(r"^[a-z]([a-z0-9-]{0,61}[a-z0-9])?$")
async def c32():
    for name in ["1","a-b","ab","", "İstanbul", "x"*80, "A"*62+"-b", "---", "9lives", "a_b", "ß", "ab-"*30]:
        out = await ns["find_deployment_id"](name)
        alnum = sum(c.isascii() and c.isalnum() for c in name.lower())
        print("C32 %-14r -> %-30r valid=%s alnum(name)=%d suffix=%s" % (name[:14], out[:30], bool(DNS.match(out)) and len(out)<=63, alnum, bool(re.search(r"-[0-9a-f]{5}$", out)) or len(out)==5))
asyncio.run(c32())

# --- C34
sys.path.insert(0, "/repo/src")
from dev_cli.changesets import pep440_to_semver, semver_to_pep440
from dev_cli.versioning import detect_change_type
from packaging.version import Version
for v in ["1.2.3a4","1.2a4","1.2.3.4rc1","1.0","1.2.3", "1!1.2.3b1"]:
    s = pep440_to_semver(v); back = semver_to_pep440(s)
    print("C34 %-12s -> %-14s -> %-14s normalized-original-equal=%s" % (v, s, back, back==str(Version(v))))
for c,p in [("1.0.0","1.0.0rc1"),("1.0.0.1","1.0.0"),("2.0.0","1.9.9"),("1.0.1","1.0.0"),("1.1.0","1.0.5"),("1.0.0","1.0.0"),("1.0.0rc2","1.0.0rc1")]:
    print("C34 change", c, p, detect_change_type(c,p))

# --- C18 nested classes / exceptions
from workflows.events import *
from workflows.context.serializers import JsonSerializer
class Outer:
    class InnerErr(Exception): pass
    class InnerEv(Event): x: int = 0
import __main__
s=JsonSerializer()
e = WorkflowFailedEvent(step_name="s", exception=Outer.InnerErr("boom"), attempts=1, elapsed_seconds=0.0)
b = s.deserialize(s.serialize(e))
print("C18 nested exception type kept:", type(b.exception).__name__, str(b.exception))
try:
    b2 = s.deserialize(s.serialize(Outer.InnerEv(x=1))); print("C18 nested event:", type(b2).__name__)
except Exception as ex: print("C18 nested event ERR:", repr(ex)[:90])
e3 = WorkflowFailedEvent(step_name="s", exception=KeyError("k"), attempts=1, elapsed_seconds=0.0)
b3 = s.deserialize(s.serialize(e3)); print("C18 KeyError message:", str(e3.exception), "->", str(b3.exception))
class M(BaseModel if False else object): pass
from pydantic import BaseModel
class Pt(BaseModel): x: int = 1
ev = Event(p=Pt(x=2)); bb = s.deserialize(s.serialize(ev)); print("C18 nested model in dynamic field:", type(ev["p"]).__name__, "->", type(bb["p"]).__name__)
