"""Sanity sampling for C25 / C30 on the real code (triage aid, not a check): both expected clean."""
import boot, asyncio, gc
from workflows import Workflow, step
from workflows.events import StartEvent, StopEvent
from llama_agents.server._keyed_lock import KeyedLock

async def c30():
    cur = {}; peak = {}
    class W(Workflow):
        @step
        async def s(self, ev: StartEvent) -> StopEvent:
            k = id(self); cur[k] = cur.get(k, 0) + 1; peak[k] = max(peak.get(k, 0), cur[k])
            await asyncio.sleep(0.02); cur[k] -= 1
            return StopEvent(result=1)
    for n in (1, 2, 3, 4):
        a, b = W(num_concurrent_runs=n), W(num_concurrent_runs=1)
        hs = [a.run() for _ in range(9)] + [b.run() for _ in range(3)]
        await asyncio.gather(*hs)
        print(f"C30 limit={n}: peak concurrent runs of instance a = {peak[id(a)]}, of instance b (limit 1) = {peak[id(b)]}")
        gc.collect()

async def c25():
    kl = KeyedLock(); inside = {"a": 0, "b": 0}; peak = {"a": 0, "b": 0}
    async def hold(k, d):
        async with kl(k):
            inside[k] += 1; peak[k] = max(peak[k], inside[k])
            try: await asyncio.sleep(d)
            finally: inside[k] -= 1
    ts = [asyncio.create_task(hold("a", 0.02)) for _ in range(5)] + [asyncio.create_task(hold("b", 0.02)) for _ in range(3)]
    await asyncio.sleep(0.03)
    for t in ts[2:4]: t.cancel()          # cancel while queued
    ts[1].cancel()                         # cancel (possibly) while holding
    await asyncio.gather(*ts, return_exceptions=True)
    print("C25 peak holders per key:", peak, "| state after everybody left:", kl._locks, kl._refs)

asyncio.run(c30()); asyncio.run(c25())
