import boot, json
from workflows.events import *
from workflows.context.serializers import JsonSerializer
from workflows.runtime.types.ticks import *
from workflows.runtime.types.results import *
from pydantic import BaseModel
s = JsonSerializer()
class Pt(BaseModel):
    x: int = 1
def rt(e):
    return s.deserialize(s.serialize(e))
# 1 StopEvent with dynamic fields
e = StopEvent(result=1, foo=2)
print("dump StopEvent(result=1, foo=2):", e.model_dump(mode="json"))
b = rt(e); print("  back: result", b.result, "_data", dict(b._data))
class MyStop(StopEvent):
    y: int = 0
e = MyStop(y=3, foo=2, result=[1])
print("dump MyStop:", e.model_dump(mode="json")); b = rt(e); print("  back:", type(b).__name__, b.y, b.result, dict(b._data))
# 2 result nested model
e = StopEvent(result=Pt(x=5)); b = rt(e); print("result Pt ->", type(b.result).__name__, b.result)
e = StopEvent(result=Event(a=1)); b = rt(e); print("result Event ->", type(b.result).__name__, b.result)
# 3 dynamic nested
e = Event(p=Pt(x=2), q=[Pt(x=3)]); b = rt(e); print("dyn Pt ->", type(b["p"]).__name__, b["q"])
# 4 exceptions
for exc in [KeyError("k"), ValueError("a", "b"), OSError(2, "nope"), UnicodeDecodeError("utf-8", b"x", 0, 1, "bad")]:
    ev = WorkflowFailedEvent(step_name="s", exception=exc, attempts=1, elapsed_seconds=0.0)
    try:
        b = rt(ev); print("exc", type(exc).__name__, repr(str(exc)), "->", type(b.exception).__name__, repr(str(b.exception)))
    except Exception as ex:
        print("exc", type(exc).__name__, "ERR", type(ex).__name__, str(ex)[:80])
# 5 tick format
t = TickAddEvent(event=StopEvent(result=Pt(x=1), foo=2))
d = WorkflowTickAdapter.dump_python(t, mode="json"); print("tick:", json.dumps(d)[:200])
t2 = WorkflowTickAdapter.validate_python(d); print("  back:", type(t2.event).__name__, type(t2.event.result).__name__, dict(t2.event._data))
# 6 envelope
from llama_agents.client.protocol.serializable_events import EventEnvelopeWithMetadata, EventEnvelope
class Outer:
    class InnerEv(Event):
        x: int = 0
env = EventEnvelopeWithMetadata.from_event(Outer.InnerEv(x=1)); print("env qn:", env.qualified_name)
try: print(type(env.load_event()).__name__)
except Exception as ex: print("  load ERR", type(ex).__name__, str(ex)[:100])
env = EventEnvelopeWithMetadata.from_event(StopEvent(result=3, foo=2)); print("env value:", env.value)
try: b = env.load_event(); print("  loaded", type(b).__name__, b.result, dict(b._data))
except Exception as ex: print("  load ERR", type(ex).__name__, str(ex)[:100])
env = EventEnvelopeWithMetadata.from_event(Event(foo=2)); print("env value:", env.value); b = env.load_event(); print("  loaded", type(b).__name__, dict(b._data))
